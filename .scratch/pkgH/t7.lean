import KskmProofs.Lemmas.SignerInv
namespace Kskm

theorem dndepth_ok {dn : String} {n : Int} (h : dndepth dn = .ok n) : dn = "." ∧ n = 0 := by
  unfold dndepth at h
  split at h
  · simp only [pure, Except.pure, Except.ok.injEq] at h
    exact ⟨by assumption, h.symm⟩
  · simp [err] at h

/-- `make_raw_rrsig` succeeding: every field in wire range, every RDATA decodable and short enough,
    signer name the root, and the octets are `rawRrsigOf` of the fields over the RDATAs. -/
theorem makeRawRrsig_ok {sig : Signature} {keys : List Key} {raw : Bytes}
    (h : makeRawRrsig sig keys = .ok raw) :
    ∃ rdatas, keys.mapM keyToRdata = .ok rdatas ∧ sig.signersName = "." ∧
      sig.typeCovered < 65536 ∧ sig.algorithm < 256 ∧ inRange 8 sig.labels = true ∧
      inRange 32 sig.originalTtl = true ∧ inRange 32 (tsSeconds sig.expiration) = true ∧
      inRange 32 (tsSeconds sig.inception) = true ∧ inRange 16 sig.keyTag = true ∧
      (∀ r ∈ rdatas, r.length < 65536) ∧
      raw = rawRrsigOf sig.typeCovered sig.algorithm sig.labels.toNat sig.originalTtl.toNat
        (tsSeconds sig.expiration).toNat (tsSeconds sig.inception).toNat sig.keyTag.toNat rdatas := by
  unfold makeRawRrsig at h
  simp only [bind, Except.bind] at h
  split at h
  · simp [err] at h
  · rename_i hc
    simp only [Bool.not_eq_true', Bool.not_eq_false, Bool.and_eq_true, decide_eq_true_eq] at hc
    obtain ⟨⟨⟨⟨⟨⟨h1, h2⟩, h3⟩, h4⟩, h5⟩, h6⟩, h7⟩ := hc
    cases hdn : dn2wire sig.signersName with
    | error e => simp [hdn] at h
    | ok w =>
      have hroot : sig.signersName = "." := by
        unfold dn2wire at hdn
        split at hdn
        · assumption
        · simp [err] at hdn
      cases hrd : keys.mapM keyToRdata with
      | error e => simp [hdn, hrd] at h
      | ok rdatas =>
        simp only [hdn, hrd] at h
        split at h
        · simp [err] at h
        · rename_i hlen
          simp only [pure, Except.pure, Except.ok.injEq] at h
          refine ⟨rdatas, rfl, hroot, h1, h2, h3, h4, h5, h6, h7, ?_, h.symm⟩
          intro r hr
          simp only [List.any_eq_true, decide_eq_true_eq, not_exists, not_and, Nat.not_le] at hlen
          exact hlen r hr

theorem makeRawRrsig_sigData (sig : Signature) (d : String) (keys : List Key) :
    makeRawRrsig { sig with signatureData := d } keys = makeRawRrsig sig keys := rfl

end Kskm
