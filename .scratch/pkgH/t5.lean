import KskmProofs.Lemmas.SignerInv
namespace Kskm

theorem publicKeyToDnssecKey_ok {pk id : String} {alg : Nat} {ttl flags : Int} {k : Key}
    (h : publicKeyToDnssecKey pk id alg ttl flags = .ok k) :
    k.keyIdentifier = id ∧ k.ttl = ttl ∧ k.flags = flags ∧ k.protocol = 3 ∧ k.algorithm = alg ∧
    k.publicKey = pk ∧ ∃ r, keyToRdata k = .ok r ∧ k.keyTag = (keyTagOfRdata r : Nat) := by
  unfold publicKeyToDnssecKey at h
  simp only [bind, Except.bind] at h
  split at h
  · simp at h
  · unfold calculateKeyTag at h
    cases hr : keyToRdata ⟨id, 0, ttl, flags, 3, alg, pk⟩ with
    | error e => simp [hr, bind, Except.bind] at h
    | ok r =>
      simp only [hr, bind, Except.bind, pure, Except.pure, Except.ok.injEq] at h
      subst h
      refine ⟨rfl, rfl, rfl, rfl, rfl, rfl, r, ?_, rfl⟩
      simpa [keyToRdata] using hr

/-- what `_fetch_keys` guarantees about one returned key, for the configured name it was fetched under -/
def FetchedAs (cfg : SignerConfig) (name : String) (ck : CompositeKey) : Prop :=
  ∃ ksk pk, cfg.kskKeys.lookup name = some ksk ∧ ck.p11.publicKey = some pk ∧
    publicKeyToDnssecKey pk ksk.label ksk.algorithm cfg.kskPolicy.ttl 257 = .ok ck.dns

theorem fetchKeys_nil (ext : Externals) (mods : List P11Module) (cfg : SignerConfig) (bundle : Bundle)
    (isPublic : Bool) : fetchKeys ext mods cfg bundle isPublic [] = pure [] := by
  simp [fetchKeys]

theorem fetchKeys_ok {ext : Externals} {mods : List P11Module} {cfg : SignerConfig} {bundle : Bundle}
    {isPublic : Bool} {names : List String} {t : Token} {s s' : TokState} {cks : List CompositeKey}
    (h : fetchKeys ext mods cfg bundle isPublic names t s = (.ok cks, s')) :
    (∀ ck ∈ cks, ∃ name ∈ names, FetchedAs cfg name ck) ∧
    (∀ name ∈ names, ∃ ck ∈ cks, FetchedAs cfg name ck) ∧ cks.length = names.length := by
  induction names generalizing s cks with
  | nil =>
    simp [fetchKeys] at h
    obtain ⟨rfl, _⟩ := h
    simp
  | cons name rest ih =>
    unfold fetchKeys at h
    cases hl : cfg.kskKeys.lookup name with
    | none => simp [hl] at h
    | some ksk =>
      simp only [hl] at h
      obtain ⟨g, s1, hg, h⟩ := TokM.bind_ok _ _ _ _ _ _ h
      cases g with
      | none => simp at h
      | some ck =>
        simp only at h
        obtain ⟨u, _, h⟩ := (TokM.lift_bind_ok_iff _ _ _ _ _ _).mp h
        obtain ⟨more, s2, hmore, h⟩ := TokM.bind_ok _ _ _ _ _ _ h
        simp only [TokM.pure_run, Prod.mk.injEq, Except.ok.injEq] at h
        obtain ⟨rfl, rfl⟩ := h
        obtain ⟨pk, hpk, hdns⟩ := (loadPkcs11Key_good mods ksk cfg.kskPolicy bundle isPublic).out _ _ _ _ hg
        have hck : FetchedAs cfg name ck := ⟨ksk, pk, hl, hpk, hdns⟩
        obtain ⟨ih1, ih2, ih3⟩ := ih hmore
        refine ⟨?_, ?_, by simp [ih3]⟩
        · intro c hc
          rcases List.mem_cons.mp hc with rfl | hc
          · exact ⟨name, by simp, hck⟩
          · obtain ⟨n, hn, hf⟩ := ih1 c hc
            exact ⟨n, List.mem_cons_of_mem _ hn, hf⟩
        · intro n hn
          rcases List.mem_cons.mp hn with rfl | hn
          · exact ⟨ck, by simp, hck⟩
          · obtain ⟨c, hc, hf⟩ := ih2 n hn
            exact ⟨c, List.mem_cons_of_mem _ hc, hf⟩

/-! ### the signing loop -/

theorem signAll_nil (ext : Externals) (bundle : Bundle) (keys : List Key) (pol : KskPolicy)
    (acc : List Signature) : signAll ext bundle keys pol [] acc = pure acc := by
  simp [signAll]

theorem signAll_cons (ext : Externals) (bundle : Bundle) (keys : List Key) (pol : KskPolicy)
    (sk : CompositeKey) (rest : List CompositeKey) (acc : List Signature) :
    signAll ext bundle keys pol (sk :: rest) acc =
      if acc.any (fun s => s.keyIdentifier = sk.dns.keyIdentifier) then signAll ext bundle keys pol rest acc
      else signKeys ext bundle keys sk pol >>= fun s => signAll ext bundle keys pol rest (acc ++ [s]) := by
  rw [signAll]

def DistinctIds (l : List Signature) : Prop := l.Pairwise (fun a b => a.keyIdentifier ≠ b.keyIdentifier)

theorem signKeys_ok_id {ext : Externals} {bundle : Bundle} {keys : List Key} {sk : CompositeKey}
    {pol : KskPolicy} {t : Token} {s s' : TokState} {σ : Signature}
    (h : signKeys ext bundle keys sk pol t s = (.ok σ, s')) :
    σ.keyIdentifier = sk.dns.keyIdentifier ∧ σ.algorithm = sk.dns.algorithm ∧ s'.count = s.count + 1 := by
  obtain ⟨_, dnsKey, labels, raw, sigBytes, pk, _, _, _, hs, _, _, _, rfl⟩ := signKeys_ok h
  obtain ⟨d, hd, _, _, _, _, _, rfl⟩ := signUsingP11_ok hs
  exact ⟨rfl, rfl, rfl⟩

/-- The loop, for every accumulator: nothing already collected is lost, every new signature comes
    from one successful `_sign_keys` call by one of the listed keys, every listed key is represented,
    identifiers stay pairwise distinct (the skip rule), one token operation per new signature. -/
theorem signAll_ok {ext : Externals} {bundle : Bundle} {keys : List Key} {pol : KskPolicy}
    {sks : List CompositeKey} {acc sigs : List Signature} {t : Token} {s s' : TokState}
    (h : signAll ext bundle keys pol sks acc t s = (.ok sigs, s')) :
    ∃ new, sigs = acc ++ new ∧
      (∀ σ ∈ new, ∃ sk ∈ sks, ∃ s1 s2, signKeys ext bundle keys sk pol t s1 = (.ok σ, s2)) ∧
      (∀ sk ∈ sks, ∃ σ ∈ sigs, σ.keyIdentifier = sk.dns.keyIdentifier) ∧
      (DistinctIds acc → DistinctIds sigs) ∧
      s'.count = s.count + new.length := by
  induction sks generalizing acc s with
  | nil =>
    simp [signAll_nil] at h
    obtain ⟨rfl, rfl⟩ := h
    exact ⟨[], by simp, by simp, by simp, id, by simp⟩
  | cons sk rest ih =>
    rw [signAll_cons] at h
    by_cases hany : acc.any (fun s => s.keyIdentifier = sk.dns.keyIdentifier) = true
    · simp only [hany, ↓reduceIte] at h
      obtain ⟨new, e, h1, h2, h3, h4⟩ := ih h
      refine ⟨new, e, ?_, ?_, h3, h4⟩
      · intro σ hσ
        obtain ⟨k, hk, r⟩ := h1 σ hσ
        exact ⟨k, List.mem_cons_of_mem _ hk, r⟩
      · intro k hk
        rcases List.mem_cons.mp hk with rfl | hk
        · simp only [List.any_eq_true, decide_eq_true_eq] at hany
          obtain ⟨σ, hσ, hid⟩ := hany
          exact ⟨σ, by rw [e]; exact List.mem_append_left _ hσ, hid⟩
        · exact h2 k hk
    · simp only [hany, Bool.false_eq_true, ↓reduceIte] at h
      obtain ⟨σ0, s1, hsk, h⟩ := TokM.bind_ok _ _ _ _ _ _ h
      obtain ⟨hid, _, hc⟩ := signKeys_ok_id hsk
      obtain ⟨new, e, h1, h2, h3, h4⟩ := ih h
      refine ⟨σ0 :: new, by rw [e]; simp, ?_, ?_, ?_, by rw [h4, hc]; simp; omega⟩
      · intro σ hσ
        rcases List.mem_cons.mp hσ with rfl | hσ
        · exact ⟨sk, by simp, s, s1, hsk⟩
        · obtain ⟨k, hk, r⟩ := h1 σ hσ
          exact ⟨k, List.mem_cons_of_mem _ hk, r⟩
      · intro k hk
        rcases List.mem_cons.mp hk with rfl | hk
        · exact ⟨σ0, by rw [e]; simp, hid⟩
        · exact h2 k hk
      · intro hd
        apply h3
        unfold DistinctIds at *
        rw [List.pairwise_append]
        refine ⟨hd, by simp, ?_⟩
        intro a ha b hb
        simp only [List.mem_singleton] at hb
        subst hb
        intro hab
        apply hany
        simp only [List.any_eq_true, decide_eq_true_eq]
        exact ⟨a, ha, hab.trans hid⟩

end Kskm
