import KskmProofs.C01
namespace Kskm.C01
open Kskm

def exTok2' : Token := fun _ op =>
  match op with
  | .findObjects _ _ _ => .handles [5]
  | .getAttr _ _ _ ["KEY_TYPE"] => .attrs [.num 0]
  | .getAttr _ _ _ ["MODULUS"] => .attrs [.bytes [0x80, 1]]
  | .getAttr _ _ _ ["PUBLIC_EXPONENT"] => .attrs [.bytes [1, 0, 1]]
  | .sign .. => .sig [1, 2, 3]
  | _ => .other
def exExt' : Externals :=
  { hash := fun _ d => some d, verify := fun _ _ _ sg => if sg = [1, 2, 3] then .valid else .invalid }
def exCfg' : SignerConfig :=
  { kskKeys := [("k1", { label := "ksk", algorithm := 8, validFrom := 0, rsaSize := some 16,
                         rsaExponent := some 65537, hashUsingHsm := some true })],
    actions := [(1, { publish := ["k1"], sign := ["k1"] })] }
def exMods' : List P11Module := [{ label := "hsm", path := "m", sessions := [0] }]
def exZsk' : Key := ⟨"zsk", 2, 172800, 256, 3, 8, "AwEAAg=="⟩
def exBundle' : Bundle := ⟨"b1", 1700000000000000, 1701000000000000, [exZsk'], [], none⟩

def exPriv : P11Key :=
  { label := "ksk", keyType := .rsa, keyClass := 3, hashUsingHsm := some true,
    publicKey := some "AwEAAYAB", module := "m", slot := 0, privHandle := some 5, pubHandle := some 5 }
def exPubObj : P11Key := { exPriv with keyClass := 2, privHandle := none }
def exDns : Key := ⟨"ksk", 34572, 172800, 257, 3, 8, "AwEAAYAB"⟩
def exKeys : List Key := slotFold 172800 [exDns] [] [exDns] [exZsk']
def exRaw : Bytes :=
  match makeRawRrsig (sigTemplate exBundle' ⟨exPriv, exDns⟩ exCfg'.kskPolicy 0 34572) exKeys with
  | .ok r => r
  | _ => []

theorem exRaw_eq : makeRawRrsig (sigTemplate exBundle' ⟨exPriv, exDns⟩ exCfg'.kskPolicy 0 34572) exKeys = .ok exRaw := by
  have hs : (makeRawRrsig (sigTemplate exBundle' ⟨exPriv, exDns⟩ exCfg'.kskPolicy 0 34572) exKeys).toOption.isSome
      = true := by decide +kernel
  unfold exRaw
  cases h : makeRawRrsig (sigTemplate exBundle' ⟨exPriv, exDns⟩ exCfg'.kskPolicy 0 34572) exKeys with
  | error e => rw [h] at hs; simp [Except.toOption] at hs
  | ok r => rfl

/-- the hypotheses of `C01_completes_partial` are satisfiable: `WellFormed` holds of the keys that
    token returns for the example schema slot -/
example : WellFormed exExt' exCfg' exBundle' exKeys [⟨exPriv, exDns⟩] exTok2' 0 where
  root := rfl
  zsks := by decide
  algs := by intro a; simp [exBundle', exZsk', exDns]
  idAlg := by decide
  noDupIds := by decide +kernel
  ready := by
    intro sk hsk
    simp only [List.mem_singleton] at hsk
    subst hsk
    refine ⟨exDns, "AwEAAYAB", exRaw, ⟨exRaw, 64, true⟩, 5, by decide +kernel, rfl, rfl, rfl, rfl,
      by decide +kernel, exRaw_eq, by decide, by decide, rfl, rfl, ?_⟩
    intro n _
    exact ⟨[1, 2, 3], rfl, rfl⟩
end Kskm.C01
