import Kskm.Signer
import KskmProofs.Lemmas.TokM
import KskmProofs.Lemmas.SignerKeys
namespace Kskm

theorem TokM.bind_ok_iff {α β} (m : TokM α) (f : α → TokM β) (t : Token) (s s' : TokState) (b : β) :
    (m >>= f) t s = (.ok b, s') ↔ ∃ a s1, m t s = (.ok a, s1) ∧ f a t s1 = (.ok b, s') := by
  constructor
  · exact TokM.bind_ok m f t s s' b
  · rintro ⟨a, s1, h1, h2⟩
    rw [TokM.bind_eq, h1]; exact h2

theorem TokM.lift_bind_ok_iff {α β} (r : Res α) (f : α → TokM β) (t : Token) (s s' : TokState) (b : β) :
    (TokM.lift r >>= f) t s = (.ok b, s') ↔ ∃ a, r = .ok a ∧ f a t s = (.ok b, s') := by
  rw [TokM.bind_ok_iff]
  constructor
  · rintro ⟨a, s1, h1, h2⟩
    simp only [TokM.lift_run, Prod.mk.injEq] at h1
    obtain ⟨h1, rfl⟩ := h1
    exact ⟨a, h1, h2⟩
  · rintro ⟨a, h1, h2⟩
    exact ⟨a, s, by simp [h1], h2⟩

@[simp] theorem TokM.err_bind_run {α β} (k : ErrKind) (f : α → TokM β) (t : Token) (s : TokState) :
    ((TokM.err k : TokM α) >>= f) t s = (.error (.error k), s) := rfl

@[simp] theorem TokM.fail_bind_run {α β} (e : Fail) (f : α → TokM β) (t : Token) (s : TokState) :
    ((TokM.fail e : TokM α) >>= f) t s = (.error e, s) := rfl

/-- what `askOk` returns when it succeeds: the oracle's answer (not a PyKCS11Error), one op logged -/
theorem askOk_ok {op : TokOp} {t : Token} {s s' : TokState} {a : TokAns}
    (h : askOk op t s = (.ok a, s')) :
    a = t s.count op ∧ a ≠ .error ∧ s' = { count := s.count + 1, log := (op, a) :: s.log } := by
  unfold askOk at h
  obtain ⟨a0, s1, h1, h2⟩ := TokM.bind_ok _ _ _ _ _ _ h
  rw [ask_run] at h1
  simp only [Prod.mk.injEq, Except.ok.injEq] at h1
  obtain ⟨rfl, rfl⟩ := h1
  cases hh : t s.count op <;> simp only [hh] at h2 <;>
    first
    | (simp at h2; done)
    | (simp only [TokM.pure_run, Prod.mk.injEq, Except.ok.injEq] at h2
       obtain ⟨rfl, rfl⟩ := h2
       simp)

/-- `sign_using_p11` succeeding: exactly one operation, a `C_Sign` with the formatted data. -/
theorem signUsingP11_ok {hash : Hasher} {key : P11Key} {data : Bytes} {alg : Nat} {t : Token}
    {s s' : TokState} {b : Bytes} (h : signUsingP11 hash key data alg t s = (.ok b, s')) :
    ∃ d hd, formatDataForSigning hash key data alg = .ok d ∧ key.privHandle = some hd ∧
      key.keyType ≠ .aes ∧ key.keyType ≠ .des3 ∧
      t s.count (.sign key.module key.slot hd d.mechanism d.data) = .sig b ∧
      s' = { count := s.count + 1,
             log := (.sign key.module key.slot hd d.mechanism d.data, .sig b) :: s.log } := by
  unfold signUsingP11 at h
  have key_ok : key.keyType ≠ .aes ∧ key.keyType ≠ .des3 ∧
      (TokM.lift (formatDataForSigning hash key data alg) >>= fun d =>
        match key.privHandle with
        | none => TokM.err ErrKind.runtime
        | some h => do
          let a ← askOk (TokOp.sign key.module key.slot h d.mechanism d.data)
          match a with
            | TokAns.sig b => pure b
            | _ => TokM.fail Fail.unsupported) t s = (.ok b, s') := by
    cases hk : key.keyType <;> simp only [hk] at h
    · exact ⟨by simp, by simp, h⟩
    · exact ⟨by simp, by simp, h⟩
    · simp at h
    · simp at h
  obtain ⟨hk1, hk2, h2⟩ := key_ok
  obtain ⟨d, hd, h3⟩ := (TokM.lift_bind_ok_iff _ _ _ _ _ _).mp h2
  cases hp : key.privHandle with
  | none => simp [hp] at h3
  | some hdl =>
    simp only [hp] at h3
    obtain ⟨a, s2, h4, h5⟩ := TokM.bind_ok _ _ _ _ _ _ h3
    obtain ⟨ha, _, rfl⟩ := askOk_ok h4
    refine ⟨d, hdl, hd, rfl, hk1, hk2, ?_⟩
    cases a <;> simp at h5
    obtain ⟨rfl, rfl⟩ := h5
    exact ⟨ha.symm, rfl⟩

/-- the signature record `_sign_keys` fills in before signing (signature data empty) -/
def sigTemplate (bundle : Bundle) (sk : CompositeKey) (pol : KskPolicy) (labels : Int) (tag : Int) :
    Signature :=
  { keyIdentifier := sk.dns.keyIdentifier, ttl := pol.ttl, typeCovered := 48,
    algorithm := sk.dns.algorithm, labels := labels, originalTtl := pol.ttl,
    expiration := bundle.expiration, inception := bundle.inception, keyTag := tag,
    signersName := pol.signersName, signatureData := "" }

theorem signKeys_ok {ext : Externals} {bundle : Bundle} {keys : List Key} {sk : CompositeKey}
    {pol : KskPolicy} {t : Token} {s s' : TokState} {σ : Signature}
    (h : signKeys ext bundle keys sk pol t s = (.ok σ, s')) :
    (∀ k ∈ keys, k.ttl = pol.ttl) ∧
    ∃ dnsKey labels raw sigBytes pk,
      ktsGet keys sk.dns.keyIdentifier = .ok (some dnsKey) ∧
      dndepth pol.signersName = .ok labels ∧
      makeRawRrsig (sigTemplate bundle sk pol labels dnsKey.keyTag) keys = .ok raw ∧
      signUsingP11 ext.hash sk.p11 raw sk.dns.algorithm t s = (.ok sigBytes, s') ∧
      sk.p11.publicKey = some pk ∧
      publicKeyFromKey { sk.dns with publicKey := pk } = .ok () ∧
      ext.verify sk.dns.algorithm pk raw sigBytes = .valid ∧
      σ = { sigTemplate bundle sk pol labels dnsKey.keyTag with signatureData := Base64.encode sigBytes } := by
  unfold signKeys at h
  by_cases hany : (keys.any fun k => k.ttl != pol.ttl) = true
  · simp only [hany, ↓reduceIte] at h
    simp at h
  · simp only [hany, Bool.false_eq_true, ↓reduceIte] at h
    refine ⟨?_, ?_⟩
    · intro k hk
      simp only [List.any_eq_true, not_exists, not_and] at hany
      simpa using hany k hk
    · obtain ⟨g, hg, h⟩ := (TokM.lift_bind_ok_iff _ _ _ _ _ _).mp h
      cases g with
      | none => simp at h
      | some dnsKey =>
        simp only at h
        obtain ⟨labels, hl, h⟩ := (TokM.lift_bind_ok_iff _ _ _ _ _ _).mp h
        obtain ⟨raw, hraw, h⟩ := (TokM.lift_bind_ok_iff _ _ _ _ _ _).mp h
        obtain ⟨sigBytes, s1, hsign, h⟩ := TokM.bind_ok _ _ _ _ _ _ h
        cases hpk : sk.p11.publicKey with
        | none => simp [hpk] at h
        | some pk =>
          simp only [hpk] at h
          obtain ⟨u, hu, h⟩ := (TokM.lift_bind_ok_iff _ _ _ _ _ _).mp h
          refine ⟨dnsKey, labels, raw, sigBytes, pk, hg, hl, hraw, ?_, rfl, hu, ?_⟩
          · cases hv : ext.verify sk.dns.algorithm pk raw sigBytes <;> simp [hv] at h
            rw [hsign, h.2]
          · cases hv : ext.verify sk.dns.algorithm pk raw sigBytes <;> simp [hv] at h
            exact ⟨rfl, h.1.symm⟩

end Kskm
