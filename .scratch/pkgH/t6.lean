import KskmProofs.Lemmas.SignerInv
namespace Kskm

/-! ### one slot -/

theorem sameSet_iff (a b : List Nat) : sameSet a b = true ↔ ∀ x, x ∈ a ↔ x ∈ b := by
  simp only [sameSet, Bool.and_eq_true, List.all_eq_true, List.contains_iff_mem]
  constructor
  · rintro ⟨h1, h2⟩ x; exact ⟨h1 x, h2 x⟩
  · intro h; exact ⟨fun x hx => (h x).mp hx, fun x hx => (h x).mpr hx⟩

/-- the key set `sign_bundles` assembles for one slot, from the fetched keys -/
def slotFold (ttl : Int) (P R S Z : List Key) : List Key :=
  Z.foldl (fun acc k => ktsAdd ttl acc k)
    (S.foldl (fun acc k => ktsAdd ttl acc k)
      (R.foldl (fun acc k => ktsUpdate ttl acc k)
        (P.foldl (fun acc k => ktsAdd ttl acc k) [])))

/-- the tail of `signBundle` after the signatures are made -/
def finishBundle (ext : Externals) (cfg : SignerConfig) (bundle : Bundle) (keys : List Key)
    (sigs : List Signature) : Res Bundle :=
  if !sameSet (bundle.keys.map (·.algorithm)) (sigs.map (·.algorithm)) then err .createSignature
  else
    let rb : Bundle := { id := bundle.id, inception := bundle.inception, expiration := bundle.expiration,
                         keys := keys, signatures := sigs }
    match checkValidSignatures ext.verify rb cfg.responsePolicy with
    | .ok _ => .ok rb
    | .error e => .error e

/-- `signBundle` as a composition of its steps (pure restatement of the definition) -/
theorem signBundle_eq (ext : Externals) (mods : List P11Module) (cfg : SignerConfig) (slot : Nat)
    (bundle : Bundle) (act : SchemaAction) (hact : cfg.actions.lookup slot = some act) :
    signBundle ext mods cfg slot bundle =
      (fetchKeys ext mods cfg bundle true act.publish >>= fun pub =>
       fetchKeys ext mods cfg bundle true act.revoke >>= fun rev =>
       TokM.lift (rev.mapM (fun ck => ck.dns.asRevoked)) >>= fun revoked =>
       fetchKeys ext mods cfg bundle false act.sign >>= fun signing =>
       signAll ext bundle (slotFold cfg.kskPolicy.ttl (pub.map (·.dns)) revoked (signing.map (·.dns)) bundle.keys)
          cfg.kskPolicy signing [] >>= fun sigs =>
       TokM.lift (finishBundle ext cfg bundle
          (slotFold cfg.kskPolicy.ttl (pub.map (·.dns)) revoked (signing.map (·.dns)) bundle.keys) sigs)) := by
  unfold signBundle
  simp only [hact]
  congr 1; funext pub
  congr 1; funext rev
  congr 1; funext revoked
  congr 1; funext signing
  simp only [foldl_map_dns, slotFold]
  congr 1; funext sigs
  funext t s
  unfold finishBundle
  by_cases hs : sameSet (bundle.keys.map (·.algorithm)) (sigs.map (·.algorithm)) = true
  · simp only [hs, Bool.not_true, Bool.false_eq_true, ↓reduceIte, TokM.lift_run]
    rw [TokM.bind_eq]
    simp only [TokM.lift_run]
    split <;> rename_i h1 <;> split <;> rename_i h2 <;> simp_all
  · simp only [hs, Bool.not_false, ↓reduceIte, TokM.err_bind_run, TokM.lift_run, err]

theorem finishBundle_ok {ext : Externals} {cfg : SignerConfig} {bundle : Bundle} {keys : List Key}
    {sigs : List Signature} {rb : Bundle} (h : finishBundle ext cfg bundle keys sigs = .ok rb) :
    sameSet (bundle.keys.map (·.algorithm)) (sigs.map (·.algorithm)) = true ∧
    rb = { id := bundle.id, inception := bundle.inception, expiration := bundle.expiration,
           keys := keys, signatures := sigs } ∧
    checkValidSignatures ext.verify rb cfg.responsePolicy = .ok () := by
  unfold finishBundle at h
  by_cases hs : sameSet (bundle.keys.map (·.algorithm)) (sigs.map (·.algorithm)) = true
  · simp only [hs, Bool.not_true, Bool.false_eq_true, ↓reduceIte] at h
    split at h
    · rename_i u hu
      simp only [Except.ok.injEq] at h
      subst h
      exact ⟨hs, rfl, hu⟩
    · simp at h
  · simp [hs, err] at h

theorem signBundle_ok {ext : Externals} {mods : List P11Module} {cfg : SignerConfig} {slot : Nat}
    {bundle rb : Bundle} {t : Token} {s s' : TokState}
    (h : signBundle ext mods cfg slot bundle t s = (.ok rb, s')) :
    ∃ act pub rev revoked signing s1 s2 s3,
      cfg.actions.lookup slot = some act ∧
      fetchKeys ext mods cfg bundle true act.publish t s = (.ok pub, s1) ∧
      fetchKeys ext mods cfg bundle true act.revoke t s1 = (.ok rev, s2) ∧
      rev.mapM (fun ck => ck.dns.asRevoked) = .ok revoked ∧
      fetchKeys ext mods cfg bundle false act.sign t s2 = (.ok signing, s3) ∧
      rb.keys = slotFold cfg.kskPolicy.ttl (pub.map (·.dns)) revoked (signing.map (·.dns)) bundle.keys ∧
      signAll ext bundle rb.keys cfg.kskPolicy signing [] t s3 = (.ok rb.signatures, s') ∧
      finishBundle ext cfg bundle rb.keys rb.signatures = .ok rb := by
  cases hact : cfg.actions.lookup slot with
  | none => simp [signBundle, hact] at h
  | some act =>
    rw [signBundle_eq ext mods cfg slot bundle act hact] at h
    obtain ⟨pub, s1, hpub, h⟩ := TokM.bind_ok _ _ _ _ _ _ h
    obtain ⟨rev, s2, hrev, h⟩ := TokM.bind_ok _ _ _ _ _ _ h
    obtain ⟨revoked, hrevoked, h⟩ := (TokM.lift_bind_ok_iff _ _ _ _ _ _).mp h
    obtain ⟨signing, s3, hsign, h⟩ := TokM.bind_ok _ _ _ _ _ _ h
    obtain ⟨sigs, s4, hsigs, h⟩ := TokM.bind_ok _ _ _ _ _ _ h
    simp only [TokM.lift_run, Prod.mk.injEq] at h
    obtain ⟨hfin, rfl⟩ := h
    obtain ⟨_, hrb, _⟩ := finishBundle_ok hfin
    have hk : rb.keys = slotFold cfg.kskPolicy.ttl (pub.map (·.dns)) revoked (signing.map (·.dns)) bundle.keys := by
      rw [hrb]
    have hsg : rb.signatures = sigs := by rw [hrb]
    refine ⟨act, pub, rev, revoked, signing, s1, s2, s3, rfl, hpub, hrev, hrevoked, hsign, hk, ?_, ?_⟩
    · rw [hk, hsg]; exact hsigs
    · rw [hk, hsg]; exact hfin

/-- forward form: once the fetches and the signing loop have answered, the outcome is `finishBundle` -/
theorem signBundle_run {ext : Externals} {mods : List P11Module} {cfg : SignerConfig} {slot : Nat}
    {bundle : Bundle} {t : Token} {s s1 s2 s3 s4 : TokState} {act : SchemaAction}
    {pub rev signing : List CompositeKey} {revoked : List Key} {sigs : List Signature}
    (hact : cfg.actions.lookup slot = some act)
    (hpub : fetchKeys ext mods cfg bundle true act.publish t s = (.ok pub, s1))
    (hrev : fetchKeys ext mods cfg bundle true act.revoke t s1 = (.ok rev, s2))
    (hrevoked : rev.mapM (fun ck => ck.dns.asRevoked) = .ok revoked)
    (hsign : fetchKeys ext mods cfg bundle false act.sign t s2 = (.ok signing, s3))
    (hsigs : signAll ext bundle
      (slotFold cfg.kskPolicy.ttl (pub.map (·.dns)) revoked (signing.map (·.dns)) bundle.keys)
      cfg.kskPolicy signing [] t s3 = (.ok sigs, s4)) :
    signBundle ext mods cfg slot bundle t s =
      (finishBundle ext cfg bundle
        (slotFold cfg.kskPolicy.ttl (pub.map (·.dns)) revoked (signing.map (·.dns)) bundle.keys) sigs, s4) := by
  rw [signBundle_eq ext mods cfg slot bundle act hact]
  simp only [TokM.bind_eq, hpub, hrev, hrevoked, hsign, hsigs, TokM.lift_run]

/-! ### all slots -/

theorem signBundlesFrom_nil (ext : Externals) (mods : List P11Module) (cfg : SignerConfig) (n : Nat) :
    signBundlesFrom ext mods cfg n [] = pure [] := by
  simp [signBundlesFrom]

theorem signBundlesFrom_cons (ext : Externals) (mods : List P11Module) (cfg : SignerConfig) (n : Nat)
    (b : Bundle) (rest : List Bundle) :
    signBundlesFrom ext mods cfg n (b :: rest) =
      signBundle ext mods cfg n b >>= fun rb =>
      signBundlesFrom ext mods cfg (n + 1) rest >>= fun more => pure (rb :: more) := by
  rw [signBundlesFrom]

/-- positions: the `i`-th response bundle is the result of `signBundle` for slot `n + i` on the
    `i`-th request bundle, for every list length and every starting counter -/
theorem signBundlesFrom_ok {ext : Externals} {mods : List P11Module} {cfg : SignerConfig} {n : Nat}
    {bs rbs : List Bundle} {t : Token} {s s' : TokState}
    (h : signBundlesFrom ext mods cfg n bs t s = (.ok rbs, s')) :
    rbs.length = bs.length ∧
    ∀ i b, bs[i]? = some b → ∃ rb s1 s2, rbs[i]? = some rb ∧
      signBundle ext mods cfg (n + i) b t s1 = (.ok rb, s2) := by
  induction bs generalizing n rbs s with
  | nil =>
    simp [signBundlesFrom_nil] at h
    obtain ⟨rfl, _⟩ := h
    simp
  | cons b rest ih =>
    rw [signBundlesFrom_cons] at h
    obtain ⟨rb, s1, hrb, h⟩ := TokM.bind_ok _ _ _ _ _ _ h
    obtain ⟨more, s2, hmore, h⟩ := TokM.bind_ok _ _ _ _ _ _ h
    simp only [TokM.pure_run, Prod.mk.injEq, Except.ok.injEq] at h
    obtain ⟨rfl, rfl⟩ := h
    obtain ⟨ih1, ih2⟩ := ih hmore
    refine ⟨by simp [ih1], ?_⟩
    intro i b' hb'
    cases i with
    | zero =>
      simp only [List.getElem?_cons_zero, Option.some.injEq] at hb'
      subst hb'
      exact ⟨rb, s, s1, by simp, hrb⟩
    | succ j =>
      simp only [List.getElem?_cons_succ] at hb'
      obtain ⟨rb', sa, sb, h1, h2⟩ := ih2 j b' hb'
      refine ⟨rb', sa, sb, by simpa using h1, ?_⟩
      have : n + (j + 1) = n + 1 + j := by omega
      rw [this]; exact h2

/-! ### `create_skr` -/

theorem mapM_ok_mem {α β} (f : α → Res β) (l : List α) (r : List β) (h : l.mapM f = .ok r) :
    (∀ b, b ∈ r ↔ ∃ a ∈ l, f a = .ok b) ∧ r.length = l.length ∧ (∀ a ∈ l, ∃ b, f a = .ok b) := by
  induction l generalizing r with
  | nil =>
    simp [pure, Except.pure] at h
    subst h; simp
  | cons a l ih =>
    rw [List.mapM_cons] at h
    cases hfa : f a with
    | error e => simp [hfa, bind, Except.bind] at h
    | ok b0 =>
      cases hl : l.mapM f with
      | error e => simp [hfa, hl, bind, Except.bind] at h
      | ok r0 =>
        simp only [hfa, hl, bind, Except.bind, pure, Except.pure, Except.ok.injEq] at h
        subst h
        obtain ⟨ih1, ih2, ih3⟩ := ih r0 hl
        refine ⟨?_, by simp [ih2], ?_⟩
        rotate_left
        · intro a' ha'
          rcases List.mem_cons.mp ha' with rfl | ha'
          · exact ⟨b0, hfa⟩
          · exact ih3 a' ha'
        intro b
        simp only [List.mem_cons, ih1 b, exists_eq_or_imp, hfa, Except.ok.injEq]
        constructor
        · rintro (rfl | h)
          · exact Or.inl rfl
          · exact Or.inr h
        · rintro (rfl | h)
          · exact Or.inl rfl
          · exact Or.inr h

theorem dedupFold_mem {α} [BEq α] [LawfulBEq α] (l acc : List α) (x : α) :
    x ∈ l.foldl (fun acc a => if acc.contains a then acc else acc ++ [a]) acc ↔ x ∈ acc ∨ x ∈ l := by
  induction l generalizing acc with
  | nil => simp
  | cons a l ih =>
    rw [List.foldl_cons, ih]
    by_cases hc : acc.contains a = true
    · simp only [hc, ↓reduceIte, List.mem_cons]
      have : a ∈ acc := List.contains_iff_mem.mp hc
      constructor
      · rintro (h | h)
        · exact Or.inl h
        · exact Or.inr (Or.inr h)
      · rintro (h | rfl | h)
        · exact Or.inl h
        · exact Or.inl this
        · exact Or.inr h
    · simp only [hc, Bool.false_eq_true, ↓reduceIte, List.mem_append, List.mem_cons, List.not_mem_nil, or_false]
      constructor
      · rintro ((h | h) | h)
        · exact Or.inl h
        · exact Or.inr (Or.inl h)
        · exact Or.inr (Or.inr h)
      · rintro (h | h | h)
        · exact Or.inl (Or.inl h)
        · exact Or.inl (Or.inr h)
        · exact Or.inr h

theorem dedupFold_nodup {α} [BEq α] [LawfulBEq α] (l acc : List α) (h : acc.Nodup) :
    (l.foldl (fun acc a => if acc.contains a then acc else acc ++ [a]) acc).Nodup := by
  induction l generalizing acc with
  | nil => exact h
  | cons a l ih =>
    rw [List.foldl_cons]
    apply ih
    by_cases hc : acc.contains a = true
    · simp only [hc, ↓reduceIte]; exact h
    · simp only [hc, Bool.false_eq_true, ↓reduceIte]
      have : a ∉ acc := fun hm => hc (List.contains_iff_mem.mpr hm)
      rw [List.nodup_append]
      refine ⟨h, by simp, ?_⟩
      intro x hx y hy
      simp only [List.mem_singleton] at hy
      subst hy
      intro e; subst e; exact this hx

theorem kskSignaturePolicy_ok {pol : KskPolicy} {bundles : List Bundle} {sp : SigPolicy}
    (h : kskSignaturePolicy pol bundles = .ok sp) :
    sp.publishSafety = pol.signaturePolicy.publishSafety ∧
    sp.retireSafety = pol.signaturePolicy.retireSafety ∧
    sp.maxSignatureValidity = pol.signaturePolicy.maxSignatureValidity ∧
    sp.minSignatureValidity = pol.signaturePolicy.minSignatureValidity ∧
    sp.maxValidityOverlap = pol.signaturePolicy.maxValidityOverlap ∧
    sp.minValidityOverlap = pol.signaturePolicy.minValidityOverlap ∧
    (∀ a, a ∈ sp.algorithms ↔ ∃ b ∈ bundles, ∃ k ∈ b.keys, algorithmPolicyOfKey k = .ok a) ∧
    sp.algorithms.Nodup ∧
    (∀ b ∈ bundles, ∀ k ∈ b.keys, ∃ a, algorithmPolicyOfKey k = .ok a) := by
  unfold kskSignaturePolicy at h
  cases hm : ((bundles.map (·.keys)).flatten).mapM algorithmPolicyOfKey with
  | error e => simp [hm, bind, Except.bind] at h
  | ok algs =>
    simp only [hm, bind, Except.bind, pure, Except.pure, Except.ok.injEq] at h
    subst h
    obtain ⟨hmem, hlen, hall⟩ := mapM_ok_mem _ _ _ hm
    refine ⟨rfl, rfl, rfl, rfl, rfl, rfl, ?_, ?_, ?_⟩
    · intro a
      simp only [dedupFold_mem, List.not_mem_nil, false_or, hmem a, List.mem_flatten, List.mem_map]
      constructor
      · rintro ⟨k, ⟨ks, ⟨b, hb, rfl⟩, hk⟩, ha⟩
        exact ⟨b, hb, k, hk, ha⟩
      · rintro ⟨b, hb, k, hk, ha⟩
        exact ⟨k, ⟨b.keys, ⟨b, hb, rfl⟩, hk⟩, ha⟩
    · exact dedupFold_nodup _ _ (by simp)
    · intro b hb k hk
      apply hall k
      simp only [List.mem_flatten, List.mem_map]
      exact ⟨b.keys, ⟨b, hb, rfl⟩, hk⟩

end Kskm
