import Kskm.Signer
import KskmProofs.Lemmas.TokM
namespace Kskm
#check @List.find?_append
#check @Option.or_eq_some_iff
#check @Option.or_assoc
#check @Option.map_or
#check @List.find?_eq_some_iff_append
#check @List.mem_eraseP_of_neg
#check @List.eraseP_cons
#check @List.Pairwise.sublist
#check @List.eraseP_sublist
#check @List.find?_eq_none
#check @List.mapM_cons
#check @List.lookup
#check @List.Forall₂
#check @List.findRev?
example (k : Key) (t : Int) (h : k.ttl = t) : {k with ttl := t} = k := by
  cases k; simp_all
end Kskm
