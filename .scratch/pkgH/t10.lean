import KskmProofs.Lemmas.SignerRun
namespace Kskm

/-- forward: in-range fields, root signer name, decodable and short RDATAs ⇒ `make_raw_rrsig` succeeds -/
theorem makeRawRrsig_of {sig : Signature} {keys : List Key} {rdatas : List Bytes}
    (h1 : sig.typeCovered < 65536) (h2 : sig.algorithm < 256) (h3 : inRange 8 sig.labels = true)
    (h4 : inRange 32 sig.originalTtl = true) (h5 : inRange 32 (tsSeconds sig.expiration) = true)
    (h6 : inRange 32 (tsSeconds sig.inception) = true) (h7 : inRange 16 sig.keyTag = true)
    (hroot : sig.signersName = ".") (hrd : keys.mapM keyToRdata = .ok rdatas)
    (hlen : ∀ r ∈ rdatas, r.length < 65536) :
    makeRawRrsig sig keys = .ok (rawRrsigOf sig.typeCovered sig.algorithm sig.labels.toNat
      sig.originalTtl.toNat (tsSeconds sig.expiration).toNat (tsSeconds sig.inception).toNat
      sig.keyTag.toNat rdatas) := by
  have hany : (rdatas.any fun r => decide (65536 ≤ r.length)) = false := by
    rw [Bool.eq_false_iff]
    intro h
    simp only [List.any_eq_true, decide_eq_true_eq] at h
    obtain ⟨r, hr, hl⟩ := h
    have := hlen r hr
    omega
  unfold makeRawRrsig
  simp [h1, h2, h3, h4, h5, h6, h7, dn2wire, hroot, hrd, hany, bind, Except.bind, pure, Except.pure]

end Kskm
