import KskmProofs.Lemmas.SignerInv
namespace Kskm

/-- every successful `some` result of `m` satisfies `Q` -/
structure GoodLoad (Q : CompositeKey → Prop) (m : TokM (Option CompositeKey)) : Prop where
  out : ∀ t s s' ck, m t s = (.ok (some ck), s') → Q ck

namespace GoodLoad
variable {Q : CompositeKey → Prop}
theorem pure_none : GoodLoad Q (pure none) := ⟨by
  intro t s s' ck h; simp at h⟩
theorem err_bind {α} (k : ErrKind) (f : α → TokM (Option CompositeKey)) : GoodLoad Q (TokM.err k >>= f) := ⟨by
  intro t s s' ck h; simp at h⟩
theorem fail_bind {α} (e : Fail) (f : α → TokM (Option CompositeKey)) : GoodLoad Q (TokM.fail e >>= f) := ⟨by
  intro t s s' ck h; simp at h⟩
theorem bind {α} (m : TokM α) (f : α → TokM (Option CompositeKey)) (h : ∀ a, GoodLoad Q (f a)) :
    GoodLoad Q (m >>= f) := ⟨by
  intro t s s' ck h'
  obtain ⟨a, s1, _, h2⟩ := TokM.bind_ok _ _ _ _ _ _ h'
  exact (h a).out t s1 s' ck h2⟩
theorem ite {c : Prop} [Decidable c] {a b : TokM (Option CompositeKey)} (ha : GoodLoad Q a) (hb : GoodLoad Q b) :
    GoodLoad Q (if c then a else b) := by
  split <;> assumption
end GoodLoad

theorem loadPkcs11Key_good (mods : List P11Module) (ksk : KskKey) (pol : KskPolicy) (bundle : Bundle)
    (isPublic : Bool) :
    GoodLoad (fun ck => ∃ pk, ck.p11.publicKey = some pk ∧
      publicKeyToDnssecKey pk ksk.label ksk.algorithm pol.ttl 257 = .ok ck.dns)
      (loadPkcs11Key mods ksk pol bundle isPublic) := by
  unfold loadPkcs11Key
  extract_lets jp jp0
  have hjp : ∀ f, GoodLoad (fun ck => ∃ pk, ck.p11.publicKey = some pk ∧
      publicKeyToDnssecKey pk ksk.label ksk.algorithm pol.ttl 257 = .ok ck.dns) (jp f) := by
    intro f
    simp only [jp]
    cases hpk : f.publicKey with
    | none => exact GoodLoad.pure_none
    | some pk =>
      simp only
      apply GoodLoad.ite GoodLoad.pure_none
      have fin : GoodLoad (fun ck => ∃ pk, ck.p11.publicKey = some pk ∧
        publicKeyToDnssecKey pk ksk.label ksk.algorithm pol.ttl 257 = .ok ck.dns)
          (do let key ← TokM.lift (publicKeyToDnssecKey pk ksk.label ksk.algorithm pol.ttl 257)
              pure (some { p11 := f, dns := key })) := ⟨by
        intro t s s' ck h
        obtain ⟨key, hkey, h⟩ := (TokM.lift_bind_ok_iff _ _ _ _ _ _).mp h
        simp at h
        obtain ⟨rfl, _⟩ := h
        exact ⟨pk, hpk, hkey⟩⟩
      cases f.keyType
      · simp only
        apply GoodLoad.ite (GoodLoad.err_bind _ _)
        apply GoodLoad.bind
        intro pub
        apply GoodLoad.ite (GoodLoad.err_bind _ _)
        exact GoodLoad.ite (GoodLoad.err_bind _ _) fin
      · simp only
        exact GoodLoad.ite (GoodLoad.err_bind _ _) fin
      · exact GoodLoad.pure_none
      · exact GoodLoad.pure_none
  have hjp0 : ∀ r, GoodLoad (fun ck => ∃ pk, ck.p11.publicKey = some pk ∧
      publicKeyToDnssecKey pk ksk.label ksk.algorithm pol.ttl 257 = .ok ck.dns) (jp0 r) := by
    intro r
    simp only [jp0]
    apply GoodLoad.bind
    intro g
    cases g with
    | none => exact GoodLoad.pure_none
    | some found =>
      simp only
      apply GoodLoad.ite
      · apply GoodLoad.bind
        intro g2
        cases g2 with
        | none => exact GoodLoad.bind _ _ hjp
        | some fp => exact GoodLoad.bind _ _ hjp
      · exact GoodLoad.bind _ _ hjp
  apply GoodLoad.ite (GoodLoad.fail_bind _ _)
  cases ksk.validUntil with
  | none => exact hjp0 ()
  | some u => exact GoodLoad.ite (GoodLoad.fail_bind _ _) (hjp0 ())
end Kskm
