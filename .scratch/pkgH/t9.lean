import KskmProofs.Lemmas.SignerInv
import KskmProofs.Lemmas.Base64
namespace Kskm

theorem attr1_ok {a : TokAns} {t : Token} {s s' : TokState} {x : AttrAns}
    (h : attr1 a t s = (.ok x, s')) : a = .attrs [x] ∧ s' = s := by
  unfold attr1 at h
  split at h
  · simp only [TokM.pure_run, Prod.mk.injEq, Except.ok.injEq] at h
    obtain ⟨rfl, rfl⟩ := h
    exact ⟨rfl, rfl⟩
  · simp at h

theorem ec_published_text {path : String} {slot handle : Nat} {tok : Token} {s s' : TokState}
    {txt : String}
    (h : p11ObjectToPublicKey path slot handle tok s = (.ok (some txt), s'))
    (hkt : tok s.count (.getAttr path slot handle ["KEY_TYPE"]) = .attrs [.num ckkEc]) :
    ∃ point, txt = Base64.encode point ∧ (point.length = 65 ∨ point.length = 97) := by
  unfold p11ObjectToPublicKey at h
  obtain ⟨a, s1, h1, h⟩ := TokM.bind_ok _ _ _ _ _ _ h
  obtain ⟨ha, _, rfl⟩ := askOk_ok h1
  rw [hkt] at ha
  subst ha
  obtain ⟨kt, s2, h2, h⟩ := TokM.bind_ok _ _ _ _ _ _ h
  obtain ⟨hx, rfl⟩ := attr1_ok h2
  simp only [TokAns.attrs.injEq, List.cons.injEq, and_true] at hx
  subst hx
  have hne : ¬ ckkEc = ckkRsa := by decide
  simp only [hne, ↓reduceIte] at h
  obtain ⟨a2, s3, h3, h⟩ := TokM.bind_ok _ _ _ _ _ _ h
  obtain ⟨pt, s4, h4, h⟩ := TokM.bind_ok _ _ _ _ _ _ h
  cases pt with
  | none => simp at h
  | num n => simp at h
  | str x => simp at h
  | bytes point =>
    cases point with
    | nil => simp at h
    | cons b r =>
      simp only at h
      split at h
      · simp at h
      · obtain ⟨a5, s5, h5, h⟩ := TokM.bind_ok _ _ _ _ _ _ h
        obtain ⟨a6, s6, h6, h⟩ := TokM.bind_ok _ _ _ _ _ _ h
        obtain ⟨params, s7, h7, h⟩ := TokM.bind_ok _ _ _ _ _ _ h
        have fin : ∀ (P : Bytes) (want : Nat) (st : TokState), (want = 256 ∨ want = 384) →
            ((pure want : TokM Nat) >>= fun want =>
              if (P.length - 1) * 8 / 2 ≠ want then TokM.err ErrKind.runtime
              else pure (some (Base64.encode P))) tok st = (.ok (some txt), s') →
            ∃ point, txt = Base64.encode point ∧ (point.length = 65 ∨ point.length = 97) := by
          intro P want st hw hj
          obtain ⟨w, st', hw', hj⟩ := TokM.bind_ok _ _ _ _ _ _ hj
          simp only [TokM.pure_run, Prod.mk.injEq, Except.ok.injEq] at hw'
          obtain ⟨rfl, rfl⟩ := hw'
          split at hj
          · simp at hj
          · rename_i hlen
            simp only [TokM.pure_run, Prod.mk.injEq, Except.ok.injEq, Option.some.injEq] at hj
            refine ⟨P, hj.1.symm, ?_⟩
            simp only [ne_eq, Decidable.not_not] at hlen
            rcases hw with rfl | rfl
            · left; omega
            · right; omega
        split at h
        · exact fin _ 256 _ (Or.inl rfl) h
        · split at h
          · exact fin _ 384 _ (Or.inr rfl) h
          · simp at h
end Kskm
