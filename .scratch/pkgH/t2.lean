import Kskm.Signer
import KskmProofs.Lemmas.TokM
namespace Kskm
set_option pp.proofs false
#print signKeys
#print signBundle
#print loadPkcs11Key
end Kskm
