import KskmGen.Tables
open KskmGen
set_option profiler true
set_option profiler.threshold 200
def evenWords : List String := WORDS.map (·.1)
def oddWords : List String := WORDS.map (·.2)
def key (s : String) : Nat := s.toList.foldl (fun a c => a * 256 + c.toNat) 0
def notIn (x : Nat) : List Nat → Bool
  | [] => true
  | y :: r => !(Nat.beq x y) && notIn x r
def nodupB : List Nat → Bool
  | [] => true
  | x :: r => notIn x r && nodupB r
def disjB : List Nat → List Nat → Bool
  | [], _ => true
  | x :: r, l => notIn x l && disjB r l
theorem k2 : nodupB (evenWords.map key) = true := by decide +kernel
theorem k3 : nodupB (oddWords.map key) = true := by decide +kernel
theorem k4 : disjB (evenWords.map key) (oddWords.map key) = true := by decide +kernel
def notInS (x : String) : List String → Bool
  | [] => true
  | y :: r => !(x == y) && notInS x r
def nodupS : List String → Bool
  | [] => true
  | x :: r => notInS x r && nodupS r
theorem s2 : nodupS evenWords = true := by decide +kernel
