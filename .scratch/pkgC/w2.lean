import Kskm.Wordlist
namespace Kskm.C17

theorem hexNibble_inj : ∀ i j : Fin 16, hexNibble i.val = hexNibble j.val → i = j := by decide

theorem hexNibble_inj' {m n : Nat} (hm : m < 16) (hn : n < 16) (h : hexNibble m = hexNibble n) : m = n := by
  have := hexNibble_inj ⟨m, hm⟩ ⟨n, hn⟩ h
  exact Fin.mk.inj_iff.mp this

theorem hex_injective : ∀ a b : Bytes, hexlify a = hexlify b → a = b
  | [], [], _ => rfl
  | [], _ :: _, h => by simp [hexlify] at h
  | _ :: _, [], h => by simp [hexlify] at h
  | x :: xs, y :: ys, h => by
    simp only [hexlify, List.cons.injEq] at h
    obtain ⟨h1, h2, h3⟩ := h
    have hx := UInt8.toNat_lt x
    have hy := UInt8.toNat_lt y
    have e1 := hexNibble_inj' (by omega) (by omega) h1
    have e2 := hexNibble_inj' (by omega) (by omega) h2
    have : x = y := UInt8.toNat_inj.mp (by omega)
    rw [this, hex_injective xs ys h3]

def isLowerHexChar (c : Char) : Bool := ('0' ≤ c ∧ c ≤ '9') ∨ ('a' ≤ c ∧ c ≤ 'f')

theorem hexNibble_lower : ∀ i : Fin 16, isLowerHexChar (hexNibble i.val) = true := by decide

theorem hex_layout (d : Bytes) : (hexlify d).length = 2 * d.length ∧ ∀ c ∈ hexlify d, isLowerHexChar c = true := by
  induction d with
  | nil => simp [hexlify]
  | cons b r ih =>
    have hb := UInt8.toNat_lt b
    refine ⟨by simp [hexlify, ih.1]; omega, ?_⟩
    intro c hc
    simp only [hexlify, List.mem_cons] at hc
    rcases hc with rfl | rfl | hc
    · exact hexNibble_lower ⟨b.toNat / 16, by omega⟩
    · exact hexNibble_lower ⟨b.toNat % 16, by omega⟩
    · exact ih.2 c hc
end Kskm.C17
