set_option profiler true
set_option profiler.threshold 500
/-
  The published PGP word list (Juola & Zimmermann, "PGPfone" word list; the even column holds the
  two-syllable words, the odd column the three-syllable words), kept in the proof tree as the REFERENCE
  the regenerated table `KskmGen.WORDS` is compared with (`C17.words_standard`).

  This copy was taken from /repo at the pinned commit and read against the published table
  (https://philzimmermann.com/docs/PGP_word_list.pdf; rows 00 `aardvark adroitness` … FF `Zulu Yucatan`).
  It is NOT regenerated: harness/corr_C17.py also parses this file and uses it as the independent
  table of its own even/odd rendering.  The structural facts of the published list are proved about
  this copy below (computed first in Python, then stated exactly as they hold):

    * 256 rows;
    * even column strictly increasing in case-insensitive lexicographic order;
    * odd column strictly increasing in case-insensitive lexicographic order EXCEPT at rows 09/0A,
      where the published list has `applicant` before `Apollo` (the one published inversion);
      with those two rows exchanged the column is strictly increasing;
    * every word is 4…11 ASCII letters (so no word contains the separator used on the display line).
-/
namespace Kskm.C17Reference

def pgpWordListReference : List (String × String) := [
  ("aardvark", "adroitness"),
  ("absurd", "adviser"),
  ("accrue", "aftermath"),
  ("acme", "aggregate"),
  ("adrift", "alkali"),
  ("adult", "almighty"),
  ("afflict", "amulet"),
  ("ahead", "amusement"),
  ("aimless", "antenna"),
  ("Algol", "applicant"),
  ("allow", "Apollo"),
  ("alone", "armistice"),
  ("ammo", "article"),
  ("ancient", "asteroid"),
  ("apple", "Atlantic"),
  ("artist", "atmosphere"),
  ("assume", "autopsy"),
  ("Athens", "Babylon"),
  ("atlas", "backwater"),
  ("Aztec", "barbecue"),
  ("baboon", "belowground"),
  ("backfield", "bifocals"),
  ("backward", "bodyguard"),
  ("banjo", "bookseller"),
  ("beaming", "borderline"),
  ("bedlamp", "bottomless"),
  ("beehive", "Bradbury"),
  ("beeswax", "bravado"),
  ("befriend", "Brazilian"),
  ("Belfast", "breakaway"),
  ("berserk", "Burlington"),
  ("billiard", "businessman"),
  ("bison", "butterfat"),
  ("blackjack", "Camelot"),
  ("blockade", "candidate"),
  ("blowtorch", "cannonball"),
  ("bluebird", "Capricorn"),
  ("bombast", "caravan"),
  ("bookshelf", "caretaker"),
  ("brackish", "celebrate"),
  ("breadline", "cellulose"),
  ("breakup", "certify"),
  ("brickyard", "chambermaid"),
  ("briefcase", "Cherokee"),
  ("Burbank", "Chicago"),
  ("button", "clergyman"),
  ("buzzard", "coherence"),
  ("cement", "combustion"),
  ("chairlift", "commando"),
  ("chatter", "company"),
  ("checkup", "component"),
  ("chisel", "concurrent"),
  ("choking", "confidence"),
  ("chopper", "conformist"),
  ("Christmas", "congregate"),
  ("clamshell", "consensus"),
  ("classic", "consulting"),
  ("classroom", "corporate"),
  ("cleanup", "corrosion"),
  ("clockwork", "councilman"),
  ("cobra", "crossover"),
  ("commence", "crucifix"),
  ("concert", "cumbersome"),
  ("cowbell", "customer"),
  ("crackdown", "Dakota"),
  ("cranky", "decadence"),
  ("crowfoot", "December"),
  ("crucial", "decimal"),
  ("crumpled", "designing"),
  ("crusade", "detector"),
  ("cubic", "detergent"),
  ("dashboard", "determine"),
  ("deadbolt", "dictator"),
  ("deckhand", "dinosaur"),
  ("dogsled", "direction"),
  ("dragnet", "disable"),
  ("drainage", "disbelief"),
  ("dreadful", "disruptive"),
  ("drifter", "distortion"),
  ("dropper", "document"),
  ("drumbeat", "embezzle"),
  ("drunken", "enchanting"),
  ("Dupont", "enrollment"),
  ("dwelling", "enterprise"),
  ("eating", "equation"),
  ("edict", "equipment"),
  ("egghead", "escapade"),
  ("eightball", "Eskimo"),
  ("endorse", "everyday"),
  ("endow", "examine"),
  ("enlist", "existence"),
  ("erase", "exodus"),
  ("escape", "fascinate"),
  ("exceed", "filament"),
  ("eyeglass", "finicky"),
  ("eyetooth", "forever"),
  ("facial", "fortitude"),
  ("fallout", "frequency"),
  ("flagpole", "gadgetry"),
  ("flatfoot", "Galveston"),
  ("flytrap", "getaway"),
  ("fracture", "glossary"),
  ("framework", "gossamer"),
  ("freedom", "graduate"),
  ("frighten", "gravity"),
  ("gazelle", "guitarist"),
  ("Geiger", "hamburger"),
  ("glitter", "Hamilton"),
  ("glucose", "handiwork"),
  ("goggles", "hazardous"),
  ("goldfish", "headwaters"),
  ("gremlin", "hemisphere"),
  ("guidance", "hesitate"),
  ("hamlet", "hideaway"),
  ("highchair", "holiness"),
  ("hockey", "hurricane"),
  ("indoors", "hydraulic"),
  ("indulge", "impartial"),
  ("inverse", "impetus"),
  ("involve", "inception"),
  ("island", "indigo"),
  ("jawbone", "inertia"),
  ("keyboard", "infancy"),
  ("kickoff", "inferno"),
  ("kiwi", "informant"),
  ("klaxon", "insincere"),
  ("locale", "insurgent"),
  ("lockup", "integrate"),
  ("merit", "intention"),
  ("minnow", "inventive"),
  ("miser", "Istanbul"),
  ("Mohawk", "Jamaica"),
  ("mural", "Jupiter"),
  ("music", "leprosy"),
  ("necklace", "letterhead"),
  ("Neptune", "liberty"),
  ("newborn", "maritime"),
  ("nightbird", "matchmaker"),
  ("Oakland", "maverick"),
  ("obtuse", "Medusa"),
  ("offload", "megaton"),
  ("optic", "microscope"),
  ("orca", "microwave"),
  ("payday", "midsummer"),
  ("peachy", "millionaire"),
  ("pheasant", "miracle"),
  ("physique", "misnomer"),
  ("playhouse", "molasses"),
  ("Pluto", "molecule"),
  ("preclude", "Montana"),
  ("prefer", "monument"),
  ("preshrunk", "mosquito"),
  ("printer", "narrative"),
  ("prowler", "nebula"),
  ("pupil", "newsletter"),
  ("puppy", "Norwegian"),
  ("python", "October"),
  ("quadrant", "Ohio"),
  ("quiver", "onlooker"),
  ("quota", "opulent"),
  ("ragtime", "Orlando"),
  ("ratchet", "outfielder"),
  ("rebirth", "Pacific"),
  ("reform", "pandemic"),
  ("regain", "Pandora"),
  ("reindeer", "paperweight"),
  ("rematch", "paragon"),
  ("repay", "paragraph"),
  ("retouch", "paramount"),
  ("revenge", "passenger"),
  ("reward", "pedigree"),
  ("rhythm", "Pegasus"),
  ("ribcage", "penetrate"),
  ("ringbolt", "perceptive"),
  ("robust", "performance"),
  ("rocker", "pharmacy"),
  ("ruffled", "phonetic"),
  ("sailboat", "photograph"),
  ("sawdust", "pioneer"),
  ("scallion", "pocketful"),
  ("scenic", "politeness"),
  ("scorecard", "positive"),
  ("Scotland", "potato"),
  ("seabird", "processor"),
  ("select", "provincial"),
  ("sentence", "proximate"),
  ("shadow", "puberty"),
  ("shamrock", "publisher"),
  ("showgirl", "pyramid"),
  ("skullcap", "quantity"),
  ("skydive", "racketeer"),
  ("slingshot", "rebellion"),
  ("slowdown", "recipe"),
  ("snapline", "recover"),
  ("snapshot", "repellent"),
  ("snowcap", "replica"),
  ("snowslide", "reproduce"),
  ("solo", "resistor"),
  ("southward", "responsive"),
  ("soybean", "retraction"),
  ("spaniel", "retrieval"),
  ("spearhead", "retrospect"),
  ("spellbind", "revenue"),
  ("spheroid", "revival"),
  ("spigot", "revolver"),
  ("spindle", "sandalwood"),
  ("spyglass", "sardonic"),
  ("stagehand", "Saturday"),
  ("stagnate", "savagery"),
  ("stairway", "scavenger"),
  ("standard", "sensation"),
  ("stapler", "sociable"),
  ("steamship", "souvenir"),
  ("sterling", "specialist"),
  ("stockman", "speculate"),
  ("stopwatch", "stethoscope"),
  ("stormy", "stupendous"),
  ("sugar", "supportive"),
  ("surmount", "surrender"),
  ("suspense", "suspicious"),
  ("sweatband", "sympathy"),
  ("swelter", "tambourine"),
  ("tactics", "telephone"),
  ("talon", "therapist"),
  ("tapeworm", "tobacco"),
  ("tempest", "tolerance"),
  ("tiger", "tomorrow"),
  ("tissue", "torpedo"),
  ("tonic", "tradition"),
  ("topmost", "travesty"),
  ("tracker", "trombonist"),
  ("transit", "truncated"),
  ("trauma", "typewriter"),
  ("treadmill", "ultimate"),
  ("Trojan", "undaunted"),
  ("trouble", "underfoot"),
  ("tumor", "unicorn"),
  ("tunnel", "unify"),
  ("tycoon", "universe"),
  ("uncut", "unravel"),
  ("unearth", "upcoming"),
  ("unwind", "vacancy"),
  ("uproot", "vagabond"),
  ("upset", "vertigo"),
  ("upshot", "Virginia"),
  ("vapor", "visitor"),
  ("village", "vocalist"),
  ("virus", "voyager"),
  ("Vulcan", "warranty"),
  ("waffle", "Waterloo"),
  ("wallet", "whimsical"),
  ("watchword", "Wichita"),
  ("wayside", "Wilmington"),
  ("willow", "Wyoming"),
  ("woodlark", "yesteryear"),
  ("Zulu", "Yucatan")
]

/-- ASCII case folding of one character -/
def lowerChar (c : Char) : Char := if 'A' ≤ c ∧ c ≤ 'Z' then Char.ofNat (c.toNat + 32) else c

/-- strict lexicographic order on character lists after case folding; a proper prefix is smaller -/
def ciLtChars : List Char → List Char → Bool
  | [], [] => false
  | [], _ :: _ => true
  | _ :: _, [] => false
  | a :: as, b :: bs =>
    if (lowerChar a).toNat < (lowerChar b).toNat then true
    else if (lowerChar b).toNat < (lowerChar a).toNat then false
    else ciLtChars as bs

def ciLt (a b : String) : Bool := ciLtChars a.toList b.toList

/-- every adjacent pair is in strictly increasing case-insensitive order -/
def ciStrictSorted : List String → Bool
  | a :: b :: r => ciLt a b && ciStrictSorted (b :: r)
  | _ => true

/-- exchange the elements at positions `n` and `n + 1` -/
def swapAt {α} : Nat → List α → List α
  | 0, a :: b :: r => b :: a :: r
  | n + 1, a :: r => a :: swapAt n r
  | _, l => l

def refEven : List String := pgpWordListReference.map (·.1)
def refOdd : List String := pgpWordListReference.map (·.2)

def isAsciiLetter (c : Char) : Bool := ('a' ≤ c ∧ c ≤ 'z') ∨ ('A' ≤ c ∧ c ≤ 'Z')
def wordOk (w : String) : Bool := w.toList.all isAsciiLetter && 4 ≤ w.toList.length && w.toList.length ≤ 11

theorem reference_rows : pgpWordListReference.length = 256 := by decide +kernel

theorem reference_even_sorted : ciStrictSorted refEven = true := by decide +kernel

/-- the odd column is NOT sorted as published … -/
theorem reference_odd_not_sorted : ciStrictSorted refOdd = false := by decide +kernel

/-- … the single inversion is `applicant` (row 09) before `Apollo` (row 0A) … -/
theorem reference_odd_inversion :
    refOdd[9]? = some "applicant" ∧ refOdd[10]? = some "Apollo" ∧ ciLt "Apollo" "applicant" = true := by
  decide +kernel

/-- … and with exactly these two rows exchanged the column is strictly sorted. -/
theorem reference_odd_sorted_but_one : ciStrictSorted (swapAt 9 refOdd) = true := by decide +kernel

theorem reference_words_are_letters :
    (pgpWordListReference.all fun r => wordOk r.1 && wordOk r.2) = true := by decide +kernel

end Kskm.C17Reference
