import Kskm.Wksr
namespace Kskm.C20
open Kskm.Wksr

theorem washFrom_safe (s : List Nat) : ∀ b, ∀ c ∈ washFrom b s, isSafeCp c = true := by
  induction s with
  | nil => intro b c h; simp [washFrom] at h
  | cons x r ih =>
    intro b c h
    simp only [washFrom] at h
    split at h
    · rename_i hx
      rcases List.mem_cons.mp h with rfl | h
      · exact hx
      · exact ih _ c h
    · split at h
      · exact ih _ c h
      · rcases List.mem_cons.mp h with rfl | h
        · decide
        · exact ih _ c h

theorem washFrom_id_of_safe (s : List Nat) (hs : ∀ c ∈ s, isSafeCp c = true) : ∀ b, washFrom b s = s := by
  induction s with
  | nil => intro b; rfl
  | cons x r ih =>
    intro b
    have hx : isSafeCp x = true := hs x (by simp)
    simp only [washFrom, hx, ↓reduceIte]
    rw [ih (fun c hc => hs c (by simp [hc]))]

/-- a non-empty run of unsafe characters followed by a safe one -/
theorem washFrom_run (u : List Nat) (hu : ∀ c ∈ u, isSafeCp c = false) (c : Nat) (hc : isSafeCp c = true)
    (r : List Nat) : ∀ b, washFrom b (u ++ c :: r) = (if b || u.isEmpty then [] else [95]) ++ c :: washFrom false r := by
  induction u with
  | nil => intro b; simp [washFrom, hc]
  | cons x t ih =>
    intro b
    have hx : isSafeCp x = false := hu x (by simp)
    have ht : ∀ c ∈ t, isSafeCp c = false := fun c h => hu c (by simp [h])
    simp only [List.cons_append, washFrom, hx, Bool.false_eq_true, ↓reduceIte]
    cases b
    · simp [ih ht true]
    · simp [ih ht true]

theorem washFrom_trailing (u : List Nat) (hu : ∀ c ∈ u, isSafeCp c = false) :
    ∀ b, washFrom b u = if b || u.isEmpty then [] else [95] := by
  induction u with
  | nil => intro b; simp [washFrom]
  | cons x t ih =>
    intro b
    have hx : isSafeCp x = false := hu x (by simp)
    have ht : ∀ c ∈ t, isSafeCp c = false := fun c h => hu c (by simp [h])
    simp only [washFrom, hx, Bool.false_eq_true, ↓reduceIte]
    cases b <;> simp [ih ht true]

theorem splitOn_word (sep : Nat) (w : List Nat) (hw : sep ∉ w) : splitOn sep w = [w] := by
  induction w with
  | nil => rfl
  | cons c r ih =>
    have hc : c ≠ sep := fun h => hw (by simp [h])
    have hr : sep ∉ r := fun h => hw (by simp [h])
    simp [splitOn, hc, ih hr]

theorem parsePath_plain (name : List Nat) (h47 : 47 ∉ name) (hne : name ≠ []) (hdot : name ≠ [46]) :
    parsePath name = { absolute := false, parts := [name] } := by
  unfold parsePath
  rw [splitOn_word 47 name h47]
  have h1 : (name.head? == some 47) = false := by
    cases name with
    | nil => rfl
    | cons c r =>
      have : c ≠ 47 := fun h => h47 (by simp [h])
      simp [this]
  simp [h1, hne, hdot]
end Kskm.C20
