import KskmGen.Tables
open KskmGen

def evenWords : List String := WORDS.map (·.1)
def oddWords : List String := WORDS.map (·.2)
set_option maxRecDepth 100000 in
theorem t1 : WORDS.length = 256 := by decide +kernel
theorem t2 : evenWords.Nodup := by decide +kernel
theorem t3 : oddWords.Nodup := by decide +kernel
theorem t4 : ∀ w ∈ evenWords, w ∉ oddWords := by decide +kernel
#print axioms t4
#check @List.idxOf
#check @List.idxOf?
#check @List.Nodup.idxOf_getElem
#check @List.Nodup.getElem_inj_iff
