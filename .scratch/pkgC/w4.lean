import Kskm.Wordlist
namespace Kskm.C17

/-- `s.split(' ')` on character lists: always at least one piece -/
def splitSp : List Char → List (List Char)
  | [] => [[]]
  | c :: r =>
    if c = ' ' then [] :: splitSp r
    else match splitSp r with
      | [] => [[c]]
      | w :: ws => (c :: w) :: ws

theorem splitSp_ne_nil (s : List Char) : splitSp s ≠ [] := by
  induction s with
  | nil => simp [splitSp]
  | cons c r ih =>
    simp only [splitSp]
    split
    · simp
    · split <;> simp

theorem splitSp_word (w : List Char) (hw : ' ' ∉ w) : splitSp w = [w] := by
  induction w with
  | nil => rfl
  | cons c r ih =>
    have hc : c ≠ ' ' := fun h => hw (by simp [h])
    have hr : ' ' ∉ r := fun h => hw (by simp [h])
    simp [splitSp, hc, ih hr]

theorem splitSp_append (w t : List Char) (hw : ' ' ∉ w) : splitSp (w ++ ' ' :: t) = w :: splitSp t := by
  induction w with
  | nil => simp [splitSp]
  | cons c r ih =>
    have hc : c ≠ ' ' := fun h => hw (by simp [h])
    have hr : ' ' ∉ r := fun h => hw (by simp [h])
    simp [splitSp, hc, ih hr]

theorem splitSp_joinSp : ∀ (ws : List (List Char)), ws ≠ [] → (∀ w ∈ ws, ' ' ∉ w) → splitSp (joinSp ws) = ws
  | [], h, _ => absurd rfl h
  | [w], _, hw => by simp [joinSp, splitSp_word w (hw w (by simp))]
  | w :: w2 :: r, _, hw => by
    have h1 : ' ' ∉ w := hw w (by simp)
    have h2 : ∀ x ∈ w2 :: r, ' ' ∉ x := fun x hx => hw x (by simp [hx])
    show splitSp (w ++ ' ' :: joinSp (w2 :: r)) = _
    rw [splitSp_append w _ h1, splitSp_joinSp (w2 :: r) (by simp) h2]

theorem joinSp_eq_nil : ∀ (ws : List (List Char)), (∀ w ∈ ws, w ≠ []) → joinSp ws = [] → ws = []
  | [], _, _ => rfl
  | [w], hw, h => by simp [joinSp] at h; exact absurd h (hw w (by simp))
  | w :: w2 :: r, hw, h => by simp [joinSp] at h

/-- `' '.join` is injective on lists of non-empty words without spaces -/
theorem joinSp_injective (a b : List (List Char))
    (ha : ∀ w ∈ a, w ≠ [] ∧ ' ' ∉ w) (hb : ∀ w ∈ b, w ≠ [] ∧ ' ' ∉ w) (h : joinSp a = joinSp b) : a = b := by
  by_cases ea : a = []
  · subst ea
    have : joinSp b = [] := by rw [← h]; rfl
    exact (joinSp_eq_nil b (fun w hw => (hb w hw).1) this).symm
  · by_cases eb : b = []
    · subst eb
      have : joinSp a = [] := by rw [h]; rfl
      exact absurd (joinSp_eq_nil a (fun w hw => (ha w hw).1) this) ea
    · have h1 := splitSp_joinSp a ea (fun w hw => (ha w hw).2)
      have h2 := splitSp_joinSp b eb (fun w hw => (hb w hw).2)
      rw [← h1, ← h2, h]
end Kskm.C17
