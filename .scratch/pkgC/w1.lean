import Kskm.Wordlist
import KskmProofs.Lemmas.C17Reference
namespace Kskm.C17
open Kskm.C17Reference

theorem words_standard : KskmGen.WORDS = pgpWordListReference := by decide +kernel

theorem evenWords_eq : evenWords = refEven := by unfold evenWords refEven; rw [words_standard]
theorem oddWords_eq : oddWords = refOdd := by unfold oddWords refOdd; rw [words_standard]

theorem words_table_shape :
    KskmGen.WORDS.length = 256 ∧ evenWords.Nodup ∧ oddWords.Nodup ∧ (∀ w ∈ evenWords, w ∉ oddWords) := by
  rw [evenWords_eq, oddWords_eq, words_standard]
  exact ⟨reference_rows, reference_even_nodup, reference_odd_nodup, reference_disjoint⟩

def col (odd : Bool) : List String := if odd then oddWords else evenWords

theorem col_length (odd : Bool) : (col odd).length = 256 := by
  have h := words_table_shape.1
  cases odd <;> simp [col, evenWords, oddWords, h]

theorem col_nodup (odd : Bool) : (col odd).Nodup := by
  cases odd
  · exact words_table_shape.2.1
  · exact words_table_shape.2.2.1

theorem wordAt_eq (odd : Bool) (b : UInt8) :
    wordAt odd b = (col odd)[b.toNat]'(by rw [col_length]; exact UInt8.toNat_lt b) := by
  unfold wordAt
  have hl := col_length odd
  have : b.toNat < (col odd).length := by rw [hl]; exact UInt8.toNat_lt b
  show (col odd).getD b.toNat "" = _
  simp [List.getD, this]

theorem idxOf_wordAt (odd : Bool) (b : UInt8) : (col odd).idxOf (wordAt odd b) = b.toNat := by
  rw [wordAt_eq]
  exact List.Nodup.idxOf_getElem (col_nodup odd) _ _

theorem words_decode_from (d : Bytes) : ∀ odd, unwordsFrom odd (pgpWordlistFrom odd d) = some d := by
  induction d with
  | nil => intro odd; rfl
  | cons b r ih =>
    intro odd
    simp only [pgpWordlistFrom, unwordsFrom]
    have h1 := idxOf_wordAt odd b
    have h2 := col_length odd
    unfold col at h1 h2
    rw [h1, h2, ih (!odd)]
    have : b.toNat < 256 := UInt8.toNat_lt b
    simp [this]

theorem words_decode (d : Bytes) : unwords (pgpWordlist d) = some d := words_decode_from d false

theorem words_injective (a b : Bytes) (h : pgpWordlist a = pgpWordlist b) : a = b := by
  have := words_decode a
  rw [h, words_decode b] at this
  exact (Option.some.inj this).symm

theorem words_length (d : Bytes) : (pgpWordlist d).length = d.length := by
  unfold pgpWordlist
  generalize false = odd
  induction d generalizing odd with
  | nil => rfl
  | cons b r ih => simp [pgpWordlistFrom, ih]

end Kskm.C17
