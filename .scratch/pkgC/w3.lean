import Kskm.FileEffects
namespace Kskm.C17

variable {α : Type}

def ksrEffects (hash : Bytes → Bytes) (maxSize : Nat) (path : String) (content : Nat → Bytes) (t0 : Nat) : List FileEffect :=
  [.openRead path t0, .fstat path (t0 + 1) (content (t0 + 1)).length,
   .read path (t0 + 2) ((content (t0 + 2)).take maxSize), .close path,
   .logDigest "Loaded KSR from file" path (hash ((content (t0 + 2)).take maxSize))]

theorem loadKsr_gate (maxSize : Nat) (hash : Bytes → Bytes) (parse : Bytes → Res α)
    (validate : α → Res Unit) (ro : Bool) (path : String) (content : Nat → Bytes) (t0 : Nat)
    (hs : (content (t0 + 1)).length > maxSize) :
    loadKsr maxSize hash parse validate ro path content t0 =
      (err .runtime, [.openRead path t0, .fstat path (t0 + 1) (content (t0 + 1)).length, .close path]) := by
  simp [loadKsr, hs]

theorem loadKsr_effects (maxSize : Nat) (hash : Bytes → Bytes) (parse : Bytes → Res α)
    (validate : α → Res Unit) (ro : Bool) (path : String) (content : Nat → Bytes) (t0 : Nat)
    (hs : ¬ (content (t0 + 1)).length > maxSize) :
    (loadKsr maxSize hash parse validate ro path content t0).2 = ksrEffects hash maxSize path content t0 := by
  simp only [loadKsr, hs, ↓reduceIte, ksrEffects]
  split
  · rfl
  · split <;> rfl

theorem loadKsr_ok (maxSize : Nat) (hash : Bytes → Bytes) (parse : Bytes → Res α)
    (validate : α → Res Unit) (ro : Bool) (path : String) (content : Nat → Bytes) (t0 : Nat)
    (hs : ¬ (content (t0 + 1)).length > maxSize) (request : LoadedRequest α)
    (h : (loadKsr maxSize hash parse validate ro path content t0).1 = .ok request) :
    parse ((content (t0 + 2)).take maxSize) = .ok request.body ∧
    request.xmlHash = some (hash ((content (t0 + 2)).take maxSize)) ∧
    request.xmlFilename = path ∧ validate request.body = .ok () := by
  simp only [loadKsr, hs, ↓reduceIte, requestFromXmlFile] at h
  cases hp : parse ((content (t0 + 2)).take maxSize) with
  | error e => simp [hp, bind, Except.bind] at h
  | ok body =>
    simp only [hp, bind, Except.bind, pure, Except.pure] at h
    cases hv : validate body with
    | ok u =>
      cases u
      simp only [hv, Except.ok.injEq] at h
      subst h
      exact ⟨rfl, rfl, rfl, hv⟩
    | error f =>
      cases f with
      | violation r => cases ro <;> simp [hv, violation, err] at h
      | error k => simp [hv] at h
      | unsupported => simp [hv] at h
end Kskm.C17
