import KskmGen.Tables
open KskmGen
set_option profiler true
set_option profiler.threshold 200
def evenWords : List String := WORDS.map (·.1)
def oddWords : List String := WORDS.map (·.2)
theorem t1 : WORDS.length = 256 := by decide +kernel
theorem t2 : evenWords.Nodup := by decide +kernel
theorem t4 : ∀ w ∈ evenWords, w ∉ oddWords := by decide +kernel
-- alternative: via toList
def evenL : List (List Char) := evenWords.map String.toList
theorem t5 : evenL.Nodup := by decide +kernel
