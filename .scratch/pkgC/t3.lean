import KskmGen.Tables
open KskmGen
set_option profiler true
set_option profiler.threshold 200
def evenWords : List String := WORDS.map (·.1)
def oddWords : List String := WORDS.map (·.2)
def key (s : String) : Nat := s.toList.foldl (fun a c => a * 256 + c.toNat) 0
theorem k2 : (evenWords.map key).Nodup := by decide +kernel
theorem k3 : (oddWords.map key).Nodup := by decide +kernel
theorem k4 : ∀ a ∈ evenWords.map key, a ∉ oddWords.map key := by decide +kernel
theorem t2 : evenWords.Nodup := List.Nodup.of_map key k2
