import Kskm.BundleTable
namespace Kskm.C17

/-- the specification of one row, written from the property text: the ZSK column holds the tags of
    exactly the keys WITHOUT the SEP flag, the KSK column one `tag(label)/usage` entry for exactly
    the keys WITH it, both in key order -/
def zskColumnSpec (b : Bundle) : List String := (b.keys.filter (fun k => !isSepKey k)).map tagStr
def kskColumnSpec (b : Bundle) : List String := (b.keys.filter isSepKey).map (kskEntry b)

theorem splitKeys_eq (b : Bundle) (ks : List Key) :
    splitKeys b ks = ((ks.filter (fun k => !isSepKey k)).map tagStr, (ks.filter isSepKey).map (kskEntry b)) := by
  induction ks with
  | nil => rfl
  | cons k r ih =>
    simp only [splitKeys, ih]
    cases h : isSepKey k <;> simp [h]

theorem tableRowsFrom_getElem (fmtTime : Int → String) (bundles : List Bundle) :
    ∀ (n i : Nat) (b : Bundle), bundles[i]? = some b →
      (tableRowsFrom fmtTime n bundles)[i]? = some
        { num := toString (n + i), inception := fmtTime b.inception, expiration := fmtTime b.expiration,
          zskTags := zskColumnSpec b, kskEntries := kskColumnSpec b } := by
  induction bundles with
  | nil => intro n i b h; simp at h
  | cons b0 r ih =>
    intro n i b h
    cases i with
    | zero =>
      simp only [List.getElem?_cons_zero, Option.some.injEq] at h
      subst h
      simp [tableRowsFrom, splitKeys_eq, zskColumnSpec, kskColumnSpec]
    | succ j =>
      simp only [List.getElem?_cons_succ] at h
      have := ih (n + 1) j b h
      have e : n + 1 + j = n + (j + 1) := by omega
      simp only [tableRowsFrom, List.getElem?_cons_succ, this, e]

theorem tableRowsFrom_length (fmtTime : Int → String) (bundles : List Bundle) :
    ∀ n, (tableRowsFrom fmtTime n bundles).length = bundles.length := by
  induction bundles with
  | nil => intro n; rfl
  | cons b r ih => intro n; simp [tableRowsFrom, ih]

/-- **table_rows.** -/
theorem table_rows (fmtTime : Int → String) (bundles : List Bundle) :
    (formatBundlesForHumans fmtTime bundles).length = bundles.length + 1 ∧
    (formatBundlesForHumans fmtTime bundles)[0]? = some headerLine ∧
    ∀ i b, bundles[i]? = some b →
      ∃ row : Row, (formatBundlesForHumans fmtTime bundles)[i + 1]? = some row.render ∧
        (tableRows fmtTime bundles)[i]? = some row ∧
        row.num = toString (i + 1) ∧
        row.inception = fmtTime b.inception ∧ row.expiration = fmtTime b.expiration ∧
        row.zskTags = zskColumnSpec b ∧ row.kskEntries = kskColumnSpec b := by
  refine ⟨by simp [formatBundlesForHumans, tableRows, tableRowsFrom_length], rfl, ?_⟩
  intro i b h
  have := tableRowsFrom_getElem fmtTime bundles 1 i b h
  refine ⟨_, ?_, this, ?_, rfl, rfl, rfl, rfl⟩
  · simp [formatBundlesForHumans, tableRows, this]
  · simp [Nat.add_comm]

/-- every key's tag appears in exactly the column its flags dictate, and nothing else appears -/
theorem table_columns (b : Bundle) :
    (∀ k ∈ b.keys, isSepKey k = false → tagStr k ∈ zskColumnSpec b) ∧
    (∀ k ∈ b.keys, isSepKey k = true → kskEntry b k ∈ kskColumnSpec b) ∧
    (∀ s ∈ zskColumnSpec b, ∃ k ∈ b.keys, isSepKey k = false ∧ s = tagStr k) ∧
    (∀ e ∈ kskColumnSpec b, ∃ k ∈ b.keys, isSepKey k = true ∧ e = kskEntry b k) ∧
    (zskColumnSpec b).length + (kskColumnSpec b).length = b.keys.length := by
  refine ⟨?_, ?_, ?_, ?_, ?_⟩
  · intro k hk hs
    exact List.mem_map.mpr ⟨k, List.mem_filter.mpr ⟨hk, by simp [hs]⟩, rfl⟩
  · intro k hk hs
    exact List.mem_map.mpr ⟨k, List.mem_filter.mpr ⟨hk, hs⟩, rfl⟩
  · intro s hs
    obtain ⟨k, hk, rfl⟩ := List.mem_map.mp hs
    obtain ⟨h1, h2⟩ := List.mem_filter.mp hk
    exact ⟨k, h1, by simpa using h2, rfl⟩
  · intro e he
    obtain ⟨k, hk, rfl⟩ := List.mem_map.mp he
    obtain ⟨h1, h2⟩ := List.mem_filter.mp hk
    exact ⟨k, h1, h2, rfl⟩
  · simp only [zskColumnSpec, kskColumnSpec, List.length_map]
    induction b.keys with
    | nil => rfl
    | cons k r ih =>
      simp only [List.filter_cons, List.length_cons]
      cases isSepKey k <;> simp <;> omega
end Kskm.C17
