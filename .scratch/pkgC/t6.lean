import KskmProofs.Lemmas.C17Reference
open Kskm.C17Reference
set_option profiler true
set_option profiler.threshold 100
theorem a1 : pgpWordListReference.length = 256 := by decide +kernel
theorem a2 : ("aardvark".toList.length) = 8 := by decide +kernel
theorem a3 : (refEven.map String.toList).length = 256 := by decide +kernel
theorem a4 : ((refEven.map String.toList).map List.length).sum = 1700 := by decide +kernel
theorem a5 : ((refEven.map String.length)).sum = 1700 := by decide +kernel
theorem a6 : ((refEven.map String.utf8ByteSize)).sum = 1700 := by decide +kernel
