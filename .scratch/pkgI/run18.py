import sys, time, json
sys.path.insert(0, '/verif/harness')
import lib, corr_C18 as M
t=time.time()
res = M.run(sys.argv[1] if len(sys.argv)>1 else "quick", True)
print("cases", res.evaluations, "viol", len(res.violations), "disag", len(res.disagreements), "unsup", res.unsupported, round(time.time()-t,1),"s")
from collections import Counter
print(Counter((v["what"], v.get("key")) for v in res.violations))
print(Counter(d["what"] for d in res.disagreements))
for d in res.disagreements[:3]:
    print(json.dumps(d, default=str)[:1800])
print(json.dumps(res.stats, indent=0)[:1500])
for v in res.violations:
    if v.get("key") == "entries":
        print(json.dumps(v, default=str)[:3000])
seen=set()
for v in res.violations:
    if v.get("key") not in seen:
        seen.add(v.get("key"))
        print("VIOL", v["what"], v.get("key"), json.dumps({k: v[k] for k in v if k not in ("what","case")}, default=str)[:400])
        print("   ctx", json.dumps(v["case"], default=str)[:400])
