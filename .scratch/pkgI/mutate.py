"""Sanity mutations in the private worktree /tmp/wt_pkgI (three fixes applied): each must be caught."""
import subprocess, sys, os, json
WT = "/tmp/wt_pkgI"
MUTS = {
 "M1-collision-ignores-revoked-tag": ("src/kskm/tools/keymaster.py", "    key_tags += [_revoked_key.key_tag]\n", "    pass\n", "C19"),
 "M2-strip-all-whitespace": ("src/kskm/keymaster/delete.py", 'if ack.strip("\\n") != "Yes":', 'if ack.strip() != "Yes":', "C19"),
 "M3-private-first-true-when-public-missing": ("src/kskm/keymaster/delete.py",
   '''    existing_key = get_p11_key(label, p11modules, public=True)
    if not existing_key:
        logger.error(f"No key with label {label} found")
        return False
''', '''    existing_key = get_p11_key(label, p11modules, public=True)
    if not existing_key:
        _priv = get_p11_key(label, p11modules, public=False)
        if _priv and _priv.privkey_handle:
            _destroy_object(_priv.session, _priv.privkey_handle)
        return True
''', "C19"),
 "M4-pair-by-label-only": ("src/kskm/keymaster/inventory.py", 'label_and_id = f"{this.label}+{this.key_id!r}"', 'label_and_id = f"{this.label}"', "C19"),
 "M5-flags-256": ("src/kskm/tools/trustanchor.py", "flags=FlagsDNSKEY.ZONE.value | FlagsDNSKEY.SEP.value,", "flags=FlagsDNSKEY.ZONE.value,", "C18"),
 "M6-sorted-by-key-tag": ("src/kskm/ta/data.py", "key=lambda _ks: _ks.valid_from", "key=lambda _ks: _ks.key_tag", "C18"),
 "M7-digest-without-owner-name": ("src/kskm/ta/keydigest.py", "    rr = dn2wire(domain)\n    rr += key_to_rdata(key)\n", "    rr = key_to_rdata(key)\n", "C18+C19"),
}
only = sys.argv[1:] 
for name, (path, old, new, props) in MUTS.items():
    if only and name.split("-")[0] not in only: continue
    f = os.path.join(WT, path)
    src = open(f).read()
    assert src.count(old) == 1, (name, src.count(old))
    open(f, "w").write(src.replace(old, new))
    try:
        for prop in props.split("+"):
            env = dict(os.environ, KSKM_REPO=WT)
            out = subprocess.run(["/venv/bin/python", f"/verif/.scratch/pkgI/run{prop[1:]}.py"], env=env, capture_output=True, text=True, cwd="/verif").stdout
            lines = out.splitlines()
            print(f"== {name} [{prop}] ->", lines[0] if lines else "(no output)")
            for l in lines[1:3]: print("    ", l[:600])
            for l in lines:
                if l.startswith("VIOL ") or l.startswith("   ctx") or l.startswith("DISAG"):
                    print("    ", l[:500])
    finally:
        open(f, "w").write(src)
print(subprocess.run(["git", "-C", WT, "status", "--short"], capture_output=True, text=True).stdout)
