import sys, time, json
sys.path.insert(0, '/verif/harness')
import lib, corr_C19 as M
t=time.time()
res = M.run(sys.argv[1] if len(sys.argv)>1 else "quick", True)
print("cases", res.evaluations, "viol", len(res.violations), "disag", len(res.disagreements), "unsup", res.unsupported, round(time.time()-t,1),"s")
from collections import Counter
print(Counter((v["what"], v.get("key")) for v in res.violations))
print(Counter(d["what"] for d in res.disagreements))
seen=set()
for d in res.disagreements:
    if d["what"] in seen: continue
    seen.add(d["what"])
    print("DISAG", json.dumps({k: d[k] for k in d if k not in ("case",)}, default=str)[:1500])
    print("   ctx", json.dumps({k: d["case"][k] for k in ("layout","history","op","config")}))
print(json.dumps(res.stats, indent=0)[:2500])
seen=set()
for v in res.violations:
    if v.get("key") not in seen:
        seen.add(v.get("key"))
        print("VIOL", v["what"], v.get("key"), json.dumps({k: v[k] for k in v if k not in ("what","case")}, default=str)[:600])
        print("   ctx", json.dumps({k: v["case"][k] for k in ("layout","history","op","config")}))
