"""Shared harness code: paths, the repo import, the model driver, canonical codecs, outcome mapping.

Everything here runs with /venv/bin/python against /repo's *working tree* (sys.path points at
/repo/src, so whatever is on disk now is what is exercised).
"""

from __future__ import annotations

import binascii
import hashlib
import json
import logging
import os
import random
import struct
import subprocess
import sys
import time
from datetime import datetime, timedelta, timezone
from pathlib import Path
from typing import Any, Callable, Iterable

VERIF = Path(__file__).resolve().parent.parent
REPO = Path(os.environ.get("KSKM_REPO", "/repo"))
LEAN = VERIF / "lean"
DRIVER = LEAN / ".lake" / "build" / "bin" / "kskm_driver"

if str(REPO / "src") not in sys.path:
    sys.path.insert(0, str(REPO / "src"))
if str(VERIF / "harness") not in sys.path:
    sys.path.insert(0, str(VERIF / "harness"))

# ---- hashlib as an oracle, recorded AT THE SOURCE ------------------------------------------------------------------
# The hash functions are parameters of the model; the harness has to hand it the digests the implementation computed.
# Recording by replacing the names a repository module imported (`kskm.misc.hsm.sha256 = …`) depends on HOW the code reaches
# hashlib: a harmless refactoring that keeps the functions in a module-level table (captured at import) escapes it and the
# model "cannot follow the run".  So the constructors of `hashlib` itself are wrapped here, BEFORE any repository module is
# imported: whatever reference the repository keeps is the wrapper.  Without an active sink the wrapper only forwards.
HASH_SINKS: list[Any] = []
_HASH_NAMES = ("sha1", "sha256", "sha384", "sha512")


class _RecordingHash:
    """A hashlib object that reports (algorithm, message, digest) to the active sinks when a digest is taken."""

    def __init__(self, name: str, inner: Any, data: bytes) -> None:
        self._name, self._inner, self._data = name, inner, bytes(data)

    def update(self, data: Any) -> None:
        self._inner.update(data)
        self._data += bytes(data)

    def _report(self) -> None:
        for sink in HASH_SINKS:
            sink.entries.append({"alg": self._name, "message": self._data.hex(), "digest": self._inner.hexdigest()})

    def digest(self) -> bytes:
        self._report()
        return self._inner.digest()

    def hexdigest(self) -> str:
        self._report()
        return self._inner.hexdigest()

    def copy(self) -> "_RecordingHash":
        return _RecordingHash(self._name, self._inner.copy(), self._data)

    def __getattr__(self, item: str) -> Any:  # name, digest_size, block_size
        return getattr(self._inner, item)


def _wrap_hashlib() -> None:
    if getattr(hashlib, "_kskm_verif_wrapped", False):
        return
    for n in _HASH_NAMES:
        orig = getattr(hashlib, n)

        def ctor(data: Any = b"", *a: Any, _orig: Any = orig, _n: str = n, **kw: Any) -> Any:
            if not HASH_SINKS:
                return _orig(data, *a, **kw)
            return _RecordingHash(_n, _orig(data, *a, **kw), data)

        ctor.__name__ = n
        setattr(hashlib, n, ctor)
    orig_new = hashlib.new

    def new(name: str, data: Any = b"", *a: Any, **kw: Any) -> Any:
        if not HASH_SINKS or name.lower() not in _HASH_NAMES:
            return orig_new(name, data, *a, **kw)
        return _RecordingHash(name.lower(), orig_new(name, data, *a, **kw), data)

    hashlib.new = new  # type: ignore[assignment]
    hashlib._kskm_verif_wrapped = True  # type: ignore[attr-defined]


if "kskm" in sys.modules:  # pragma: no cover - a repository module was imported before the harness: the wrapper would be bypassed
    raise RuntimeError("harness/lib.py must be imported before any kskm module (hashlib is wrapped at import)")
_wrap_hashlib()

# The repo logs a lot; verdicts are what we compare.  The logging LEVEL is part of the environment, though: the tools run at
# INFO by default and at DEBUG with --debug, and `if logger.isEnabledFor(DEBUG)` branches must not change a verdict.  So the
# checks run once with logging disabled and — `./check` does this as a second pass — once more with every logger at DEBUG
# and records swallowed by a NullHandler (VERIF_LOGGING=debug).
if os.environ.get("VERIF_LOGGING") == "debug":
    logging.disable(logging.NOTSET)
    logging.getLogger().setLevel(logging.DEBUG)
    logging.getLogger().addHandler(logging.NullHandler())
    logging.lastResort = None
else:
    logging.disable(logging.CRITICAL)

EPOCH = datetime(1970, 1, 1, tzinfo=timezone.utc)
US = timedelta(microseconds=1)
DAY_US = 86400 * 10**6


def seed() -> int:
    try:
        return int(os.environ.get("VERIF_SEED", "0"))
    except ValueError:
        return 0


def rng(tag: str = "") -> random.Random:
    """Every random choice derives from VERIF_SEED (+ a per-stream tag)."""
    h = hashlib.sha256(f"{seed()}:{tag}".encode()).digest()
    return random.Random(int.from_bytes(h[:8], "big"))


# --------------------------------------------------------------------------------------
# time
# --------------------------------------------------------------------------------------


def dt_us(dt: datetime) -> int:
    """aware datetime -> microseconds since the epoch (exact integer arithmetic)."""
    if dt.tzinfo is None:
        dt = dt.replace(tzinfo=timezone.utc)
    return (dt - EPOCH) // US


def us_dt(us: int) -> datetime:
    return EPOCH + timedelta(microseconds=us)


def td_us(td: timedelta) -> int:
    return td // US


def us_td(us: int) -> timedelta:
    return timedelta(microseconds=us)


# --------------------------------------------------------------------------------------
# outcome canonicalisation
# --------------------------------------------------------------------------------------

RULE_BY_CLASS = {
    "KSR_DOMAIN_Violation": "ksrDomain",
    "KSR_ID_Violation": "ksrId",
    "KSR_BUNDLE_UNIQUE_Violation": "bundleUnique",
    "KSR_BUNDLE_KEYS_Violation": "bundleKeys",
    "KSR_BUNDLE_POP_Violation": "bundlePop",
    "KSR_BUNDLE_COUNT_Violation": "bundleCount",
    "KSR_BUNDLE_CYCLE_DURATION_Violation": "bundleCycleDuration",
    "KSR_POLICY_KEYS_Violation": "policyKeys",
    "KSR_POLICY_ALG_Violation": "policyAlg",
    "KSR_POLICY_SIG_OVERLAP_Violation": "policySigOverlap",
    "KSR_POLICY_SIG_VALIDITY_Violation": "policySigValidity",
    "KSR_POLICY_SIG_HORIZON_Violation": "policySigHorizon",
    "KSR_PolicyViolation": "policyBase",
    "KSR_POLICY_BUNDLE_INTERVAL_Violation": "policyBundleInterval",
    "KSR_POLICY_SAFETY_Violation": "policySafety",
    "KSR_CHAIN_KEYS_Violation": "chainKeys",
    "KSR_CHAIN_OVERLAP_Violation": "chainOverlap",
    "KeyUsagePolicy_Violation": "keyUsage",
    "PolicyViolation": "skrPolicy",
    "InvalidSignatureViolation": "skrInvalidSignature",
}


def classify_exception(exc: BaseException) -> dict[str, str]:
    """Map an exception to the model's `Fail` vocabulary (class only; never the message)."""
    from kskm.common.validate import PolicyViolation

    name = type(exc).__name__
    if isinstance(exc, PolicyViolation):
        if name in RULE_BY_CLASS:
            return {"violation": RULE_BY_CLASS[name]}
        # unknown subclass: walk the MRO for the closest known one
        for cls in type(exc).__mro__:
            if cls.__name__ in RULE_BY_CLASS:
                return {"violation": RULE_BY_CLASS[cls.__name__]}
        return {"violation": "skrPolicy"}
    return {"error": error_kind(exc)}


def error_kind(exc: BaseException) -> str:
    import pydantic

    try:
        import PyKCS11

        if isinstance(exc, PyKCS11.PyKCS11Error):
            return "p11"
    except Exception:  # pragma: no cover
        pass
    from cryptography.exceptions import InvalidSignature

    name = type(exc).__name__
    if name == "ConfigurationError":
        return "configuration"
    if name == "CreateSignatureError":
        return "createSignature"
    if name == "SKR_VERIFY_Failure":
        return "skrVerify"
    if isinstance(exc, InvalidSignature):
        return "invalidSignature"
    if isinstance(exc, pydantic.ValidationError):
        return "validation"
    if isinstance(exc, struct.error):
        return "struct"
    if isinstance(exc, binascii.Error):
        return "binascii"
    if isinstance(exc, UnicodeError):
        return "unicode"
    if isinstance(exc, NotImplementedError):
        return "notImplemented"
    if isinstance(exc, OverflowError):
        return "overflow"
    for cls, kind in (
        (KeyError, "key"),
        (IndexError, "index"),
        (TypeError, "type"),
        (ValueError, "value"),
        (AssertionError, "assertion"),
        (AttributeError, "attribute"),
        (RuntimeError, "runtime"),
    ):
        if isinstance(exc, cls):
            return kind
    return "other"


def run_impl(fn: Callable[[], Any], conv: Callable[[Any], Any] = lambda x: None) -> Any:
    """Run implementation code and return its canonical outcome."""
    try:
        res = fn()
    except (KeyboardInterrupt, SystemExit):
        raise
    except BaseException as exc:  # noqa: BLE001
        return classify_exception(exc)
    return {"ok": conv(res)}


def same_outcome(impl: Any, model: Any) -> bool:
    """ok / violation must agree exactly; two non-policy errors agree whatever their class."""
    if isinstance(impl, dict) and isinstance(model, dict):
        if "error" in impl and "error" in model:
            return True
    return impl == model


def is_unsupported(model: Any) -> bool:
    return model == "unsupported"


# --------------------------------------------------------------------------------------
# codecs: repo objects -> the JSON shapes of lean/Kskm/Data.lean (field for field)
# --------------------------------------------------------------------------------------


def hexs(b: bytes) -> str:
    return binascii.hexlify(bytes(b)).decode()


def key_j(k: Any) -> dict[str, Any]:
    return {
        "keyIdentifier": k.key_identifier,
        "keyTag": k.key_tag,
        "ttl": k.ttl,
        "flags": k.flags,
        "protocol": k.protocol,
        "algorithm": k.algorithm.value,
        "publicKey": k.public_key.decode("utf-8", "surrogateescape"),
    }


def sig_j(s: Any) -> dict[str, Any]:
    return {
        "keyIdentifier": s.key_identifier,
        "ttl": s.ttl,
        "typeCovered": s.type_covered.value,
        "algorithm": s.algorithm.value,
        "labels": s.labels,
        "originalTtl": s.original_ttl,
        "expiration": dt_us(s.signature_expiration),
        "inception": dt_us(s.signature_inception),
        "keyTag": s.key_tag,
        "signersName": s.signers_name,
        "signatureData": s.signature_data.decode("utf-8", "surrogateescape"),
    }


def alg_policy_j(a: Any) -> dict[str, Any]:
    kind = {
        "AlgorithmPolicyRSA": "rsa",
        "AlgorithmPolicyECDSA": "ecdsa",
        "AlgorithmPolicyEdDSA": "eddsa",
        "AlgorithmPolicyDSA": "dsa",
    }[type(a).__name__]
    return {
        "kind": kind,
        "bits": a.bits,
        "algorithm": a.algorithm.value,
        "exponent": getattr(a, "exponent", None),
    }


def sigpolicy_j(p: Any) -> dict[str, Any]:
    return {
        "publishSafety": td_us(p.publish_safety),
        "retireSafety": td_us(p.retire_safety),
        "maxSignatureValidity": td_us(p.max_signature_validity),
        "minSignatureValidity": td_us(p.min_signature_validity),
        "maxValidityOverlap": td_us(p.max_validity_overlap),
        "minValidityOverlap": td_us(p.min_validity_overlap),
        "algorithms": [alg_policy_j(a) for a in p.algorithms],  # set iteration order, as the code sees it
    }


def bundle_j(b: Any) -> dict[str, Any]:
    signers = getattr(b, "signers", None)
    return {
        "id": b.id,
        "inception": dt_us(b.inception),
        "expiration": dt_us(b.expiration),
        "keys": [key_j(k) for k in b.keys],  # set iteration order
        "signatures": [sig_j(s) for s in b.signatures],
        "signers": None if signers is None else [s.key_identifier for s in signers],
    }


def request_j(r: Any) -> dict[str, Any]:
    return {
        "id": r.id,
        "serial": r.serial,
        "domain": r.domain,
        "timestamp": None if r.timestamp is None else dt_us(r.timestamp),
        "zskPolicy": sigpolicy_j(r.zsk_policy),
        "bundles": [bundle_j(b) for b in r.bundles],
    }


def response_j(r: Any) -> dict[str, Any]:
    return {
        "id": r.id,
        "serial": r.serial,
        "domain": r.domain,
        "timestamp": None if r.timestamp is None else dt_us(r.timestamp),
        "zskPolicy": sigpolicy_j(r.zsk_policy),
        "kskPolicy": sigpolicy_j(r.ksk_policy),
        "bundles": [bundle_j(b) for b in r.bundles],
    }


def request_policy_j(p: Any) -> dict[str, Any]:
    from kskm.common.data import AlgorithmDNSSEC

    def alg(name: str) -> int | None:
        try:
            return AlgorithmDNSSEC[name].value
        except KeyError:
            return None

    return {
        "acceptableDomains": list(p.acceptable_domains),
        "numBundles": p.num_bundles,
        "validateSignatures": p.validate_signatures,
        "keysMatchZskPolicy": p.keys_match_zsk_policy,
        "rsaExponentMatchZskPolicy": p.rsa_exponent_match_zsk_policy,
        "enableUnsupportedEcdsa": p.enable_unsupported_ecdsa,
        "enableUnsupportedEdwardsDsa": p.enable_unsupported_edwards_dsa,
        "checkCycleLength": p.check_cycle_length,
        "minCycleInceptionLength": td_us(p.min_cycle_inception_length),
        "maxCycleInceptionLength": td_us(p.max_cycle_inception_length),
        "minBundleInterval": td_us(p.min_bundle_interval),
        "maxBundleInterval": td_us(p.max_bundle_interval),
        "checkBundleOverlap": p.check_bundle_overlap,
        "signatureAlgorithmsMatchZskPolicy": p.signature_algorithms_match_zsk_policy,
        "approvedAlgorithms": [alg(x) for x in p.approved_algorithms],
        "rsaApprovedExponents": list(p.rsa_approved_exponents),
        "rsaApprovedKeySizes": list(p.rsa_approved_key_sizes),
        "signatureValidityMatchZskPolicy": p.signature_validity_match_zsk_policy,
        "checkKeysMatchKskOperatorPolicy": p.check_keys_match_ksk_operator_policy,
        "numKeysPerBundle": list(p.num_keys_per_bundle),
        "numDifferentKeysInAllBundles": p.num_different_keys_in_all_bundles,
        "dnsTtl": p.dns_ttl,
        "signatureCheckExpireHorizon": p.signature_check_expire_horizon,
        "signatureHorizonDays": p.signature_horizon_days,
        "checkBundleIntervals": p.check_bundle_intervals,
        "checkChainKeys": p.check_chain_keys,
        "checkChainKeysInHsm": p.check_chain_keys_in_hsm,
        "checkChainOverlap": p.check_chain_overlap,
        "checkKeysPublishSafety": p.check_keys_publish_safety,
        "checkKeysRetireSafety": p.check_keys_retire_safety,
    }


def response_policy_j(p: Any) -> dict[str, Any]:
    return {"numBundles": p.num_bundles, "validateSignatures": p.validate_signatures}


# --------------------------------------------------------------------------------------
# the model driver
# --------------------------------------------------------------------------------------


class DriverError(RuntimeError):
    pass


def run_driver(lines: Iterable[dict[str, Any]], timeout: float = 3600.0, exe: str = "kskm_driver") -> list[Any]:
    """Pipe JSON lines through a compiled model driver and return its parsed answers."""
    lines = list(lines)
    if not lines:
        return []
    payload = "\n".join(json.dumps(x, separators=(",", ":")) for x in lines) + "\n"
    path = DRIVER.parent / exe
    if not path.exists():
        raise DriverError(f"model driver not built: {path}")
    proc = subprocess.run(
        [str(path)],
        input=payload.encode(),
        stdout=subprocess.PIPE,
        stderr=subprocess.PIPE,
        timeout=timeout,
        check=False,
    )
    if proc.returncode != 0:
        raise DriverError(f"driver exit {proc.returncode}: {proc.stderr.decode()[:2000]}")
    # split on "\n" only: str.splitlines() also splits at U+0085 / U+2028 / U+2029 / FS..US, which the driver writes raw inside JSON strings
    out = [json.loads(x) for x in proc.stdout.decode().split("\n") if x.strip()]
    n = payload.count("\n")
    if len(out) != n:
        raise DriverError(f"driver answered {len(out)} of {n} lines: {proc.stderr.decode()[:2000]}")
    return out


# --------------------------------------------------------------------------------------
# recording the real verifier (oracle passing)
# --------------------------------------------------------------------------------------


class VerifyRecorder:
    """Replace the `KSKM_PublicKey` name inside a repo module by a proxy that records what the real
    verifier was asked and what it answered.  No repo source is touched."""

    def __init__(self) -> None:
        self.entries: list[dict[str, Any]] = []
        self._patched: list[tuple[Any, Any]] = []

    def _wrap(self, inner: Any, algorithm: int, pk_text: str) -> Any:
        rec = self

        class _PK:
            def __getattr__(self, name: str) -> Any:
                return getattr(inner, name)

            def verify_signature(self, signature: bytes, data: bytes) -> None:
                from cryptography.exceptions import InvalidSignature

                entry = {
                    "algorithm": algorithm,
                    "publicKey": pk_text,
                    "message": hexs(data),
                    "signature": hexs(signature),
                }
                try:
                    inner.verify_signature(signature, data)
                except InvalidSignature:
                    entry["result"] = "invalid"
                    rec.entries.append(entry)
                    raise
                except Exception as exc:  # noqa: BLE001
                    entry["result"] = error_kind(exc)
                    rec.entries.append(entry)
                    raise
                entry["result"] = "valid"
                rec.entries.append(entry)

        return _PK()

    def install(self, *modules: Any) -> "VerifyRecorder":
        rec = self
        for mod in modules:
            orig = getattr(mod, "KSKM_PublicKey", None)
            if orig is None:
                # the module no longer refers to the verifier at all (e.g. a software check was removed): nothing to record there;
                # the model will ask for an answer nobody recorded, and the property oracle judges what was written
                continue

            class _Proxy:
                _orig = orig

                @staticmethod
                def from_key(key: Any, _orig: Any = orig) -> Any:
                    inner = _orig.from_key(key)
                    return rec._wrap(inner, key.algorithm.value, key.public_key.decode("utf-8", "replace"))

                @staticmethod
                def from_bytes(public_key: bytes, algorithm: Any, _orig: Any = orig) -> Any:
                    inner = _orig.from_bytes(public_key, algorithm)
                    return rec._wrap(inner, algorithm.value, public_key.decode("utf-8", "replace"))

            self._patched.append((mod, orig))
            mod.KSKM_PublicKey = _Proxy
        return self

    def uninstall(self) -> None:
        for mod, orig in self._patched:
            mod.KSKM_PublicKey = orig
        self._patched = []

    def take(self) -> list[dict[str, Any]]:
        e, self.entries = self.entries, []
        return e


class PinnedClock:
    """Pin `datetime.now()` as seen by kskm.ksr.verify_policy (the horizon rule's clock)."""

    def __init__(self) -> None:
        import kskm.ksr.verify_policy as vp

        self.vp = vp
        self.orig = vp.datetime
        self.now_us = 0
        clock = self

        class _DT(datetime):
            @classmethod
            def now(cls, tz: Any = None) -> datetime:  # type: ignore[override]
                return us_dt(clock.now_us).astimezone(tz) if tz else us_dt(clock.now_us).replace(tzinfo=None)

        self.cls = _DT

    def __enter__(self) -> "PinnedClock":
        self.vp.datetime = self.cls
        return self

    def __exit__(self, *a: Any) -> None:
        self.vp.datetime = self.orig


# --------------------------------------------------------------------------------------
# results
# --------------------------------------------------------------------------------------


class Result:
    """What one correspondence run reports back to the check driver."""

    def __init__(self, prop: str) -> None:
        self.prop = prop
        self.evaluations = 0
        self.distinct: set[str] = set()
        self.samples: list[Any] = []
        self.violations: list[dict[str, Any]] = []  # failing inputs of the *property* on the implementation
        self.disagreements: list[dict[str, Any]] = []  # model != implementation, property not (yet) shown broken
        self.unsupported = 0
        self.soft_error_kind_mismatch = 0
        self.stats: dict[str, Any] = {}
        self.rule = ""
        self.notes: list[str] = []
        self.t0 = time.time()

    def count(self, key: Any, nontrivial: bool = True) -> None:
        self.evaluations += 1
        if nontrivial:
            self.distinct.add(hashlib.sha1(json.dumps(key, sort_keys=True, default=str).encode()).hexdigest())

    def sample(self, s: Any, limit: int = 5) -> None:
        if len(self.samples) < limit:
            self.samples.append(s)

    def bump(self, name: str, n: int = 1) -> None:
        self.stats[name] = self.stats.get(name, 0) + n

    def violation(self, what: str, case: Any, **extra: Any) -> None:
        v = {"what": what, "case": case}
        v.update(extra)
        self.violations.append(v)

    def disagreement(self, what: str, case: Any, impl: Any, model: Any, **extra: Any) -> None:
        d = {"what": what, "case": case, "impl": impl, "model": model}
        d.update(extra)
        self.disagreements.append(d)


# ---- environment independence: the process time zone ---------------------------------------------------------------
# The tools must behave identically whatever the time zone of the process that runs them (the unit tests, CI and this
# sandbox all run in UTC, where `astimezone()`, `time.mktime`, `datetime.fromtimestamp` without tz … are harmless).

# (IANA name, POSIX TZ string used when /usr/share/zoneinfo lacks the name, UTC offset in seconds on 16 January 2030)
TZ_ZONES = [
    ("UTC", "UTC0", 0),
    ("America/New_York", "EST5EDT,M3.2.0,M11.1.0", -5 * 3600),
    ("Australia/Lord_Howe", "<+1030>-10:30<+11>-11,M10.1.0,M4.1.0", 11 * 3600),
    ("Asia/Kolkata", "IST-5:30", 5 * 3600 + 1800),
    ("Europe/Berlin", "CET-1CEST,M3.5.0,M10.5.0/3", 3600),
]
TZ_PROBE = 1_894_752_000  # 2030-01-16T00:00:00Z


class ProcessTZ:
    """`with ProcessTZ(*TZ_ZONES[i]):` switches the time zone of THIS process (TZ + tzset) and puts it back afterwards.
    Raises if the switch has no effect (a stream run under it would be vacuous)."""

    def __init__(self, name: str, posix: str, offset: int) -> None:
        self.name = name
        self.value = name if Path("/usr/share/zoneinfo", name).exists() else posix
        self.posix, self.offset = posix, offset

    def __enter__(self) -> "ProcessTZ":
        import time

        self.saved = os.environ.get("TZ")
        for value in (self.value, self.posix):
            os.environ["TZ"] = value
            time.tzset()
            if time.localtime(TZ_PROBE).tm_gmtoff == self.offset:
                self.value = value
                return self
        self.__exit__()
        raise RuntimeError(f"cannot switch the process time zone to {self.value}: the environment-independence stream would be vacuous")

    def __exit__(self, *a: Any) -> None:
        import time

        if self.saved is None:
            os.environ.pop("TZ", None)
        else:
            os.environ["TZ"] = self.saved
        time.tzset()


def non_utc_zones() -> list[tuple[str, str, int]]:
    return TZ_ZONES[1:]
