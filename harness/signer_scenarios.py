"""Scenario generator and runner shared by C01, C02, C04 (and reused by C03/C10): a request, a schema,
a configuration and an emulated token, run through the real `sign_bundles()` / `create_skr()` and
through the model by log replay.

Input classes every consumer of `gen_scenario` sees (all of them well-formed: signing is expected to complete):
  * SUB-SECOND instants: the scenario start and, per bundle, inception and expiration carry microsecond components
    (`SUBSECOND_US`: .000001 / .4 / .499999 / .5 / .500001 / .6 / .999999, on even and odd seconds) about six times out of ten
    (`Scenario.sub_us`); the declared policy durations stay whole.
  * every legal SPELLING of the configured values (`respell_entry`): `ds_sha256` in upper / lower / mixed case (pattern
    ^[0-9a-fA-F]+$); `key_tag` present / absent; `valid_from` / `valid_until` written with `+00:00`, `Z`, a non-UTC offset, without
    designator (UTC), with a space for the `T`, with 1..6 fraction digits, or as the datetime objects a YAML loader yields (aware UTC,
    aware with another offset, naive) -- far from the bundles, or EXACTLY on the first inception / last expiration (the window is
    inclusive) and one microsecond outside of nothing (1 us before / after); `valid_until` present / absent;
  * the `algorithm` by its AlgorithmDNSSEC name (one name per number) or as the enum member itself;
  * key NAMES (schema / `keys:` mapping) and token LABELS at the edges of ^[\\w_]+$: a lone underscore, digits only, one character,
    non-ASCII word characters and digits, forty characters.
`describe()` states the spelled entries and, in meta["spellings"], which style each value was written in."""

from __future__ import annotations

import base64
from datetime import datetime, timedelta, timezone
from typing import Any

import ceremony as C
import keys as K
import lib
import p11emu

UTC = timezone.utc
START = datetime(2024, 1, 1, tzinfo=UTC)

# sub-second components (microseconds) an instant may carry: either side of .5 (round-half-even differs from truncation on even AND
# odd seconds), the smallest and the largest representable fraction
SUBSECOND_US = (1, 400_000, 499_999, 500_000, 500_001, 600_000, 999_999)


def pick_sub_us(r: Any) -> int:
    """the microsecond component of an instant: a whole second four times out of ten, else one of SUBSECOND_US"""
    return 0 if r.random() < 0.4 else r.choice(SUBSECOND_US)


HEX_STYLES = ("upper", "lower", "mixed")


def spell_hex(r: Any, text: str, style: str) -> str:
    """a hexadecimal digest in one of the capitalisations ^[0-9a-fA-F]+$ allows"""
    if style == "upper":
        return text.upper()
    if style == "lower":
        return text.lower()
    out = [(c.upper() if r.random() < 0.5 else c.lower()) for c in text]
    letters = [i for i, c in enumerate(out) if c.isalpha()]
    if len(letters) >= 2:  # really mixed: at least one letter of each case
        out[letters[0]] = out[letters[0]].lower()
        out[letters[-1]] = out[letters[-1]].upper()
    return "".join(out)


INSTANT_STYLES = ("+00:00", "Z", "offset", "naive", "space", "datetime-utc", "datetime-offset", "datetime-naive")
NON_UTC_OFFSETS_MIN = (330, -480, 60, -30, 765)


def spell_instant(r: Any, us: int, style: str) -> Any:
    """The instant `us` (microseconds since the epoch, UTC) as a configuration value in one of the legal spellings: ISO 8601 text with
    `+00:00` / `Z` / a non-UTC offset / no designator (= UTC) / a space instead of `T`, a sub-second part written with as few as
    possible up to six digits; or the datetime object a YAML loader makes of an unquoted timestamp (aware UTC / other offset / naive)."""
    off = r.choice(NON_UTC_OFFSETS_MIN) if style in ("offset", "datetime-offset") else 0
    aware = lib.us_dt(us).astimezone(timezone(timedelta(minutes=off))) if off else lib.us_dt(us)
    if style == "datetime-utc" or style == "datetime-offset":
        return aware
    if style == "datetime-naive":
        return aware.replace(tzinfo=None)
    frac = us % 10**6
    text = aware.strftime("%Y-%m-%d %H:%M:%S" if style == "space" else "%Y-%m-%dT%H:%M:%S")
    if frac:
        digits = f"{frac:06d}".rstrip("0")
        text += "." + digits + "0" * r.randrange(0, 7 - len(digits))
    elif r.random() < 0.15:
        text += r.choice([".0", ".000000"])
    if style in ("naive", "space"):
        return text
    if style == "Z":
        return text + "Z"
    sign = "-" if off < 0 else "+"
    return text + f"{sign}{abs(off) // 60:02d}:{abs(off) % 60:02d}"


# names (schema actions, `keys:` mapping) and token labels at the edges of ^[\w_]+$ (BMP only)
EDGE_WORDS = ("_", "0", "K_2", "\u043a\u043b\u044e\u0447", "\u00e91", "\uff4b", "x\u0663", "__", "9_9", "L" * 40, "k")


def respell_entry(r: Any, entry: dict[str, Any], first_inception_us: int | None = None, last_expiration_us: int | None = None, window: bool = True) -> dict[str, str]:
    """Rewrite a truthful `keys:` entry (ceremony.ksk_config_entry) IN PLACE in another legal spelling of the same facts and return
    which styles were used.  `ds_sha256` (if present): upper / lower / mixed case.  `valid_from` / `valid_until` (with `window`): an
    instant in any of INSTANT_STYLES -- far from the bundles (2010 / 2040, possibly with a sub-second part), or exactly the first
    inception / the last expiration of the request (the window is inclusive), or one microsecond before / after those; `valid_until`
    stays absent half of the time."""
    used: dict[str, str] = {}
    if entry.get("ds_sha256"):
        st = r.choice(HEX_STYLES)
        entry["ds_sha256"] = spell_hex(r, entry["ds_sha256"], st)
        used["ds_sha256"] = st
    if not window:
        return used
    far_from = lib.dt_us(datetime(2010, 1, 1, tzinfo=UTC)) + pick_sub_us(r)
    far_until = lib.dt_us(datetime(2040, 1, 1, tzinfo=UTC)) + pick_sub_us(r)
    x = r.random()
    if first_inception_us is None or x < 0.6:
        where, us = "far", far_from
    elif x < 0.85:
        where, us = "on-first-inception", first_inception_us
    else:
        where, us = "first-inception-1us", first_inception_us - 1
    st = r.choice(INSTANT_STYLES)
    entry["valid_from"] = spell_instant(r, us, st)
    used["valid_from"] = f"{where}:{st}"
    x = r.random()
    if x < 0.5:
        entry.pop("valid_until", None)
        used["valid_until"] = "absent"
    else:
        if last_expiration_us is None or x < 0.7:
            where, us = "far", far_until
        elif x < 0.9:
            where, us = "on-last-expiration", last_expiration_us
        else:
            where, us = "last-expiration+1us", last_expiration_us + 1
        st = r.choice(INSTANT_STYLES)
        entry["valid_until"] = spell_instant(r, us, st)
        used["valid_until"] = f"{where}:{st}"
    return used


class Scenario:
    def __init__(self) -> None:
        self.meta: dict[str, Any] = {}
        self.ksks: dict[str, dict[str, Any]] = {}  # name -> {label, tk, alg, entry(dict), placement…}
        self.schema: dict[int, dict[str, list[str]]] = {}
        # order in which the slots are LISTED in the configuration (a YAML mapping is ordered); None = ascending.
        # The slot NUMBER decides which bundle an action belongs to, never its position in the listing.
        self.schema_listing: list[int] | None = None
        self.zsks: list[tuple[str, K.TestKey, int]] = []
        self.layout: list[list[int]] = []
        self.ksk_ttl = 172800
        self.zsk_ttl = 3600
        self.modules: list[dict[str, Any]] = []  # [{path, pin, slots:[{id, login_ok}]}]
        self.token_edits: list[Any] = []  # callables(world) applied after the honest placement
        self.plan: dict[int, dict[str, Any]] = {}
        self.start = START
        # per bundle (inception, expiration) MICROSECONDS added to the whole-second timeline start + 10 d * i (+ 21 d); None = none
        self.sub_us: list[tuple[int, int]] | None = None
        self.validate_signatures = True
        self.wellformed = True
        self.req_id = "req-1"
        # public-only ZSK material added to the request after construction: (identifier, RFC 3110 octets, algorithm, bundle indexes)
        self.extra_zsk_public: list[tuple[str, bytes, int, list[int]]] = []

    # -- materialise -----------------------------------------------------------------------------
    def world(self) -> p11emu.World:
        mods = []
        for m in self.modules:
            slots = [p11emu.EmuSlot(s["id"], login_ok=s.get("login_ok", True), open_ok=s.get("open_ok", True)) for s in m["slots"]]
            mods.append(p11emu.EmuModule(m["path"], slots))
        w = p11emu.World(mods)
        for name, k in self.ksks.items():
            if k.get("absent"):
                continue
            slot = w.modules[k["module"]].slot(k["slot"])
            tk = k["tk"]
            if tk.kind == "rsa":
                slot.add_rsa(k["label"], tk, public=k.get("public", True), private=k.get("private", True), priv_has_pub_attrs=k.get("priv_has_pub_attrs", True))
            else:
                slot.add_ec(k["label"], tk, public=k.get("public", True), private=k.get("private", True), wrapped_point=k.get("wrapped", True), priv_has_point=k.get("priv_has_point", False))
        for edit in self.token_edits:
            edit(w)
        w.plan = dict(self.plan)
        return w

    def schema_listed(self) -> dict[int, dict[str, list[str]]]:
        """The schema as written in the configuration: the same slot -> actions map, listed in `schema_listing` order."""
        order = self.schema_listing or sorted(self.schema)
        assert sorted(order) == sorted(self.schema)
        return {slot: self.schema[slot] for slot in order}

    def config(self) -> Any:
        hsm = {f"hsm{i}": {"module": m["path"], "pin": m.get("pin", "1234")} for i, m in enumerate(self.modules)}
        ksk = {name: k["entry"] for name, k in self.ksks.items()}
        return C.make_config(
            hsm,
            ksk,
            {"s": self.schema_listed()},
            ksk_policy={"ttl": self.ksk_ttl, "publish_safety": "P10D", "retire_safety": "P10D", "max_signature_validity": "P21D", "min_signature_validity": "P21D", "max_validity_overlap": "P12D", "min_validity_overlap": "P9D"},
            response_policy={"num_bundles": len(self.layout), "validate_signatures": self.validate_signatures},
        )

    def request(self) -> Any:
        req = C.honest_request(self.zsks, self.layout, start=self.start, zsk_ttl=self.zsk_ttl, req_id=self.req_id, bundle_prefix=self.req_id + "-bundle", sub_us=self.sub_us)
        if self.extra_zsk_public:
            import base64

            from kskm.common.data import AlgorithmDNSSEC
            from kskm.common.dnssec import public_key_to_dnssec_key
            from kskm.ksr.data import RequestBundle

            bundles = list(req.bundles)
            for ident, pk, alg, idxs in self.extra_zsk_public:
                key = public_key_to_dnssec_key(public_key=base64.b64encode(pk), key_identifier=ident, algorithm=AlgorithmDNSSEC(alg), ttl=self.zsk_ttl, flags=256)
                for i in idxs:
                    b = bundles[i]
                    bundles[i] = RequestBundle(id=b.id, inception=b.inception, expiration=b.expiration, keys=set(b.keys) | {key}, signatures=b.signatures, signers=b.signers)
            req = req.replace(bundles=bundles)
        return req


def pick_ksk_key(r: Any, alg: int, quick: bool) -> K.TestKey:
    if alg in (13, 14):
        return r.choice(K.ec_keys("P-256" if alg == 13 else "P-384"))
    sizes = [1024, 1024, 2048, 2048, 2048, 3072, 4096] if not quick else [1024, 1024, 1024, 2048, 2048, 3072, 4096]
    bits = r.choice(sizes)
    return r.choice(K.rsa_keys(bits))


def gen_scenario(r: Any, quick: bool = True, n_bundles: int | None = None, force_alg: int | None = None, start: datetime | None = None) -> Scenario:
    """A well-formed scenario: signing is expected to complete.  `start`: the (whole-second part of the) first inception, when the
    caller wants to place the timeline itself (it must be known here: key validity windows may be written exactly onto the timeline)."""
    sc = Scenario()
    n = n_bundles or r.choice([1, 1, 2, 2, 3, 3, 4, 9] if quick else [1, 2, 3, 4, 5, 6, 7, 8, 9])
    alg = force_alg or r.choice([8, 8, 8, 10, 10, 13, 14])
    nksk = r.choice([1, 2, 2, 3])
    # modules / slots
    nmod = r.choice([1, 1, 1, 2])
    for mi in range(nmod):
        nslots = r.choice([1, 1, 2, 3])
        slots = [{"id": si, "login_ok": True} for si in range(nslots)]
        sc.modules.append({"path": f"emu{mi}", "pin": "1234", "slots": slots})
    # optionally one extra slot that refuses login (never the only one of the first module's key holders)
    if r.random() < 0.25:
        m = r.choice(sc.modules)
        m["slots"].insert(r.randrange(len(m["slots"]) + 1), {"id": 7, "login_ok": False})
    names = ["ka", "kb", "kc"][:nksk]
    labels = ["K" + x for x in names]
    if r.random() < 0.3:  # names at the edges of the KeyName pattern
        names = r.sample(EDGE_WORDS, nksk)
        labels = ["K" + x for x in names]
    if r.random() < 0.3:  # labels at the edges of the pattern (distinct; a label becomes the key identifier in the SKR)
        labels = r.sample(EDGE_WORDS, nksk)
    # the timeline: whole-second start, and per bundle the microseconds inception / expiration carry on top
    sc.start = start if start is not None else START + timedelta(days=r.randrange(0, 300), seconds=r.choice([0, 0, 1, 43200]))
    if r.random() < 0.6:
        sc.sub_us = [(pick_sub_us(r), pick_sub_us(r)) for _ in range(n)]
    sub = sc.sub_us or [(0, 0)] * n
    first_inc_us = lib.dt_us(sc.start) + sub[0][0]
    last_exp_us = lib.dt_us(sc.start + timedelta(days=10) * (n - 1) + timedelta(days=21)) + sub[-1][1]
    spellings: dict[str, dict[str, str]] = {}
    used_labels = set()
    for name, label in zip(names, labels):
        # all KSKs of one scenario share the algorithm so that ZSK/KSK algorithm sets can agree;
        # sometimes mix RSA-SHA256 and RSA-SHA512 with matching ZSKs
        a = alg
        tk = pick_ksk_key(r, a, quick)
        while id(tk) in used_labels:
            tk = pick_ksk_key(r, a, quick)
        used_labels.add(id(tk))
        m = r.choice(sc.modules)
        ok_slots = [s for s in m["slots"] if s.get("login_ok", True)]
        s = r.choice(ok_slots)
        hh = r.choice([None, False, True, True])
        k = {
            "label": label,
            "tk": tk,
            "alg": a,
            "module": m["path"],
            "slot": s["id"],
            "wrapped": r.random() < 0.6,
            "priv_has_point": r.random() < 0.3,
            "priv_has_pub_attrs": True,
        }
        k["entry"] = C.ksk_config_entry(k["label"], tk, a, with_tag=r.random() < 0.5, with_ds=r.random() < 0.5, hash_using_hsm=hh)
        spellings[name] = respell_entry(r, k["entry"], first_inc_us, last_exp_us)
        if r.random() < 0.15:
            # the algorithm given as the AlgorithmDNSSEC member itself (what a caller of KSKMConfig.from_dict may pass) instead of its name
            from kskm.common.data import AlgorithmDNSSEC

            assert AlgorithmDNSSEC(a).name == k["entry"]["algorithm"]  # the name written otherwise IS the member's name
            k["entry"]["algorithm"] = AlgorithmDNSSEC(a)
            spellings[name]["algorithm"] = "enum-member"
        sc.ksks[name] = k
    # schema: any subsets; at least one signer per slot so that algorithm sets agree
    for slot in range(1, n + 1):
        sign = [x for x in names if r.random() < 0.6] or [r.choice(names)]
        publish = [x for x in names if r.random() < 0.5]
        revoke = [x for x in names if r.random() < 0.25]
        if r.random() < 0.15:
            sign = sign + [sign[0]]  # repeated name
        if r.random() < 0.1:
            publish = publish + publish[:1]
        r.shuffle(sign)
        sc.schema[slot] = {"publish": publish, "sign": sign, "revoke": revoke}
    # ZSKs: same algorithm family/number as the KSKs
    nz = r.choice([1, 2, 3])
    for zi in range(nz):
        if alg in (13, 14):
            tk = r.choice(K.ec_keys("P-256" if alg == 13 else "P-384"))
        else:
            tk = r.choice(K.rsa_keys(1024))
        # a ZSK never shares key material with a KSK (the signer's uniqueness-by-public-key rule would drop it)
        tries = 0
        while any(tk is k["tk"] for k in sc.ksks.values()) and tries < 50:
            tk = r.choice(K.ec_keys("P-256" if alg == 13 else "P-384") if alg in (13, 14) else K.rsa_keys(1024))
            tries += 1
        sc.zsks.append((f"Z{zi}", tk, alg))
    # distinct key material among ZSKs
    seen = set()
    sc.zsks = [z for z in sc.zsks if not (id(z[1]) in seen or seen.add(id(z[1])))]
    nz = len(sc.zsks)
    for i in range(n):
        cnt = r.choice([1, 1, 2, 3])
        idxs = sorted(r.sample(range(nz), min(cnt, nz)))
        sc.layout.append(idxs)
    sc.zsk_ttl = r.choice([3600, 172800, 0, 86400])
    sc.ksk_ttl = r.choice([172800, 172800, 3600, 7200])
    if n > 1 and r.random() < 0.5:
        sc.schema_listing = list(range(1, n + 1))
        while sc.schema_listing == sorted(sc.schema_listing):
            r.shuffle(sc.schema_listing)
    sc.meta = {"n": n, "alg": alg, "nksk": nksk, "nmod": nmod, "nz": nz, "listing": "shuffled" if sc.schema_listing else "ascending",
               "sub_second": bool(sc.sub_us and any(a or b for a, b in sc.sub_us)), "spellings": spellings,
               "names": "plain" if names == ["ka", "kb", "kc"][:nksk] else "pattern-edge", "labels": "plain" if labels == ["Kka", "Kkb", "Kkc"][:nksk] else "pattern-edge"}
    return sc


def special_scenarios(r: Any) -> list[Scenario]:
    """Scenarios built on keys with particular key-tag properties (fixtures/special.json and crafted public material):
    a KSK whose tag needs the RFC's single fold; a KSK whose revoked tag is tag + 129; two signing KSKs sharing a key tag;
    a ZSK sharing its key tag with a published KSK (same bundle)."""
    import base64

    from kskm.common.data import AlgorithmDNSSEC
    from kskm.common.dnssec import public_key_to_dnssec_key

    sp = K.special()
    out: list[Scenario] = []

    def base(n: int, ksks: list[tuple[str, K.TestKey]], schema_of: Any) -> Scenario:
        sc = Scenario()
        sc.modules = [{"path": "emu0", "pin": "1234", "slots": [{"id": 0}]}]
        spellings: dict[str, dict[str, str]] = {}
        for name, tk in ksks:
            k = {"label": "K" + name, "tk": tk, "alg": 8, "module": "emu0", "slot": 0, "priv_has_pub_attrs": True}
            k["entry"] = C.ksk_config_entry(k["label"], tk, 8, with_tag=True, with_ds=True, hash_using_hsm=r.choice([None, False, True]))
            spellings[name] = respell_entry(r, k["entry"])  # DS capitalisation, window spelling (far from the bundles)
            sc.ksks[name] = k
        for slot in range(1, n + 1):
            sc.schema[slot] = schema_of(slot)
        z = [k for k in K.rsa_keys(1024, 65537) if all(k is not t for _, t in ksks)]
        sc.zsks = [("Z0", z[0], 8), ("Z1", z[1], 8)]
        sc.layout = [[0, 1]] + [[1]] * (n - 1)
        sc.zsk_ttl = r.choice([3600, 172800])
        sc.ksk_ttl = 172800
        sc.meta = {"n": n, "alg": 8, "special": True, "spellings": spellings}
        return sc

    for tk in sp["carry"]:
        sc = base(2, [("ka", tk)], lambda slot: {"publish": ["ka"], "sign": ["ka"], "revoke": []})
        sc.meta["special"] = "carry"
        out.append(sc)
    for tk in sp["revcarry"]:
        other = sp["carry"][0]
        sc = base(3, [("ka", tk), ("kb", other)], lambda slot: {"publish": ["kb"], "sign": ["ka", "kb"], "revoke": ["ka"] if slot == 2 else []} if slot != 3 else {"publish": ["kb"], "sign": ["kb"], "revoke": []})
        sc.meta["special"] = "revcarry"
        out.append(sc)
    for a, b in sp["twins"]:
        sc = base(2, [("ka", a), ("kb", b)], lambda slot: {"publish": ["ka", "kb"], "sign": ["ka", "kb"] if slot == 2 else ["ka"], "revoke": []})
        sc.meta["special"] = "twin-signers"
        out.append(sc)
    # a ZSK with the same key tag as the published KSK, in one bundle of three
    for tk in K.rsa_keys(2048, 65537)[:2]:
        sc = base(3, [("ka", tk)], lambda slot: {"publish": ["ka"], "sign": ["ka"], "revoke": []})
        ktag = public_key_to_dnssec_key(public_key=tk.dnskey_b64(), key_identifier="x", algorithm=AlgorithmDNSSEC(8), ttl=0, flags=257).key_tag
        pk = K.craft_public_key_with_tag(ktag, 256, 8, r)
        sc.extra_zsk_public = [("Ztwin", pk, 8, [1])]
        sc.meta["special"] = "zsk-ksk-same-tag"
        out.append(sc)
    return out


def run_sign(sc: Scenario, what: str = "sign_bundles") -> dict[str, Any]:
    """Run the implementation against the emulator; return everything the checks look at."""
    from kskm.misc.hsm import init_pkcs11_modules
    from kskm.signer import create_skr
    from kskm.signer.sign import sign_bundles

    world = sc.world()
    cfg = sc.config()
    schema = cfg.get_schema("s")
    req = sc.request()
    out: dict[str, Any] = {"world": world, "cfg": cfg, "schema": schema, "req": req, "objs": None}
    with world.installed(), C.Oracles() as orc:

        def go() -> Any:
            p11 = init_pkcs11_modules(cfg)
            if what == "sign_bundles":
                res = list(sign_bundles(req, schema, p11, cfg.ksk_policy, cfg))
            else:
                res = create_skr(req, schema, p11, cfg)
            out["objs"] = res
            return res

        conv = (lambda bs: [C.bundle_sorted_j(b) for b in bs]) if what == "sign_bundles" else response_sorted_j
        out["impl"] = lib.run_impl(go, conv)
        out["oracles"] = orc.take()
    out["log"] = C.canon_log(world.log)
    out["line"] = {
        "op": what,
        "hsm": C.hsm_j(cfg),
        "config": C.signer_config_j(cfg, schema),
        "request": lib.request_j(req),
        "log": out["log"],
        **out["oracles"],
    }
    return out


def response_sorted_j(resp: Any) -> dict[str, Any]:
    import json

    j = lib.response_j(resp) if not isinstance(resp, dict) else dict(resp)
    j["bundles"] = [C.bundle_sorted_j(b) for b in j["bundles"]]
    for p in ("zskPolicy", "kskPolicy"):
        j[p] = dict(j[p], algorithms=sorted(j[p]["algorithms"], key=lambda a: json.dumps(a, sort_keys=True)))
    return j


def canon_model_result(m: Any, what: str = "sign_bundles") -> Any:
    if isinstance(m, dict) and "ok" in m:
        if what == "sign_bundles":
            return {"ok": [C.bundle_sorted_j(b) for b in m["ok"]]}
        return {"ok": response_sorted_j(m["ok"])}
    return m


def compare_with_model(res: lib.Result, runs: list[dict[str, Any]], what: str, tagger: Any = None) -> None:
    """Pipe all runs through the model driver; record disagreements in `res`."""
    outs = lib.run_driver([x["line"] for x in runs], exe=C.DRIVER)
    for x, o in zip(runs, outs):
        if "driver_error" in o:
            res.disagreement(f"{what}: driver error", x.get("case"), x["impl"], o)
            continue
        m = canon_model_result(o["result"], what)
        x["model"] = m
        d = C.first_log_difference(x["log"], o["log"])
        if lib.is_unsupported(m):
            # in these scenarios nothing is outside the modelled domain: "unsupported" means the model left the recorded
            # run (it asked the token, the hash or the verifier something the implementation did not ask)
            res.disagreement(f"{what}: the model could not follow the implementation's run (replay / oracle miss)", x.get("case"), x["impl"], m, log_difference=d)
            continue
        if not lib.same_outcome(x["impl"], m):
            res.disagreement(f"{what}: model result != implementation", x.get("case"), x["impl"], m, log_difference=d)
        elif d is not None:
            res.disagreement(f"{what}: model issues different token operations", x.get("case"), x["impl"], m, log_difference=d)
        elif x["impl"] != m:
            res.soft_error_kind_mismatch += 1


def key_index(tk: K.TestKey) -> Any:
    try:
        return K.all_keys().index(tk)
    except ValueError:
        return "special:" + hex(getattr(tk, "n", 0))[-12:]


def describe(sc: Scenario) -> dict[str, Any]:
    """A replayable, human-readable description of a scenario."""
    return {
        "meta": sc.meta,
        "schema": sc.schema,
        "schema_listing": sc.schema_listing,
        "ksks": {
            n: {kk: (vv if kk not in ("tk",) else {"kind": vv.kind, "bits": getattr(vv, "bits", None), "e": getattr(vv, "e", None), "curve": getattr(vv, "curve", None), "index": key_index(vv)}) for kk, vv in k.items()}
            for n, k in sc.ksks.items()
        },
        "zsks": [(i, key_index(tk), a) for i, tk, a in sc.zsks],
        "extra_zsk_public": [(i, a, idx) for i, _, a, idx in sc.extra_zsk_public],
        "layout": sc.layout,
        "ksk_ttl": sc.ksk_ttl,
        "zsk_ttl": sc.zsk_ttl,
        "modules": sc.modules,
        "plan": {str(k): {kk: (vv if kk != "key" else "other-key") for kk, vv in v.items()} for k, v in sc.plan.items()},
        "start": sc.start.isoformat(),
        "sub_us": sc.sub_us,
    }
