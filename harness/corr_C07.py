"""C07 correspondence: proof of possession — implementation vs. Lean model vs. independent oracles.

Honest bundles with 1..3 real keys (RSA 1024..4096 with exponents 3 / 17 / 65537 / 2^32+1 / odd ones, ECDSA P-256 /
P-384; fixtures/keys.json) are signed by an INDEPENDENT signer: the to-be-signed octets come from dnspython
(`dns.dnssec._make_rrsig_signature_data`), the signature from the fixture's private key.  Every bundle is then
  * presented in every order of keys and signatures (exact orders through list-valued bundles, and as real sets),
  * tampered with in every way the property lists: single-bit flips of one key's public key octets (quick: a sample of
    positions incl. the RFC 3110 length/exponent octets; thorough: every bit), of every signed field (original TTL,
    labels, inception, expiration, key tag, algorithm), of signature octets; key flags / protocol / algorithm; every
    omission and misattribution of a signature; keys added / removed; signatures made over the signer's own key only or
    over a non-canonical RR order; plus controls that must NOT matter (Signature.ttl, Key.ttl, sub-second times,
    Key.key_tag, consistent renaming, an additional valid signature).
Verdicts compared per bundle:
  (a) the expectation by construction: honest / control -> accepted in every order, tampered -> rejected;
  (b) an independent evaluation of the property: dnspython's TBS + `cryptography` called directly on independently
      parsed key numbers, "every signature names a key, verifies; every key has one";
  (c) /repo's `validate_signatures` and `check_proof_of_possession` (and `validate_request` for multi-bundle requests);
  (d) the model (`c07_bundle`, `validate_request`) fed with the RECORDED answers of the real verifier
      (`lib.VerifyRecorder`): the model must ask about exactly the same (key, octets, signature) — a miss makes it answer
      "unsupported", which is reported as a disagreement — and must build the same TBS octets byte for byte.
(c) != (a) or (c) != (b) -> failing input (VIOLATION);  (c) != (d) -> broken tie (disagreement).

Whole REQUESTS (`roll_stream`): 2..9 bundles in the layouts of a ZSK roll (outgoing + current / current alone / current +
incoming; the same two keys throughout; a sliding window of two over four keys; three keys throughout; random), every key
appearing in several bundles under ONE identifier, every bundle signed with its own inception / expiration.  At every
(bundle position, key) pair — in particular at positions AFTER one where the same key signed correctly — one signature is
omitted / misattributed (to nobody, to another key of the bundle) / bit-flipped / replaced by the same key's signature from
ANOTHER bundle / replaced by another key's signature under this key's identifier.  Judged through `validate_request` and
`check_proof_of_possession` on the whole request against (a) construction, (b) the independent oracle applied to every
bundle, (d) the model on the same request (`validate_request`, `ksr_check check_proof_of_possession`).
Whole signature SETS (`set_copy_requests`): at every ordered (source, target) pair of bundle positions — source before and after target — the
target carries a verbatim copy of the source's signature set (the signatures' own inception / expiration included) with (a) the source's
key set: a control that must be ACCEPTED ("with the signature's own stated fields"), (b) any other key set — the target's own different
one, a key added without signature, one key with a modulus bit changed (same / other identifier), one key replaced (same / other
identifier) — which must be REFUSED.  For every whole request the verdict of `check_proof_of_possession` is also compared with the
verdicts of fresh calls on each of its bundles ALONE: the verdict on bundle j must not depend on bundles < j.
Environment independence (`tz_bundle_stream`, `tz_request_stream`; harness/envtz.py): honest bundles and requests whose signature times lie
inside / outside the daylight-saving period of America/New_York, Australia/Lord_Howe, Asia/Kolkata, Europe/Berlin and on a +-1 h lattice
around the DST switches (requests straddle a switch) are judged with the PROCESS time zone switched to that zone (lib.ProcessTZ): honest
ones must be accepted, time fields moved by +-1 s / +-1 h / +- the zone's offset, a flipped signature bit and an omission refused; the
octets /repo builds must equal dnspython's (computed from integers) and the model's; the model must agree on every verdict.
DEGENERATE values (`degenerate_signature_fields`, `degenerate_key_fields`, `degenerate_request_stream`, `xml_degenerate_stream`): besides bit
flips and +-1, every signed field of a signature (signer's name, original TTL, labels, inception, expiration, key tag, algorithm, type
covered), the signature octets, the attribution, and every field of a key (public key octets, flags, protocol, algorithm, identifier) is set
to: the EMPTY string, white space only, the value's prefix / suffix / first character (of the text, of the decimal numeral, of the octet
string), zero, the wire maximum, minus one / the negated value, the octets zero- or 0xFF-filled or zero-extended, swapped / equal / zero
times.  Each must be REFUSED (policy violation or a clean error) -- the signed octets differ or no RRSIG / DNSKEY with such a field exists
-- judged by construction and by the independent oracle (dnspython TBS + `cryptography`; ECDSA signatures must be the fixed-width r | s of
RFC 6605 section 4); fields that are NOT signed (Signature.ttl, Key.ttl, Key.key_tag) are controls that must not matter.  Three levels: single
bundles (`validate_signatures`, `check_proof_of_possession`), whole requests (`validate_request`), and KSR DOCUMENTS: honest requests
rendered as XML text (own renderer) with ONE element text / attribute written at a degenerate value (empty element, white space, truncated
text, `0`, maximum, `-1`, a dateTime without seconds / date only / at the epoch / before it / in year 9999, `dnskey`, `48`, `DS` ...)
through `request_from_xml` + `validate_request`; there the independent reading is ElementTree + XML-Schema lexical rules (`read_field`), and
the honest value written differently (white space around an element text, `Z` for `+00:00`) is a control that must be accepted.
The MULTISET of signers versus the set of keys (`signer_multiset_variants`, `second_signature`): on every honest bundle of two or three keys, and at
every bundle position of the whole requests (every bundle that holds two or more keys), the bundle carries AS MANY OR MORE signatures as it has keys
-- every one valid and made by a key of the bundle (checked with the independent verifier) -- while one key made none of them: key j's signature is
replaced by a SECOND signature of key a at every ordered pair (a, j), distinct from a's first one in a stated field (inception / expiration one second
later, another original TTL) or, for ECDSA, in the randomness alone (the same octets signed again); key a signs three times and key j not at all (more
signatures than keys); key a alone signs n and n + 1 times; key a's signature stands twice VERBATIM in place of key j's (a list keeps both, a real
set collapses them: the control that takes the ordinary "fewer signatures than keys" path).  Presented in exact order (lists) and as real sets.  Each
must be REFUSED with the proof-of-possession violation -- key j never proved possession, however many signatures there are -- judged by construction,
by the independent oracle ("every key has a signature" is a statement about the SET of signers, not about a count) and against the model.
State carried between requests (`pair_stream`): request A, then request B in the SAME process (B re-using A's identifiers
with a signature missing / other key material / other signers / a same-tag stranger key; A tampered and B honest; B == A);
B's verdict must be the property's, the model's, and the verdict of a FRESH process that sees B alone.
"""

from __future__ import annotations

import base64
import itertools
import json
import logging
import os
import subprocess
import sys
from typing import Any

import envtz
import lib
from lib import Result, bundle_j, hexs, request_j, request_policy_j, run_driver, run_impl, same_outcome, us_dt

DRIVER = "kskm_driver_pkga"

ASSUMPTIONS = [
    "RSA PKCS#1 v1.5 and ECDSA as implemented by `cryptography` are unforgeable and SHA-2 collision resistant: a tampered bundle is "
    "expected to be rejected because the to-be-signed octets or the key differ (proved: tbs_injective), not because of a theorem about the primitive",
    "dnspython 2.8 is a correct independent implementation of RFC 4034 section 3.1.8.1 / 6.3",
    "no two keys of a bundle have identical RDATA (an RRset is a set; see DESIGN.md section 5)",
    "XML text path: element text of the simple-typed KSR fields is white-space collapsed (XML Schema), integers are an optional sign and ASCII digits, "
    "times are xsd:dateTime in UTC; a text outside these lexical spaces makes the document malformed (expected: refused)",
    "base64 text that is not canonical (white space only, ...) is outside the Lean model's domain (it answers unsupported); such cases are judged by "
    "construction and by the independent oracle only and are counted",
]
TRUSTED = ["dnspython as TBS oracle and `cryptography` (called directly) as verification oracle in corr_C07",
           "TZ + tzset (lib.ProcessTZ, which verifies libc's localtime follows) as the way to put the process into another time zone"]

SEC = 10**6
INC = 1_500_000_000 * SEC
EXP = INC + 21 * lib.DAY_US

_log = logging.getLogger("corr_C07")

# ---- case representation (plain data, replayable) ------------------------------------------------------------------


def keyspec(k: Any) -> dict[str, Any]:
    return {"id": k.key_identifier, "tag": k.key_tag, "ttl": k.ttl, "flags": k.flags, "protocol": k.protocol, "alg": k.algorithm.value, "pk": k.public_key.decode()}


def mk_key(s: dict[str, Any]) -> Any:
    from kskm.common.data import AlgorithmDNSSEC, Key

    return Key.model_construct(key_identifier=s["id"], key_tag=s["tag"], ttl=s["ttl"], flags=s["flags"], protocol=s["protocol"], algorithm=AlgorithmDNSSEC(s["alg"]), public_key=s["pk"].encode())


def mk_sig(s: dict[str, Any]) -> Any:
    from kskm.common.data import AlgorithmDNSSEC, Signature, TypeDNSSEC

    return Signature.model_construct(
        key_identifier=s["id"], ttl=s["ttl"], type_covered=TypeDNSSEC.DNSKEY, algorithm=AlgorithmDNSSEC(s["alg"]), labels=s["labels"],
        original_ttl=s["ottl"], signature_expiration=us_dt(s["exp"]), signature_inception=us_dt(s["inc"]), key_tag=s["tag"],
        signers_name=s["name"], signature_data=s["sig"].encode(),
    )


def mk_bundle(case: dict[str, Any], bid: str = "b1") -> Any:
    from kskm.ksr.data import RequestBundle

    ks = [mk_key(k) for k in case["keys"]]
    ss = [mk_sig(s) for s in case["sigs"]]
    inc, exp = us_dt(case.get("inc", INC)), us_dt(case.get("exp", EXP))
    if case.get("as_set"):
        return RequestBundle(id=bid, inception=inc, expiration=exp, keys=set(ks), signatures=set(ss), signers=None)
    # list-valued: /repo only iterates, so the visiting order is exactly the listed order
    return RequestBundle.model_construct(id=bid, inception=inc, expiration=exp, keys=ks, signatures=ss, signers=None)


# ---- independent oracles ---------------------------------------------------------------------------------------------


def dns_tbs(sig: dict[str, Any], keys: list[dict[str, Any]]) -> bytes | None:
    """RFC 4034 to-be-signed octets by dnspython; None where no RRSIG with these fields exists (out of wire range, ...)."""
    import dns.dnssec
    import dns.name
    import dns.rdataclass
    import dns.rdatatype
    import dns.rrset
    from dns.rdtypes.ANY.DNSKEY import DNSKEY
    from dns.rdtypes.ANY.RRSIG import RRSIG

    try:
        if sig["name"] != ".":
            return None
        rrset = dns.rrset.RRset(dns.name.root, dns.rdataclass.IN, dns.rdatatype.DNSKEY)
        rrset.update_ttl(sig["ottl"])
        for k in keys:
            rrset.add(DNSKEY(dns.rdataclass.IN, dns.rdatatype.DNSKEY, k["flags"], k["protocol"], k["alg"], base64.b64decode(k["pk"])), ttl=sig["ottl"])
        if len(rrset) != len(keys):
            return None  # identical RDATA twice: not an RRset
        if sig["exp"] < 0 or sig["inc"] < 0:
            return None
        rrsig = RRSIG(dns.rdataclass.IN, dns.rdatatype.RRSIG, dns.rdatatype.DNSKEY, sig["alg"], sig["labels"], sig["ottl"], sig["exp"] // SEC, sig["inc"] // SEC, sig["tag"], dns.name.root, b"")
        return dns.dnssec._make_rrsig_signature_data(rrset, rrsig)
    except Exception:  # noqa: BLE001
        return None


def crypto_verify(k: dict[str, Any], tbs: bytes, sigbytes: bytes) -> bool:
    """`cryptography` called directly on independently parsed key numbers."""
    from cryptography.exceptions import InvalidSignature
    from cryptography.hazmat.primitives import hashes
    from cryptography.hazmat.primitives.asymmetric import ec, padding, rsa
    from cryptography.hazmat.primitives.asymmetric.utils import encode_dss_signature

    blob = base64.b64decode(k["pk"])
    try:
        if k["alg"] in (8, 10):
            if not blob:
                return False
            if blob[0] == 0:
                elen = int.from_bytes(blob[1:3], "big")
                rest = blob[3:]
            else:
                elen = blob[0]
                rest = blob[1:]
            if len(rest) <= elen:
                return False
            pub = rsa.RSAPublicNumbers(int.from_bytes(rest[:elen], "big"), int.from_bytes(rest[elen:], "big")).public_key()
            pub.verify(sigbytes, tbs, padding.PKCS1v15(), hashes.SHA256() if k["alg"] == 8 else hashes.SHA512())
            return True
        if k["alg"] in (13, 14):
            size = 32 if k["alg"] == 13 else 48
            if len(blob) != 2 * size:
                return False
            curve = ec.SECP256R1() if k["alg"] == 13 else ec.SECP384R1()
            pub = ec.EllipticCurvePublicNumbers(int.from_bytes(blob[:size], "big"), int.from_bytes(blob[size:], "big"), curve).public_key()
            # RFC 6605 section 4: r | s, "each integer MUST be encoded as 32 octets" (P-256) / "48 octets" (P-384): any other length is
            # not an ECDSA RRSIG signature field, whatever numbers a lenient reader could make of it
            if len(sigbytes) != 2 * size:
                return False
            half = size
            der = encode_dss_signature(int.from_bytes(sigbytes[:half], "big"), int.from_bytes(sigbytes[half:], "big"))
            pub.verify(der, tbs, ec.ECDSA(hashes.SHA256() if k["alg"] == 13 else hashes.SHA384()))
            return True
    except InvalidSignature:
        return False
    except Exception:  # noqa: BLE001  (not a usable key / signature encoding)
        return False
    return False


def independent_accepts(case: dict[str, Any]) -> bool:
    """The property, evaluated without /repo: every signature names a key of the bundle and verifies under it over the
    whole key set; every key has a signature."""
    keys, sigs = case["keys"], case["sigs"]
    if not keys or not sigs:
        return False
    ids = [k["id"] for k in keys]
    if len(set(ids)) != len(ids):
        return False
    by_id = {k["id"]: k for k in keys}
    for s in sigs:
        k = by_id.get(s["id"])
        if k is None:
            return False
        tbs = dns_tbs(s, keys)
        if tbs is None:
            return False
        try:
            sb = base64.b64decode(s["sig"])
        except Exception:  # noqa: BLE001
            return False
        if not crypto_verify(k, tbs, sb):
            return False
    return all(any(s["id"] == k["id"] for s in sigs) for k in keys)


# ---- honest bundles ------------------------------------------------------------------------------------------------------


def sign(tk: Any, key: dict[str, Any], keys: list[dict[str, Any]], *, over: list[dict[str, Any]] | None = None, ttl: int = 172800, ottl: int | None = None,
         canonical: bool = True, inc: int = INC, exp: int = EXP) -> dict[str, Any]:
    """An RRSIG by `tk` (the private half of `key`) over `over` (default: the whole key set), TBS by dnspython."""
    s = {"id": key["id"], "ttl": ttl, "alg": key["alg"], "labels": 0, "ottl": ttl if ottl is None else ottl, "exp": exp, "inc": inc, "tag": key["tag"], "name": ".", "sig": ""}
    covered = keys if over is None else over
    tbs = dns_tbs(s, covered)
    assert tbs is not None
    if not canonical:
        tbs = noncanonical_tbs(s, covered)
    s["sig"] = base64.b64encode(tk.sign_dnssec(key["alg"], tbs)).decode()
    return s


def rdata(k: dict[str, Any]) -> bytes:
    return bytes([k["flags"] >> 8 & 0xFF, k["flags"] & 0xFF, k["protocol"], k["alg"]]) + base64.b64decode(k["pk"])


def noncanonical_tbs(s: dict[str, Any], keys: list[dict[str, Any]]) -> bytes:
    """the same RRs in DESCENDING canonical order (what a signer that does not sort correctly might sign)"""
    import struct

    hdr = struct.pack("!HBBIIIH", 48, s["alg"], s["labels"], s["ottl"], s["exp"] // SEC, s["inc"] // SEC, s["tag"]) + b"\x00"
    out = hdr
    for rd in sorted((rdata(k) for k in keys), reverse=True):
        out += b"\x00" + struct.pack("!HHIH", 48, 1, s["ottl"], len(rd)) + rd
    return out


def fixture_pool() -> dict[str, list[tuple[Any, int]]]:
    import keys as fx

    pool: dict[str, list[tuple[Any, int]]] = {"rsa1024": [], "rsa2048": [], "rsabig": [], "ec": []}
    for tk in fx.all_keys():
        if tk.kind == "rsa":
            grp = "rsa1024" if tk.bits == 1024 else "rsa2048" if tk.bits == 2048 else "rsabig"
            pool[grp].append((tk, 8))
        else:
            pool["ec"].append((tk, 13 if tk.curve == "P-256" else 14))
    return pool


def honest_bundle(r: Any, members: list[tuple[Any, int]], idstyle: int) -> tuple[dict[str, Any], list[Any]]:
    import keys as fx

    names = [["zsk-c", "zsk-a", "zsk-b"], ["K1", "K2", "K3"], ["zz", "mm", "aa"]][idstyle % 3]
    ks = []
    for i, (tk, alg) in enumerate(members):
        ks.append(keyspec(fx.make_zsk(tk, alg, names[i], ttl=172800)))
    sigs = [sign(tk, k, ks) for (tk, _), k in zip(members, ks)]
    return {"keys": ks, "sigs": sigs}, [tk for tk, _ in members]


def order_facts(case: dict[str, Any]) -> dict[str, bool]:
    ks = case["keys"]
    canon = sorted(range(len(ks)), key=lambda i: rdata(ks[i]))
    by_tag = sorted(range(len(ks)), key=lambda i: ks[i]["tag"])
    by_id = sorted(range(len(ks)), key=lambda i: ks[i]["id"])
    doc = list(range(len(ks)))
    return {"canon!=doc": canon != doc, "canon!=tag": canon != by_tag, "canon!=id": canon != by_id}


def clone(case: dict[str, Any]) -> dict[str, Any]:
    return {"keys": [dict(k) for k in case["keys"]], "sigs": [dict(s) for s in case["sigs"]]}


def flip(b64text: str, bit: int) -> str:
    raw = bytearray(base64.b64decode(b64text))
    raw[bit // 8] ^= 0x80 >> (bit % 8)
    return base64.b64encode(bytes(raw)).decode()


def bit_sample(r: Any, nbits: int, n: int, tier: str, always: list[int]) -> list[int]:
    if tier == "thorough":
        return list(range(nbits))
    pos = set(b for b in always if 0 <= b < nbits)
    while len(pos) < min(n, nbits):
        pos.add(r.randrange(nbits))
    return sorted(pos)


def degenerate_ints(v: int, maximum: int) -> list[tuple[str, int]]:
    """(name, value): the DEGENERATE values of an integer field whose honest value is `v`: zero, the largest value the wire format
    holds, minus one, the negated value, and what remains of the decimal numeral when its last / first digit is dropped or only its
    first digit is kept (a truncated text) -- without `v` itself."""
    d = str(abs(v))
    cand = [("zero", 0), ("max", maximum), ("minus-one", -1), ("negated", -v), ("prefix", int(d[:-1] or "0")), ("suffix", int(d[1:] or "0")), ("first-digit", int(d[0]))]
    out, seen = [], {v}
    for name, x in cand:
        if x not in seen:
            seen.add(x)
            out.append((name, x))
    return out


def degenerate_texts(v: str) -> list[tuple[str, str]]:
    """(name, value): empty, white space only, the text without its last / first character, its first character alone, the text with
    white space put before / after / around it -- without `v` itself.  (At OBJECT level nothing strips white space: every one of them
    is another value.)"""
    cand = [("empty", ""), ("space", " "), ("tab-newline", "\t\n"), ("prefix", v[:-1]), ("suffix", v[1:]), ("first-char", v[:1]), ("leading-space", " " + v),
            ("trailing-space", v + " "), ("trailing-newline", v + "\n"), ("doubled", v + v)]
    out, seen = [], {v}
    for name, x in cand:
        if x not in seen:
            seen.add(x)
            out.append((name, x))
    return out


def degenerate_octets(b64text: str) -> list[tuple[str, str]]:
    """(name, base64 text): degenerate versions of an octet string: none, white space only (decodes to none), first / second half,
    the first octet alone, the last octet dropped from the front, all zero and all 0xFF of the same length"""
    raw = base64.b64decode(b64text)
    enc = lambda b: base64.b64encode(b).decode()  # noqa: E731
    half = len(raw) // 2
    return [("empty", ""), ("space", " "), ("first-half", enc(raw[:half])), ("second-half", enc(raw[half:])), ("first-octet", enc(raw[:1])), ("without-first-octet", enc(raw[1:])),
            ("all-zero", enc(bytes(len(raw)))), ("all-ff", enc(b"\xff" * len(raw))),
            # the same big-endian number(s) in MORE octets: a zero octet in front of the whole / in front of each half
            ("leading-zero-octet", enc(b"\x00" + raw)), ("zero-padded-halves", enc(b"\x00" + raw[:half] + b"\x00" + raw[half:]))]


def ecdsa_same_numbers_other_width(alg: int, honest_b64: str, other_b64: str) -> bool:
    """an ECDSA signature field of ANOTHER LENGTH that a reader splitting the field in the middle turns into the same two numbers (zero
    octets added in front of each half; a leading zero octet of r dropped): not the fixed-width r | s RFC 6605 section 4 prescribes"""
    if alg not in (13, 14):
        return False
    a, b = base64.b64decode(honest_b64), base64.b64decode(other_b64)
    nums = lambda x: (int.from_bytes(x[: len(x) // 2], "big"), int.from_bytes(x[len(x) // 2 :], "big"))  # noqa: E731
    return bool(b) and len(a) != len(b) and nums(a) == nums(b)


def degenerate_signature_fields(s0: dict[str, Any]) -> list[tuple[str, dict[str, Any]]]:
    """(tag, field updates) for the signature spec `s0`: every signed field (and the attribution) at its DEGENERATE values -- empty,
    white space, a prefix / suffix / single character of the honest value, zero, the wire maximum, negative -- tagged `tamper:` (must
    be refused) or, for the one field that is not signed (Signature.ttl), `control:` (must not matter)."""
    out: list[tuple[str, dict[str, Any]]] = []
    for nm, v in degenerate_texts(s0["name"]) + [("two-dots", ".."), ("single-letter", "x"), ("dot-space-dot", ". .")]:
        out.append((f"tamper:degenerate-sig-signers-name:{nm}", {"name": v}))
    for nm, v in degenerate_ints(s0["ottl"], 2**32 - 1):
        out.append((f"tamper:degenerate-sig-original-ttl:{nm}", {"ottl": v}))
    for nm, v in degenerate_ints(s0["labels"], 255):
        out.append((f"tamper:degenerate-sig-labels:{nm}", {"labels": v}))
    for nm, v in degenerate_ints(s0["tag"], 65535):
        out.append((f"tamper:degenerate-sig-key-tag:{nm}", {"tag": v}))
    for fld, tagname in (("inc", "inception"), ("exp", "expiration")):
        for nm, v in degenerate_ints(s0[fld] // SEC, 2**32 - 1):
            out.append((f"tamper:degenerate-sig-{tagname}:{nm}", {fld: v * SEC}))
    out.append(("tamper:degenerate-sig-times:swapped", {"inc": s0["exp"], "exp": s0["inc"]}))
    out.append(("tamper:degenerate-sig-times:both-inception", {"exp": s0["inc"]}))
    out.append(("tamper:degenerate-sig-times:both-zero", {"inc": 0, "exp": 0}))
    for alg in (1, 3, 6, 7, 12, 15, 16):  # the other members of the algorithm registry the data model knows (lowest, highest, ...)
        out.append((f"tamper:degenerate-sig-algorithm:{alg}", {"alg": alg}))
    for nm, v in degenerate_ints(s0["ttl"], 2**32 - 1):
        if nm in ("zero", "max", "prefix"):
            out.append((f"control:degenerate-sig-ttl:{nm}", {"ttl": v}))
    for nm, v in degenerate_octets(s0["sig"]):
        if ecdsa_same_numbers_other_width(s0["alg"], s0["sig"], v):
            out.append((f"tamper:ecdsa-sig-not-fixed-width:{nm}", {"sig": v}))  # an independent validator refuses it: own class
        else:
            out.append((f"tamper:degenerate-sig-octets:{nm}", {"sig": v}))
    for nm, v in degenerate_texts(s0["id"]):
        out.append((f"tamper:degenerate-sig-identifier:{nm}", {"id": v}))
    return out


def degenerate_key_fields(k0: dict[str, Any]) -> list[tuple[str, dict[str, Any]]]:
    """(tag, field updates) for the key spec `k0`: every field of the key at its degenerate values (see degenerate_signature_fields);
    Key.ttl and Key.key_tag are not part of the signed RDATA: controls."""
    out: list[tuple[str, dict[str, Any]]] = []
    for nm, v in degenerate_octets(k0["pk"]):
        out.append((f"tamper:degenerate-key-octets:{nm}", {"pk": v}))
    for nm, v in degenerate_ints(k0["flags"], 65535):
        out.append((f"tamper:degenerate-key-flags:{nm}", {"flags": v}))
    for nm, v in degenerate_ints(k0["protocol"], 255) + [("beyond", 256)]:
        out.append((f"tamper:degenerate-key-protocol:{nm}", {"protocol": v}))
    for alg in (1, 3, 5, 6, 7, 12, 15, 16):
        if alg != k0["alg"]:
            out.append((f"tamper:degenerate-key-algorithm:{alg}", {"alg": alg}))
    for nm, v in degenerate_texts(k0["id"]):
        out.append((f"tamper:degenerate-key-identifier:{nm}", {"id": v}))
    for nm, v in degenerate_ints(k0["ttl"], 2**32 - 1):
        if nm in ("zero", "max", "prefix"):
            out.append((f"control:degenerate-key-ttl:{nm}", {"ttl": v}))  # Key.ttl is not signed: the RRSIG's original TTL is
    for nm, v in degenerate_ints(k0["tag"], 65535):
        if nm in ("zero", "max", "prefix"):
            out.append((f"control:degenerate-key-tag-field-not-in-rdata:{nm}", {"tag": v}))
    return out


SECOND_SIGNATURE_HOWS = ["inception+1s", "expiration+1s", "original-ttl", "same-fields-again"]


def second_signature(tk: Any, key: dict[str, Any], keys: list[dict[str, Any]], first: dict[str, Any], how: str) -> dict[str, Any]:
    """ANOTHER valid signature by the key that made `first`, over the same complete key set: it differs from `first` in one of the
    signature's own stated fields (inception / expiration one second later, another original TTL) or -- `same-fields-again` -- in nothing
    stated at all: the key signs the very same octets once more, which gives other signature octets with ECDSA (fresh randomness) and
    the identical signature with RSA PKCS#1 v1.5 (deterministic; then it is a verbatim duplicate, which a set collapses)."""
    kw: dict[str, Any] = {"inc": first["inc"], "exp": first["exp"], "ttl": first["ttl"], "ottl": first["ottl"]}
    if how == "inception+1s":
        kw["inc"] += SEC
    elif how == "expiration+1s":
        kw["exp"] += SEC
    elif how == "original-ttl":
        kw["ttl"] = kw["ottl"] = 3600 if first["ottl"] != 3600 else 7200
    else:
        assert how == "same-fields-again"
    return sign(tk, key, keys, **kw)


def signer_multiset_variants(keys: list[dict[str, Any]], sigs: list[dict[str, Any]], tks: list[Any], rot: int = 0, dense: bool = True) -> list[tuple[str, list[dict[str, Any]], dict[str, Any]]]:
    """(name, signatures, facts): the MULTISET of signers versus the set of keys.  `sigs[i]` is the honest signature of `keys[i]` (private half
    `tks[i]`) over the whole key set.  Every list returned holds only VALID signatures by keys of the bundle, AT LEAST AS MANY as the
    bundle has keys (except where a set collapses a verbatim duplicate), and yet some key made none of them -- it never proved possession,
    so the bundle must be refused ("each key is accompanied by a signature made with its own private key"):
      * replaced:      the signature of key j is replaced by a second, distinct signature of key a (every ordered pair (a, j); distinct by a stated
                       field, or for ECDSA by randomness alone) -- as many signatures as keys;
      * surplus:       the signature of key j is missing while key a signs three times -- more signatures than keys;
      * one-signer:    key a alone signs, n and n + 1 times (n = number of keys);
      * duplicate:     the signature of key a twice, verbatim, in place of key j's (a list keeps both, a set collapses them)."""
    n = len(keys)
    out: list[tuple[str, list[dict[str, Any]], dict[str, Any]]] = []
    if n < 2:
        return out
    hows = SECOND_SIGNATURE_HOWS
    pairs = [(a, j) for a in range(n) for j in range(n) if a != j]
    for pi, (a, j) in enumerate(pairs):
        # every way of making the second signature at the first pair (dense) / one way, rotating, at the others
        for how in (hows if (dense and pi == 0) else [hows[(rot + pi) % len(hows)]]):
            second = second_signature(tks[a], keys[a], keys, sigs[a], how)
            verbatim = second["sig"] == sigs[a]["sig"] and how == "same-fields-again"
            new = [dict(s) for s in sigs]
            new[j] = second
            out.append((f"replaced:{how}{'(=verbatim,RSA)' if verbatim else ''}:by{a}for{j}", new, {"signatures": n, "keys": n, "signer": a, "without_signature": j, "verbatim": verbatim}))
    a, j = pairs[rot % len(pairs)]
    extra = [second_signature(tks[a], keys[a], keys, sigs[a], h) for h in hows[:2]]
    out.append((f"surplus:three-by{a}-none-by{j}", [dict(s) for i, s in enumerate(sigs) if i != j] + extra, {"signatures": n + 1, "keys": n, "signer": a, "without_signature": j, "verbatim": False}))
    if dense:
        for cnt in (n, n + 1):
            more = [dict(sigs[a])] + [sign(tks[a], keys[a], keys, inc=sigs[a]["inc"] + d * SEC, exp=sigs[a]["exp"], ttl=sigs[a]["ttl"], ottl=sigs[a]["ottl"]) for d in range(1, cnt)]
            out.append((f"one-signer:{cnt}-signatures-all-by{a}", more, {"signatures": cnt, "keys": n, "signer": a, "without_signature": "all others", "verbatim": False}))
    new = [dict(s) for s in sigs]
    new[j] = dict(sigs[a])
    out.append((f"duplicate:verbatim:by{a}for{j}", new, {"signatures": n, "keys": n, "signer": a, "without_signature": j, "verbatim": True}))
    return out


def every_signature_valid(case: dict[str, Any]) -> bool:
    """independent (dnspython + `cryptography`): every signature of the bundle names a key of the bundle and verifies under it over the whole key set"""
    by_id = {k["id"]: k for k in case["keys"]}
    for s in case["sigs"]:
        tbs = dns_tbs(s, case["keys"])
        if s["id"] not in by_id or tbs is None or not crypto_verify(by_id[s["id"]], tbs, base64.b64decode(s["sig"])):
            return False
    return True


def variants(r: Any, case: dict[str, Any], tks: list[Any], tier: str, heavy: bool) -> list[tuple[str, dict[str, Any]]]:
    """(tag, case).  tag prefix: honest / control (must be accepted), tamper (must be rejected)."""
    import keys as fx

    out: list[tuple[str, dict[str, Any]]] = []
    n = len(case["keys"])
    # --- every order of keys and of signatures, exact (lists) and as sets
    perms_k = list(itertools.permutations(range(n)))
    perms_s = list(itertools.permutations(range(n)))
    combos = list(itertools.product(perms_k, perms_s))
    if tier == "quick" and not heavy and len(combos) > 6:
        combos = [combos[0], combos[-1]] + r.sample(combos[1:-1], 4)
    for pk, ps in combos:
        c = {"keys": [dict(case["keys"][i]) for i in pk], "sigs": [dict(case["sigs"][i]) for i in ps]}
        out.append((f"honest:order:{''.join(map(str, pk))}/{''.join(map(str, ps))}", c))
    out.append(("honest:as-set", dict(clone(case), as_set=True)))

    # --- the target key: a small one if there is one
    t = min(range(n), key=lambda i: len(case["keys"][i]["pk"]))
    others = [i for i in range(n) if i != t]
    blob_bits = len(base64.b64decode(case["keys"][t]["pk"])) * 8
    always = [0, 1, 7, 8, 15, 16, 23, 24, 31, 32, blob_bits - 1, blob_bits - 2, blob_bits - 8, blob_bits // 2]
    nk = (40 if heavy else 6)
    for bit in bit_sample(r, blob_bits, nk, tier if heavy else "quick", always if heavy else [0, blob_bits - 1]):
        c = clone(case)
        c["keys"][t]["pk"] = flip(c["keys"][t]["pk"], bit)
        out.append((f"tamper:key-bit:{bit}", c))
    if others:
        # a bit of ANOTHER key than the signer's: that signer's signature must fail too (whole key set is signed)
        o = others[0]
        ob = len(base64.b64decode(case["keys"][o]["pk"])) * 8
        for bit in bit_sample(r, ob, 3, "quick", [ob - 1]):
            c = clone(case)
            c["keys"][o]["pk"] = flip(c["keys"][o]["pk"], bit)
            # keep only the target's signature valid-looking: drop nothing, the bundle must be rejected as a whole
            out.append((f"tamper:other-key-bit:{bit}", c))
    for fl in (257, 385, 0):
        c = clone(case)
        c["keys"][t]["flags"] = fl
        out.append((f"tamper:key-flags:{fl}", c))
    for proto in (2, 0, 255):
        c = clone(case)
        c["keys"][t]["protocol"] = proto
        out.append((f"tamper:key-protocol:{proto}", c))
    c = clone(case)
    c["keys"][t]["alg"] = {8: 10, 10: 8, 13: 14, 14: 13}[c["keys"][t]["alg"]]
    out.append(("tamper:key-alg", c))
    c = clone(case)
    c["keys"][t]["ttl"] += 1
    out.append(("control:key-ttl", c))
    c = clone(case)
    c["keys"][t]["tag"] = (c["keys"][t]["tag"] + 1) % 65536
    out.append(("control:key-tag-field-not-in-rdata", c))
    c = clone(case)
    old = c["keys"][t]["id"]
    c["keys"][t]["id"] = "renamed"
    for s in c["sigs"]:
        if s["id"] == old:
            s["id"] = "renamed"
    out.append(("control:consistent-rename", c))
    c = clone(case)
    c["keys"][t]["id"] = "renamed"
    out.append(("tamper:key-renamed-signature-not", c))

    # --- signed fields of one signature
    si = next(i for i, s in enumerate(case["sigs"]) if s["id"] == case["keys"][t]["id"])

    def with_sig(**kw: Any) -> dict[str, Any]:
        cc = clone(case)
        cc["sigs"][si].update(kw)
        return cc

    s0 = case["sigs"][si]
    for d in (1, -1):
        out.append((f"tamper:sig-original-ttl:{d:+d}", with_sig(ottl=s0["ottl"] + d)))
        out.append((f"tamper:sig-inception:{d:+d}s", with_sig(inc=s0["inc"] + d * SEC)))
        out.append((f"tamper:sig-expiration:{d:+d}s", with_sig(exp=s0["exp"] + d * SEC)))
        out.append((f"tamper:sig-key-tag:{d:+d}", with_sig(tag=(s0["tag"] + d) % 65536)))
    for bit in bit_sample(r, 32, 6 if heavy else 2, tier if heavy else "quick", [0, 31]):
        out.append((f"tamper:sig-original-ttl:bit{bit}", with_sig(ottl=s0["ottl"] ^ (1 << bit))))
        out.append((f"tamper:sig-inception:bit{bit}", with_sig(inc=((s0["inc"] // SEC) ^ (1 << bit)) * SEC)))
        out.append((f"tamper:sig-expiration:bit{bit}", with_sig(exp=((s0["exp"] // SEC) ^ (1 << bit)) * SEC)))
    for bit in bit_sample(r, 16, 4 if heavy else 1, tier if heavy else "quick", [0, 15]):
        out.append((f"tamper:sig-key-tag:bit{bit}", with_sig(tag=s0["tag"] ^ (1 << bit))))
    for lab in (1, 255):
        out.append((f"tamper:sig-labels:{lab}", with_sig(labels=lab)))
    for alg in (8, 10, 13, 14, 5):
        if alg != s0["alg"]:
            out.append((f"tamper:sig-algorithm:{alg}", with_sig(alg=alg)))
    out.append(("tamper:sig-signers-name", with_sig(name="example.")))
    for beyond, kw in (("ottl", {"ottl": 2**32}), ("ottl-neg", {"ottl": -1}), ("labels", {"labels": 256}), ("tag", {"tag": 65536}), ("exp", {"exp": 2**32 * SEC})):
        out.append((f"tamper:sig-beyond-wire-range:{beyond}", with_sig(**kw)))
    out.append(("control:sig-ttl", with_sig(ttl=s0["ttl"] + 1)))
    out.append(("control:sig-subsecond-inception", with_sig(inc=s0["inc"] + 999_999)))
    out.append(("control:sig-subsecond-expiration", with_sig(exp=s0["exp"] + 1)))

    # --- DEGENERATE values of every signed field of the signature and of every field of the key (not a bit flip, not +-1): each
    # must be refused -- the signed octets differ, or no RRSIG / DNSKEY with such a field exists -- and a field that is not signed
    # (Signature.ttl, Key.ttl, Key.key_tag) must not matter
    for dtag, kw in degenerate_signature_fields(s0):
        out.append((dtag, with_sig(**kw)))
    for dtag, kw in degenerate_key_fields(case["keys"][t]):
        cc = clone(case)
        cc["keys"][t].update(kw)
        out.append((dtag, cc))

    # --- signature octets
    sig_bits = len(base64.b64decode(s0["sig"])) * 8
    for bit in bit_sample(r, sig_bits, 24 if heavy else 4, tier if heavy else "quick", [0, 7, 8, sig_bits - 1, sig_bits // 2]):
        out.append((f"tamper:sig-bit:{bit}", with_sig(sig=flip(s0["sig"], bit))))
    raw = base64.b64decode(s0["sig"])
    out.append(("tamper:sig-truncated", with_sig(sig=base64.b64encode(raw[:-1]).decode())))
    out.append(("tamper:sig-extended", with_sig(sig=base64.b64encode(raw + b"\x00").decode())))
    out.append(("tamper:sig-zero", with_sig(sig=base64.b64encode(bytes(len(raw))).decode())))
    out.append(("tamper:sig-empty", with_sig(sig="")))

    # --- omission
    for i in range(n):
        c = clone(case)
        del c["sigs"][i]
        out.append((f"tamper:omit-signature:{i}", c))
    c = clone(case)
    c["sigs"] = []
    out.append(("tamper:omit-all-signatures", c))
    # --- misattribution
    for i in range(n):
        c = clone(case)
        c["sigs"][i]["id"] = "nobody"
        out.append((f"tamper:misattributed:unknown:{i}", c))
        for j in range(n):
            if j != i:
                c = clone(case)
                c["sigs"][i]["id"] = case["keys"][[k["id"] for k in case["keys"]].index(case["sigs"][j]["id"])]["id"]
                out.append((f"tamper:misattributed:to-other-key:{i}->{j}", c))
    if n >= 2:
        c = clone(case)
        c["sigs"][0]["id"], c["sigs"][1]["id"] = c["sigs"][1]["id"], c["sigs"][0]["id"]
        out.append(("tamper:misattributed:swapped", c))
    # --- additional signatures
    c = clone(case)
    extra = sign(tks[t], case["keys"][t], case["keys"], ttl=3600, ottl=3600)
    c["sigs"].append(extra)
    out.append(("control:additional-valid-signature", c))
    c = clone(case)
    bad = dict(extra, sig=flip(extra["sig"], 9))
    c["sigs"].append(bad)
    out.append(("tamper:additional-invalid-signature", c))
    # --- the MULTISET of signers versus the set of keys: as many (or more) valid signatures as keys, all by keys of the bundle, and yet one
    # key made none of them -- presented in exact order (lists) and as real sets (which collapse a verbatim duplicate)
    for name, sigs2, _facts in signer_multiset_variants(case["keys"], case["sigs"], tks, rot=r.randrange(12), dense=True):
        c = clone(case)
        c["sigs"] = sigs2
        out.append((f"tamper:signer-multiset:{name}", c))
        out.append((f"tamper:signer-multiset:{name}:as-set", dict(clone(c), as_set=True)))
    # --- the key set
    pool = fixture_pool()
    present = {k["pk"] for k in case["keys"]}
    stranger_tk, stranger_alg = r.choice([m for m in pool["rsa1024"] if m[0].dnskey_b64().decode() not in present])
    stranger = keyspec(fx.make_zsk(stranger_tk, stranger_alg, "stranger"))
    c = clone(case)
    c["keys"].append(stranger)
    out.append(("tamper:key-added-unsigned", c))
    c = clone(case)
    c["keys"].append(stranger)
    c["sigs"].append(sign(stranger_tk, stranger, c["keys"]))
    out.append(("tamper:key-added-with-own-signature-others-stale", c))
    c = clone(case)
    c["keys"].append(stranger)
    c["sigs"] = [sign(tk, k, c["keys"]) for tk, k in zip(tks + [stranger_tk], c["keys"])]
    out.append(("honest:key-added-all-resigned", c))
    # an ADDITIONAL signature naming no key of the bundle (every key still has its valid signature)
    c = clone(case)
    c["sigs"].append(dict(extra, id="nobody"))
    out.append(("tamper:additional-signature-naming-no-key", c))
    c = clone(case)
    c["sigs"].insert(0, dict(sign(stranger_tk, stranger, case["keys"]), id="stranger"))
    out.append(("tamper:additional-signature-by-a-key-not-in-the-bundle", c))
    # two keys under ONE identifier, one signature (by one of them) carrying it: the other key has not proved possession
    for pos in ("last", "first"):
        c = clone(case)
        imposter = dict(stranger, id=case["keys"][t]["id"])
        if pos == "last":
            c["keys"].append(imposter)
        else:
            c["keys"].insert(0, imposter)
        signer_of = {k["pk"]: tk for tk, k in zip(tks, case["keys"])}
        new_sigs = []
        for k in case["keys"]:
            if k["id"] == imposter["id"]:
                new_sigs.append(sign(stranger_tk, imposter, c["keys"]))
            else:
                new_sigs.append(sign(signer_of[k["pk"]], k, c["keys"]))
        c["sigs"] = new_sigs
        out.append((f"tamper:two-keys-one-identifier-signed-by-the-{pos}", c))
    if n >= 2:
        c = clone(case)
        del c["keys"][others[0]]
        out.append(("tamper:key-removed-signature-kept", c))
        c = clone(case)
        gone = c["keys"][others[0]]["id"]
        del c["keys"][others[0]]
        c["sigs"] = [s for s in c["sigs"] if s["id"] != gone]
        out.append(("tamper:key-and-signature-removed-others-stale", c))
        # each key signs ONLY ITSELF: proves possession of each key, but not over the whole key set
        c = clone(case)
        c["sigs"] = [sign(tk, k, c["keys"], over=[k]) for tk, k in zip(tks, c["keys"])]
        out.append(("tamper:self-signed-only", c))
        # only ONE signer covers its own key only
        c = clone(case)
        c["sigs"][si] = sign(tks[t], case["keys"][t], c["keys"], over=[case["keys"][t]])
        out.append(("tamper:one-signature-over-own-key-only", c))
        # signed over the right set but in non-canonical RR order
        if sorted(rdata(k) for k in case["keys"]) != sorted((rdata(k) for k in case["keys"]), reverse=True):
            c = clone(case)
            c["sigs"] = [sign(tk, k, c["keys"], canonical=False) for tk, k in zip(tks, c["keys"])]
            out.append(("tamper:signed-in-non-canonical-order", c))
        # duplicate identifier
        c = clone(case)
        c["keys"][others[0]]["id"] = c["keys"][t]["id"]
        out.append(("tamper:duplicate-key-identifier", c))
    c = clone(case)
    c["keys"] = []
    out.append(("tamper:no-keys", c))
    return out


def outside_model_base64(specs: list[dict[str, Any]]) -> bool:
    """True when a key / signature text of these bundle cases is not CANONICAL base64 (white space, other characters Python's
    non-validating b64decode skips, missing padding): the Lean model keeps such text outside its domain and answers "unsupported"
    (DESIGN.md section 3, bytes and text); the case is then judged by the specification alone and counted."""
    for c in specs:
        for t in [k["pk"] for k in c["keys"]] + [g["sig"] for g in c["sigs"]]:
            try:
                if base64.b64encode(base64.b64decode(t, validate=True)).decode() != t:
                    return True
            except Exception:  # noqa: BLE001
                return True
    return False


def expected_accept(tag: str) -> bool:
    return tag.startswith(("honest", "control"))


def dedupe(records: list[dict[str, Any]]) -> list[dict[str, Any]]:
    seen = set()
    out = []
    for e in records:
        key = (e["algorithm"], e["publicKey"], e["message"], e["signature"])
        if key not in seen:
            seen.add(key)
            out.append(e)
    return out


def one_bundle_request(bundle: Any) -> tuple[Any, Any]:
    from kskm.common.config_misc import RequestPolicy
    from kskm.common.data import SignaturePolicy
    from kskm.ksr.data import Request

    req = Request.model_construct(id="req", serial=1, domain=".", timestamp=None, zsk_policy=SignaturePolicy(), bundles=[bundle], xml_filename=None, xml_hash=None)
    return req, RequestPolicy(validate_signatures=True)


def evaluate_bundle(rec: Any, case: dict[str, Any]) -> dict[str, Any]:
    """run /repo on one bundle; returns outcomes, the recorded verifier answers and the TBS /repo builds per signature"""
    from kskm.common.signature import make_raw_rrsig, validate_signatures
    from kskm.ksr.verify_bundles import check_proof_of_possession

    bundle = mk_bundle(case)
    rec.take()
    with envtz.zone(case.get("tz")):  # the process time zone this case is to be judged under (None: as the process is)
        vs = run_impl(lambda: validate_signatures(bundle))
        req, pol = one_bundle_request(bundle)
        pop = run_impl(lambda: check_proof_of_possession(req, pol, _log))
        records = dedupe(rec.take())
        tbs = [run_impl(lambda s=s: make_raw_rrsig(s, bundle.keys), hexs) for s in bundle.signatures]
    return {"bundle": bundle, "validate_signatures": vs, "check_proof_of_possession": pop, "records": records, "tbs": tbs}


# ---- whole requests: keys that appear in several bundles ---------------------------------------------------------------

STEP = 10 * lib.DAY_US


def declared_algorithms(ks: list[dict[str, Any]]) -> set[Any]:
    from kskm.common.data import AlgorithmDNSSEC, AlgorithmPolicyECDSA, AlgorithmPolicyRSA

    out = set()
    for k in ks:
        blob = base64.b64decode(k["pk"])
        if k["alg"] in (8, 10):
            elen = blob[0]
            out.add(AlgorithmPolicyRSA(bits=(len(blob) - 1 - elen) * 8, exponent=int.from_bytes(blob[1 : 1 + elen], "big"), algorithm=AlgorithmDNSSEC(k["alg"])))
        else:
            out.add(AlgorithmPolicyECDSA(bits=256 if k["alg"] == 13 else 384, algorithm=AlgorithmDNSSEC(k["alg"])))
    return out


def build_request(bundles: list[dict[str, Any]], flag: bool = True, rid: str = "req") -> tuple[Any, Any]:
    """The repo Request (real sets) of a list of bundle cases, and a policy under which proof of possession is the only rule
    that can object (key rules on and satisfied by honest material; calendar / count-per-slot rules off)."""
    from kskm.common.config_misc import RequestPolicy
    from kskm.common.data import SignaturePolicy
    from kskm.ksr.data import Request

    bs = [mk_bundle(dict(c, as_set=True), bid=f"b{bi}") for bi, c in enumerate(bundles)]
    allk = [k for c in bundles for k in c["keys"]]
    req = Request(id=rid, serial=1, domain=".", timestamp=None, zsk_policy=SignaturePolicy(algorithms=declared_algorithms(allk)), bundles=bs)
    policy = RequestPolicy(
        num_bundles=len(bs), validate_signatures=flag, keys_match_zsk_policy=True, enable_unsupported_ecdsa=True, check_cycle_length=False,
        check_bundle_overlap=False, signature_algorithms_match_zsk_policy=False, signature_validity_match_zsk_policy=False,
        check_keys_match_ksk_operator_policy=False, signature_check_expire_horizon=False, check_bundle_intervals=False,
    )
    return req, policy


def roll_layouts(nb: int, r: Any) -> list[tuple[str, list[list[int]]]]:
    """(name, key indices per bundle): which of the request's keys each bundle holds"""
    out = [
        ("zsk-roll", [[0, 1]] + [[1]] * (nb - 2) + [[1, 2]]),  # outgoing + current, current alone, current + incoming
        ("same-two-throughout", [[0, 1]] * nb),
        ("sliding-window", [[i * 3 // nb, i * 3 // nb + 1] for i in range(nb)]),  # two of four keys, the window moves on
    ]
    if nb <= 3:
        out.append(("three-throughout", [[0, 1, 2]] * nb))
    rnd = []
    for i in range(nb):
        cnt = r.choice([1, 2, 2, 3])
        rnd.append(sorted(r.sample(range(4), cnt)))
    out.append(("random", rnd))
    return out


def honest_request(members: list[tuple[Any, int]], layout: list[list[int]], names: list[str] | None = None, start: int = INC) -> list[dict[str, Any]]:
    """bundle cases: bundle i holds the keys layout[i] (one identifier per key throughout), incepts at INC + i * 10 d, and every
    key of the bundle signs the bundle's whole key set with the bundle's own times"""
    import keys as fx

    names = names or [f"zsk-{'cadb'[i]}" for i in range(len(members))]
    specs = [keyspec(fx.make_zsk(tk, alg, names[i], ttl=172800)) for i, (tk, alg) in enumerate(members)]
    out = []
    for bi, idx in enumerate(layout):
        ks = [dict(specs[i]) for i in idx]
        inc, exp = start + bi * STEP, start + (EXP - INC) + bi * STEP
        out.append({"keys": ks, "sigs": [sign(members[i][0], specs[i], ks, inc=inc, exp=exp) for i in idx], "inc": inc, "exp": exp, "members": list(idx)})
    return out


def clone_request(bundles: list[dict[str, Any]]) -> list[dict[str, Any]]:
    return [dict(clone(b), inc=b["inc"], exp=b["exp"], members=list(b["members"])) for b in bundles]


def tampered_requests(r: Any, bundles: list[dict[str, Any]], members: list[tuple[Any, int]], tier: str) -> list[tuple[str, int, int, list[dict[str, Any]]]]:
    """(kind, bundle position, key index, request): ONE signature of ONE key in ONE bundle is missing / misattributed / altered /
    taken from elsewhere; everything else stays honest."""
    out = []
    nb = len(bundles)
    positions = list(range(nb)) if (tier == "thorough" or nb <= 4) else sorted({0, 1, nb // 2, nb - 2, nb - 1})
    for b in positions:
        if len(bundles[b]["keys"]) >= 2:
            # the MULTISET of signers versus the set of keys, at this bundle position: as many (or more) valid signatures as the bundle has keys, all by
            # keys of the bundle, one key without any (its signature replaced by a second, distinct signature of another key; another key signing
            # three times; a verbatim duplicate, which the set collapses)
            ks = bundles[b]["keys"]
            aligned = [next(x for x in bundles[b]["sigs"] if x["id"] == k["id"]) for k in ks]
            for name, sigs2, f in signer_multiset_variants(ks, aligned, [members[m][0] for m in bundles[b]["members"]], rot=b, dense=False):
                c = clone_request(bundles)
                c[b]["sigs"] = sigs2
                out.append((f"signer-multiset:{name}", b, bundles[b]["members"][f["without_signature"]], c))
        for slot, ki in enumerate(bundles[b]["members"]):
            ident = bundles[b]["keys"][slot]["id"]
            si = next(i for i, sg in enumerate(bundles[b]["sigs"]) if sg["id"] == ident)

            def variant() -> tuple[list[dict[str, Any]], dict[str, Any]]:
                c = clone_request(bundles)
                return c, c[b]["sigs"][si]

            c, sg = variant()
            del c[b]["sigs"][si]
            out.append(("omit", b, ki, c))
            c, sg = variant()
            sg["sig"] = flip(sg["sig"], r.randrange(len(base64.b64decode(sg["sig"])) * 8))
            out.append(("sig-bit", b, ki, c))
            c, sg = variant()
            sg["id"] = "nobody"
            out.append(("misattributed-unknown", b, ki, c))
            if len(bundles[b]["keys"]) >= 2:
                c, sg = variant()
                sg["id"] = next(k["id"] for k in bundles[b]["keys"] if k["id"] != ident)
                out.append(("misattributed-to-other-key", b, ki, c))
            elsewhere = [b2 for b2 in range(nb) if b2 != b and ki in bundles[b2]["members"]]
            if elsewhere:
                # the same key's (valid) signature from ANOTHER bundle (the nearest earlier one, and one with another key set): other times
                # (the property lets a signature speak for itself — "with the signature's own stated fields" — so over the SAME key set
                # it still proves possession: a control that must be accepted; over another key set it must be refused)
                for b2 in {max([x for x in elsewhere if x < b], default=elsewhere[0]), next((x for x in elsewhere if bundles[x]["members"] != bundles[b]["members"]), elsewhere[0])}:
                    c, sg = variant()
                    c[b]["sigs"][si] = dict(next(x for x in bundles[b2]["sigs"] if x["id"] == ident))
                    same = sorted(bundles[b2]["members"]) == sorted(bundles[b]["members"])
                    out.append((f"{'control-' if same else ''}signature-from-{'earlier' if b2 < b else 'later'}-bundle-with-{'the-same' if same else 'another'}-key-set", b, ki, c))
            other = next((j for j in range(len(members)) if j != ki and members[j][1] == members[ki][1]), None)
            if other is not None:
                # made by ANOTHER key's private half, carrying this key's identifier and tag
                c, sg = variant()
                forged = sign(members[other][0], bundles[b]["keys"][slot], bundles[b]["keys"], inc=bundles[b]["inc"], exp=bundles[b]["exp"])
                c[b]["sigs"][si] = forged
                out.append(("signed-by-another-key", b, ki, c))
    return out


def flipped_key(k: dict[str, Any], r: Any, ident: str | None = None) -> dict[str, Any]:
    """`k` with ONE bit of its key material changed (RSA: a bit inside the modulus, so that size and exponent stay what the ZSK policy
    declares), the key tag recomputed (RFC 4034 App. B transcription in harness/keys.py), optionally under another identifier"""
    import keys as fx

    blob = bytearray(base64.b64decode(k["pk"]))
    lo = (1 + blob[0]) * 8 + 8 if k["alg"] in (8, 10) else 0
    bit = r.randrange(lo, len(blob) * 8 - 8)
    blob[bit // 8] ^= 0x80 >> (bit % 8)
    out = dict(k, pk=base64.b64encode(bytes(blob)).decode())
    out["tag"] = fx.rfc4034_key_tag(rdata(out))
    if ident is not None:
        out["id"] = ident
    return out


def set_copy_requests(r: Any, bundles: list[dict[str, Any]], members: list[tuple[Any, int]], specs_all: list[dict[str, Any]], stranger: dict[str, Any], tier: str) -> list[tuple[str, int, int, list[dict[str, Any]], str | None]]:
    """(kind, source, target, request, other rule that may object first): bundle `target` carries a VERBATIM copy of the whole signature
    SET of the (valid) bundle `source` -- the signatures' own inception / expiration included -- at every ordered (source, target) pair,
    source before AND after target.  With the SAME key set as the source the copied signatures still prove possession over the
    bundle's complete key set with their own stated fields: a control that must be accepted.  With any other key set (the target's own,
    different one; a key added without a signature; one key with a bit changed; one key replaced) the request must be refused: the
    verdict on a bundle depends on its keys AND its signatures, never on signatures seen in another bundle."""
    out: list[tuple[str, int, int, list[dict[str, Any]], str | None]] = []
    nb = len(bundles)
    positions = list(range(nb)) if (tier == "thorough" or nb <= 4) else sorted({0, 1, nb // 2, nb - 1})
    for src in positions:
        for tgt in positions:
            if src == tgt:
                continue
            skeys = bundles[src]["keys"]

            def variant(keys: list[dict[str, Any]]) -> list[dict[str, Any]]:
                c = clone_request(bundles)
                c[tgt]["keys"] = [dict(k) for k in keys]
                c[tgt]["sigs"] = [dict(sg) for sg in bundles[src]["sigs"]]  # verbatim
                c[tgt]["members"] = []
                return c

            ks = [dict(k) for k in skeys]
            r.shuffle(ks)
            out.append(("control-set-copy:same-key-set", src, tgt, variant(ks), None))
            if sorted(bundles[src]["members"]) != sorted(bundles[tgt]["members"]):
                out.append(("set-copy:target-keeps-its-own-key-set", src, tgt, variant(bundles[tgt]["keys"]), None))
            absent = [sp for sp in specs_all if sp["id"] not in {k["id"] for k in skeys}]
            extra = r.choice(absent) if absent and r.random() < 0.7 else stranger  # a key of the request that the source lacks, or a key seen nowhere else
            pos = r.randrange(len(skeys) + 1)
            out.append(("set-copy:key-added-without-signature", src, tgt, variant(skeys[:pos] + [extra] + skeys[pos:]), None))
            vi = r.randrange(len(skeys))
            heavy = tier == "thorough" or nb <= 3 or (src + tgt) % 2 == 0
            out.append(("set-copy:key-bit-changed-same-identifier", src, tgt, variant(skeys[:vi] + [flipped_key(skeys[vi], r)] + skeys[vi + 1 :]), "bundleKeys"))
            if heavy:
                out.append(("set-copy:key-bit-changed-other-identifier", src, tgt, variant(skeys[:vi] + [flipped_key(skeys[vi], r, ident=skeys[vi]["id"] + "-x")] + skeys[vi + 1 :]), None))
                out.append(("set-copy:key-replaced", src, tgt, variant(skeys[:vi] + [extra] + skeys[vi + 1 :]), None))
                out.append(("set-copy:key-replaced-same-identifier", src, tgt, variant(skeys[:vi] + [dict(stranger, id=skeys[vi]["id"])] + skeys[vi + 1 :]), "bundleKeys"))
    return out


def strip_request(bundles: list[dict[str, Any]]) -> list[dict[str, Any]]:
    return [{"keys": b["keys"], "sigs": b["sigs"], "inc": b["inc"], "exp": b["exp"]} for b in bundles]


def evaluate_request(rec: Any, bundles: list[dict[str, Any]], flag: bool = True, tz: str | None = None, per_bundle: bool = True) -> dict[str, Any]:
    """/repo on a whole request: validate_request and check_proof_of_possession, with the verifier's answers recorded"""
    from kskm.ksr.validate import validate_request
    from kskm.ksr.verify_bundles import check_proof_of_possession

    req, policy = build_request(bundles, flag)
    rec.take()
    with envtz.zone(tz):
        vr = run_impl(lambda: validate_request(req, policy))
        pop = run_impl(lambda: check_proof_of_possession(req, policy, _log))
        records = dedupe(rec.take())
        # every bundle judged ON ITS OWN by a fresh call (a one-bundle request): nothing can be carried over from the bundles before it
        alone = [run_impl(lambda b=b: check_proof_of_possession(req.replace(bundles=[b]), policy, _log)) for b in req.bundles] if per_bundle else None
        rec.take()
    return {"validate_request": vr, "check_proof_of_possession": pop, "records": records, "req": req, "policy": policy, "per_bundle": alone}


def request_lines(ev: dict[str, Any]) -> list[dict[str, Any]]:
    rj, pj = request_j(ev["req"]), request_policy_j(ev["policy"])
    return [
        {"op": "validate_request", "request": rj, "policy": pj, "now": 0, "verify": ev["records"]},
        {"op": "ksr_check", "check": "check_proof_of_possession", "request": rj, "policy": pj, "now": 0, "verify": ev["records"]},
    ]


def roll_stream(r: Any, tier: str, pool: dict[str, list[tuple[Any, int]]]) -> list[tuple[str, list[dict[str, Any]], bool, dict[str, Any]]]:
    """(tag, request, expected accept, facts)"""
    out = []
    sizes = [2, 3, 4, 9, r.choice([5, 6, 7, 8])] if tier == "quick" else list(range(2, 10))
    for nb in sizes:
        for li, (lname, layout) in enumerate(roll_layouts(nb, r)):
            if (nb + li) % 4 == 3:
                e1, e2 = r.sample(pool["ec"], 2)
                members = [r.choice(pool["rsa1024"]), e1, r.choice(pool["rsa2048"]), e2]
                mname = "mixed"
            elif (nb + li) % 4 == 1 and nb <= 4:
                members = [(tk, 10) for tk, _ in r.sample(pool["rsa1024"], 4)]
                mname = "rsa1024-sha512"
            else:
                members = r.sample(pool["rsa1024"], 4)
                mname = "rsa1024"
            base = honest_request(members, layout)
            plan = f"{lname}/{nb}/{mname}"
            out.append((f"roll:honest|{plan}", strip_request(base), True, {"nb": nb}))
            shuffled = clone_request(base)
            for bcase in shuffled:
                r.shuffle(bcase["keys"])
                r.shuffle(bcase["sigs"])
            out.append((f"roll:honest:shuffled|{plan}", strip_request(shuffled), True, {"nb": nb}))
            for kind, b, ki, c in tampered_requests(r, base, members, tier):
                earlier = any(ki in base[b2]["members"] for b2 in range(b))
                later = any(ki in base[b2]["members"] for b2 in range(b + 1, nb))
                facts = {"nb": nb, "bundle": b, "key": ki, "same_key_signed_correctly_earlier": earlier, "same_key_signs_later": later, "bundle_holds_other_keys_too": len(base[b]["keys"]) >= 2}
                out.append((f"roll:{kind}:b{b}of{nb}:k{ki}|{plan}", strip_request(c), kind.startswith("control-"), facts))
            # whole signature SETS copied verbatim from one bundle into another, at every (source, target) pair
            import keys as fx

            used = {sp["pk"] for bcase in base for sp in bcase["keys"]}
            specs_all = list({k["id"]: k for bcase in base for k in bcase["keys"]}.values())
            stk, salg = r.choice([m for m in pool["rsa1024"] if m[0].dnskey_b64().decode() not in used])
            stranger = keyspec(fx.make_zsk(stk, salg, "stranger", ttl=172800))
            for kind, src, tgt, c, other_rule in set_copy_requests(r, base, members, specs_all, stranger, tier):
                facts = {"nb": nb, "source": src, "target": tgt, "source_before_target": src < tgt, "other_rule_may_object_first": other_rule,
                         "source_keys": len(base[src]["keys"]), "target_keys": len(c[tgt]["keys"])}
                out.append((f"roll:{kind}:b{src}->b{tgt}of{nb}|{plan}", strip_request(c), kind.startswith("control-"), facts))
    return out


# ---- degenerate field values in whole requests (objects) and in KSR documents (XML text) ---------------------------------------


def degenerate_request_stream(r: Any, tier: str, pool: dict[str, list[tuple[Any, int]]]) -> list[tuple[str, list[dict[str, Any]], bool, dict[str, Any]]]:
    """(tag, request, expected accept, facts): whole requests in which ONE signature of one bundle (first / last bundle) has one signed
    field -- or its attribution -- at a degenerate value (degenerate_signature_fields), everything else honest; through validate_request."""
    out = []
    plans = [("zsk-roll/3/rsa1024", r.sample(pool["rsa1024"], 3), [[0, 1], [1], [1, 2]]),
             ("same-two-throughout/2/mixed", [r.choice(pool["ec"]), r.choice(pool["rsa1024"])], [[0, 1], [0, 1]])]
    for plan, members, layout in plans:
        base = honest_request(members, layout)
        nb = len(base)
        for b in (0, nb - 1):
            si = 0
            for dtag, kw in degenerate_signature_fields(base[b]["sigs"][si]):
                cls, what, nm = dtag.split(":", 2)
                c = clone_request(base)
                c[b]["sigs"][si].update(kw)
                facts = {"nb": nb, "degenerate": what, "value": nm, "in_bundle": b}
                out.append((f"degen:{'control-' if cls == 'control' else ''}{what}:{nm}:b{b}of{nb}|{plan}", strip_request(c), cls == "control", facts))
    return out


XML_INC = INC + 7 * SEC  # 2017-07-14T02:40:07Z: no calendar field of it is zero, so that a truncated text never denotes the same instant


def xml_time(us: int) -> str:
    import time as _t

    assert us % SEC == 0
    return _t.strftime("%Y-%m-%dT%H:%M:%S", _t.gmtime(us // SEC)) + "+00:00"  # gmtime: pure arithmetic, no zone


# (spec field, XML element or attribute, lexical kind, signed?)   kinds: uint / time / type / name / b64 / id
XML_SIG_FIELDS = [("id", "@keyIdentifier", "id", True), ("ttl", "TTL", "uint", False), ("type", "TypeCovered", "type", True), ("alg", "Algorithm", "uint", True),
                  ("labels", "Labels", "uint", True), ("ottl", "OriginalTTL", "uint", True), ("exp", "SignatureExpiration", "time", True),
                  ("inc", "SignatureInception", "time", True), ("tag", "KeyTag", "uint", True), ("name", "SignersName", "name", True), ("sig", "SignatureData", "b64", True)]
XML_KEY_FIELDS = [("id", "@keyIdentifier", "id", True), ("tag", "@keyTag", "uint", "other-rule"), ("ttl", "TTL", "uint", False), ("flags", "Flags", "uint", True),
                  ("protocol", "Protocol", "uint", True), ("alg", "Algorithm", "uint", True), ("pk", "PublicKey", "b64", True)]
UINT_MAX = {"ttl": 2**32 - 1, "ottl": 2**32 - 1, "labels": 255, "tag": 65535, "alg": 255, "flags": 65535, "protocol": 255}


def honest_text(spec: dict[str, Any], field: str, kind: str) -> str:
    if kind == "time":
        return xml_time(spec[field])
    if kind == "type":
        return "DNSKEY"
    return str(spec[field])


def render_ksr(bundles: list[dict[str, Any]], override: tuple[int, str, int, str, str] | None = None, rid: str = "xml-req") -> str:
    """A KSR document for a list of bundle cases, in the plain layout of the reference clients; written from the case data alone (no
    /repo code).  `override` = (bundle, "key" | "sig", index, spec field, RAW TEXT): that one element text / attribute value is written
    as given instead of the honest text."""
    allk = {k["id"]: k for b in bundles for k in b["keys"]}
    algs = []
    seen = set()
    for k in allk.values():
        blob = base64.b64decode(k["pk"])
        if k["alg"] in (8, 10):
            elen = blob[0]
            item = f'<SignatureAlgorithm algorithm="{k["alg"]}"><RSA size="{(len(blob) - 1 - elen) * 8}" exponent="{int.from_bytes(blob[1 : 1 + elen], "big")}"/></SignatureAlgorithm>'
        else:
            item = f'<SignatureAlgorithm algorithm="{k["alg"]}"><ECDSA size="{256 if k["alg"] == 13 else 384}"/></SignatureAlgorithm>'
        if item not in seen:
            seen.add(item)
            algs.append(item)
    out = ['<?xml version="1.0" encoding="UTF-8"?>', f'<KSR id="{rid}" domain="." serial="1">', "<Request>", "<RequestPolicy>", "<ZSK>",
           "<PublishSafety>P10D</PublishSafety>", "<RetireSafety>P10D</RetireSafety>", "<MaxSignatureValidity>P21D</MaxSignatureValidity>",
           "<MinSignatureValidity>P21D</MinSignatureValidity>", "<MaxValidityOverlap>P12D</MaxValidityOverlap>", "<MinValidityOverlap>P9D</MinValidityOverlap>",
           *algs, "</ZSK>", "</RequestPolicy>"]

    def text(bi: int, what: str, idx: int, spec: dict[str, Any], field: str, kind: str) -> str:
        if override is not None and override[:4] == (bi, what, idx, field):
            return override[4]
        return honest_text(spec, field, kind)

    for bi, b in enumerate(bundles):
        out.append(f'<RequestBundle id="b{bi}">')
        out.append(f"<Inception>{xml_time(b['inc'])}</Inception>")
        out.append(f"<Expiration>{xml_time(b['exp'])}</Expiration>")
        for ki, k in enumerate(b["keys"]):
            t = {f: text(bi, "key", ki, k, f, kind) for f, _, kind, _ in XML_KEY_FIELDS}
            out.append(f'<Key keyIdentifier="{t["id"]}" keyTag="{t["tag"]}">\n<TTL>{t["ttl"]}</TTL>\n<Flags>{t["flags"]}</Flags>\n<Protocol>{t["protocol"]}</Protocol>\n'
                       f'<Algorithm>{t["alg"]}</Algorithm>\n<PublicKey>{t["pk"]}</PublicKey>\n</Key>')
        for gi, g in enumerate(b["sigs"]):
            t = {f: text(bi, "sig", gi, g, f, kind) for f, _, kind, _ in XML_SIG_FIELDS}
            out.append(f'<Signature keyIdentifier="{t["id"]}">\n<TTL>{t["ttl"]}</TTL>\n<TypeCovered>{t["type"]}</TypeCovered>\n<Algorithm>{t["alg"]}</Algorithm>\n'
                       f'<Labels>{t["labels"]}</Labels>\n<OriginalTTL>{t["ottl"]}</OriginalTTL>\n<SignatureExpiration>{t["exp"]}</SignatureExpiration>\n'
                       f'<SignatureInception>{t["inc"]}</SignatureInception>\n<KeyTag>{t["tag"]}</KeyTag>\n<SignersName>{t["name"]}</SignersName>\n'
                       f'<SignatureData>{t["sig"]}</SignatureData>\n</Signature>')
        out.append("</RequestBundle>")
    out += ["</Request>", "</KSR>", ""]
    return "\n".join(out)


class Malformed(Exception):
    """the independent reader: a text outside the lexical space of its field"""


def read_field(text: str | None, kind: str, attribute: bool) -> Any:
    """The independent reading of one element text / attribute value.  Element text of these simple types is white-space collapsed
    (XML Schema), an attribute value is taken as written.  uint: an optional sign and ASCII digits; time: xsd:dateTime in UTC (`Z`,
    `+00:00`, `-00:00` or no designator), seconds exact; type: the mnemonic DNSKEY; name / b64 / id: the text itself."""
    import calendar
    import re

    t = (text or "") if attribute else (text or "").strip()
    if kind == "uint":
        if not re.fullmatch(r"\s*[+-]?[0-9]+\s*", t):
            raise Malformed(f"not an integer: {t!r}")
        return int(t)
    if kind == "time":
        m = re.fullmatch(r"(\d{4})-(\d\d)-(\d\d)T(\d\d):(\d\d):(\d\d)(\.\d{1,6})?(Z|[+-]00:00)?", t)
        if not m:
            raise Malformed(f"not an xsd:dateTime in UTC: {t!r}")
        y, mo, d, h, mi, sec = (int(x) for x in m.groups()[:6])
        if not (1 <= mo <= 12 and 1 <= d <= calendar.monthrange(y, mo)[1] and h < 24 and mi < 60 and sec < 60 and y >= 1):
            raise Malformed(f"no such calendar time: {t!r}")
        return calendar.timegm((y, mo, d, h, mi, sec)) * SEC + int(((m.group(7) or ".0")[1:] + "000000")[:6])
    if kind == "type":
        if t != "DNSKEY":
            raise Malformed(f"type covered is not DNSKEY: {t!r}")
        return 48
    return t


def et_read_ksr(xml: str) -> list[dict[str, Any]]:
    """The document read WITHOUT /repo: ElementTree + read_field -> bundle cases (the shape independent_accepts judges).  Raises Malformed
    / ParseError for a document the independent reader cannot make sense of."""
    import xml.etree.ElementTree as ET

    root = ET.fromstring(xml)
    out = []
    for b in root.iter("RequestBundle"):
        case: dict[str, Any] = {"keys": [], "sigs": []}
        for what, fields, elname in (("keys", XML_KEY_FIELDS, "Key"), ("sigs", XML_SIG_FIELDS, "Signature")):
            for e in b.findall(elname):
                spec: dict[str, Any] = {}
                for f, where, kind, _ in fields:
                    if where.startswith("@"):
                        if where[1:] not in e.attrib:
                            raise Malformed(f"{elname} without {where[1:]}")
                        spec[f] = read_field(e.attrib[where[1:]], kind, True)
                    else:
                        ch = e.findall(where)
                        if len(ch) != 1:
                            raise Malformed(f"{elname} with {len(ch)} {where} elements")
                        spec[f] = read_field(ch[0].text, kind, False)
                case[what].append(spec)
        case["inc"], case["exp"] = read_field(b.find("Inception").text, "time", False), read_field(b.find("Expiration").text, "time", False)
        out.append(case)
    return out


def xml_degenerate_texts(spec: dict[str, Any], field: str, kind: str, attribute: bool) -> list[tuple[str, str, str]]:
    """(name, raw text, expectation by construction) for one text field of a KSR document.  Expectation: "malformed" (outside the field's
    lexical space: the document must be refused, by a policy violation or a clean error), "changed" (another value of a signed field),
    "same" (the honest value written differently: white space around an element text)."""
    v = honest_text(spec, field, kind)
    out: list[tuple[str, str, str]] = []
    if kind == "uint":
        hv = int(v)
        out += [("empty", "", "malformed"), ("space", " ", "malformed"), ("sign-only", "-", "malformed")]
        out += [(nm, str(x), "changed") for nm, x in degenerate_ints(hv, UINT_MAX[field])]
        out += [("padded", f" {v} ", "same"), ("newline-padded", f"\n{v}\n", "same")]
    elif kind == "time":
        t0 = spec[field]
        out += [("empty", "", "malformed"), ("space", " ", "malformed"), ("prefix", v[:-1], "malformed"), ("suffix", v[1:], "malformed"), ("first-char", v[:1], "malformed"),
                ("date-only", v[:10], "malformed"), ("without-seconds", v[:16] + "+00:00", "malformed"), ("zero", "0", "malformed"),
                ("epoch", xml_time(0), "changed"), ("max", xml_time((2**32 - 1) * SEC), "changed"), ("before-epoch", "1969-12-31T23:59:59+00:00", "changed"),
                ("year-9999", "9999-12-31T23:59:59+00:00", "changed"), ("padded", f" {v} ", "same"), ("spelled-Z", xml_time(t0)[:-6] + "Z", "same")]
    elif kind == "type":
        out += [("empty", "", "malformed"), ("space", " ", "malformed"), ("prefix", v[:-1], "malformed"), ("suffix", v[1:], "malformed"), ("first-char", v[:1], "malformed"),
                ("number", "48", "malformed"), ("lower-case", v.lower(), "malformed"), ("other-type", "DS", "malformed"), ("zero", "0", "malformed"), ("padded", f" {v} ", "same")]
    elif kind == "name":
        out += [("empty", "", "changed"), ("space", " ", "changed"), ("two-dots", "..", "changed"), ("single-letter", "x", "changed"), ("dot-space-dot", ". .", "changed"),
                ("doubled", v + v, "changed"), ("zero", "0", "changed"), ("padded", f" {v} ", "same"), ("newline-padded", f"\n{v}\n", "same")]
    elif kind == "b64":
        out += [(nm, x, "changed") for nm, x in degenerate_octets(v)]
        out += [("padded", f" {v} ", "same")]
    elif kind == "id":
        out += [(nm, x, "changed") for nm, x in degenerate_texts(v) if "\n" not in x and "\t" not in x]
    return [(nm, x, e) for nm, x, e in out if x != v]


def xml_degenerate_stream(r: Any, tier: str, pool: dict[str, list[tuple[Any, int]]]) -> list[tuple[str, str, bool, dict[str, Any]]]:
    """(tag, KSR document, expected accept, facts): honest requests rendered as XML TEXT, then ONE text field of one signature / one key
    of one bundle written at a degenerate value -- every signed field of the signature, every field of the key, the identifiers."""
    out = []
    plans = [("zsk-roll/3/rsa1024", r.sample(pool["rsa1024"], 3), [[0, 1], [1], [1, 2]]),
             ("same-two-throughout/2/mixed", [r.choice(pool["ec"]), r.choice(pool["rsa1024"])], [[0, 1], [0, 1]])]
    if tier == "thorough":
        plans.append(("same-two-throughout/2/ec", r.sample(pool["ec"], 2), [[0, 1], [0, 1]]))
    for plan, members, layout in plans:
        base = honest_request(members, layout, start=XML_INC)
        nb = len(base)
        out.append((f"xml:honest|{plan}", render_ksr(base), True, {"nb": nb, "honest": strip_request(base)}))
        for b in (0, nb - 1):
            for what, fields in (("sig", XML_SIG_FIELDS), ("key", XML_KEY_FIELDS)):
                spec = base[b]["sigs" if what == "sig" else "keys"][0]
                recurs = what == "key" and any(k["id"] == spec["id"] for b2 in range(nb) if b2 != b for k in base[b2]["keys"])
                for field, where, kind, signed in fields:
                    for nm, raw, expect in xml_degenerate_texts(spec, field, kind, where.startswith("@")):
                        if where.startswith("@") and kind == "uint" and expect == "same":
                            continue  # an attribute value is not white-space collapsed by XML; int() tolerates it -- not this property's business
                        cls = f"{what}-{where.lstrip('@')}"
                        if expect == "malformed":
                            want, oracle = False, True
                        elif expect == "same":
                            want, oracle = True, True  # the honest value written differently: the signed octets are provably unchanged
                        elif signed is False and not (what == "key" and recurs):
                            want, oracle = True, True  # a field that is not signed (Signature TTL; TTL of a key that appears in this bundle only)
                        elif signed == "other-rule" or signed is False:
                            # not signed, but another rule of validate_request objects: Key keyTag is compared with the key material, and a key
                            # that recurs under one identifier must be the same record everywhere (KSR-BUNDLE-KEYS): refused, not by this property
                            want, oracle = False, False
                        else:
                            want, oracle = False, True
                            if field == "sig" and what == "sig" and ecdsa_same_numbers_other_width(spec["alg"], spec["sig"], raw):
                                cls = "ecdsa-sig-not-fixed-width"
                        facts = {"nb": nb, "in_bundle": b, "what": what, "field": where.lstrip("@"), "value": nm, "raw_text": raw, "by_construction": expect,
                                 "pop_oracle_applies": oracle, "honest": strip_request(base)}
                        out.append((f"xml:{'control' if want else 'tamper'}-{cls}:{nm}:b{b}of{nb}|{plan}", render_ksr(base, (b, what, 0, field, raw)), want, facts))
    return out


def xml_policy(nb: int) -> Any:
    from kskm.common.config_misc import RequestPolicy

    return RequestPolicy(
        num_bundles=nb, validate_signatures=True, keys_match_zsk_policy=True, enable_unsupported_ecdsa=True, check_cycle_length=False,
        check_bundle_overlap=False, signature_algorithms_match_zsk_policy=False, signature_validity_match_zsk_policy=False,
        check_keys_match_ksk_operator_policy=False, signature_check_expire_horizon=False, check_bundle_intervals=False,
    )


def evaluate_xml(rec: Any, xml: str, nb: int) -> dict[str, Any]:
    """/repo on a KSR document: request_from_xml, then validate_request (verifier answers recorded)"""
    from kskm.ksr.load import request_from_xml
    from kskm.ksr.validate import validate_request

    policy = xml_policy(nb)
    rec.take()
    holder: dict[str, Any] = {}

    def load() -> Any:
        holder["req"] = request_from_xml(xml)
        return True

    loaded = run_impl(load)
    vr = run_impl(lambda: validate_request(holder["req"], policy)) if "ok" in loaded else loaded
    records = dedupe(rec.take())
    line = specs = None
    if "ok" in loaded:
        line = {"op": "validate_request", "request": request_j(holder["req"]), "policy": request_policy_j(policy), "now": 0, "verify": records}
        specs = [{"keys": [keyspec(k) for k in b.keys], "sigs": [{"sig": g.signature_data.decode()} for g in b.signatures]} for b in holder["req"].bundles]
    return {"loaded": loaded, "validate_request": vr, "line": line, "loaded_specs": specs}


def independent_xml_accepts(xml: str) -> tuple[bool, str]:
    """the property evaluated on the DOCUMENT without /repo: readable by the independent reader, and every bundle passes independent_accepts"""
    try:
        cases = et_read_ksr(xml)
    except Exception as exc:  # noqa: BLE001
        return False, f"independent reader: {type(exc).__name__}: {exc}"
    for i, c in enumerate(cases):
        if not independent_accepts(c):
            return False, f"independent oracle refuses bundle {i}"
    return True, "every bundle passes the independent evaluation"


# ---- environment independence: the process time zone -------------------------------------------------------------------------


def tz_bundle_stream(r: Any, tier: str, pool: dict[str, list[tuple[Any, int]]]) -> list[tuple[str, dict[str, Any]]]:
    """(tag, case with "tz"): honest bundles whose signatures' inception / expiration lie inside and outside the daylight-saving period of
    each of lib.non_utc_zones() and on the +-1 h lattice around its DST switches (harness/envtz.py), signed independently (dnspython TBS
    computed from integers), to be judged with the PROCESS time zone switched to that zone -- plus the tamperings of the time fields that a
    local-time mix-up would tolerate (+-1 h, +- the zone's offset), a signature bit and an omission, which must still be refused."""
    import keys as fx

    out: list[tuple[str, dict[str, Any]]] = []
    groups = [("rsa1024", 1), ("rsa1024", 2), ("ec", 1), ("mix", 2), ("rsa1024-sha512", 1), ("rsa2048", 1)]
    gi = 0
    for zname, _posix, _off in lib.non_utc_zones():
        for year in (2030, r.choice([y for y in envtz.YEARS if y != 2030])):
            for p in envtz.sample(zname, year, r, 9 if tier == "quick" else 40):
                grp, n = groups[gi % len(groups)]
                gi += 1
                if grp == "mix":
                    members = [r.choice(pool["rsa1024"]), r.choice(pool["ec"])]
                elif grp == "rsa1024-sha512":
                    members = [(tk, 10) for tk, _ in r.sample(pool["rsa1024"], n)]
                else:
                    members = r.sample(pool[grp], n)
                names = ["zsk-b", "zsk-a"]
                ks = [keyspec(fx.make_zsk(tk, alg, names[i], ttl=172800)) for i, (tk, alg) in enumerate(members)]
                # the probed instant is the inception (expiration three weeks later) or the expiration (inception three weeks earlier)
                if gi % 2:
                    inc, exp, role = p["t"] * SEC, (p["t"] + 21 * 86400) * SEC, "inception"
                else:
                    inc, exp, role = (p["t"] - 21 * 86400) * SEC, p["t"] * SEC, "expiration"
                sigs = [sign(tk, k, ks, inc=inc, exp=exp) for (tk, _), k in zip(members, ks)]
                base = {"keys": ks, "sigs": sigs, "inc": inc, "exp": exp, "tz": zname}
                plan = f"tz/{zname}/{'dst' if p['dst'] else 'standard'}"
                note = {"probe": p["label"], "probed_field": role, "year": year, "daylight_saving_time_in_force": p["dst"], "utc_offset": p["offset"], "keys": f"{grp}x{n}"}

                def v(tag: str, **sigkw: Any) -> None:
                    c = dict(clone(base), inc=inc, exp=exp, tz=zname, probe=note)
                    if sigkw:
                        c["sigs"][0].update(sigkw)
                    out.append((f"{tag}|{plan}", c))

                v("honest:tz")
                c = dict(clone(base), inc=inc, exp=exp, tz=zname, probe=note, as_set=True)
                c["keys"].reverse()
                out.append((f"honest:tz-as-set|{plan}", c))
                v("control:tz-sub-second", inc=inc + 999_999, exp=exp + 1)
                s0 = sigs[0]
                deltas = {3600, -3600, 1, -1, abs(p["offset"]), -abs(p["offset"])}
                for off in envtz.offset_changes(zname, year):
                    deltas |= {off[2] - off[1], off[1] - off[2]}
                for d in sorted(deltas):
                    if d:
                        v(f"tamper:tz-sig-inception:{d:+d}s", inc=s0["inc"] + d * SEC)
                        v(f"tamper:tz-sig-expiration:{d:+d}s", exp=s0["exp"] + d * SEC)
                v("tamper:tz-sig-bit", sig=flip(s0["sig"], r.randrange(len(base64.b64decode(s0["sig"])) * 8)))
                c = dict(clone(base), inc=inc, exp=exp, tz=zname, probe=note)
                del c["sigs"][-1]
                out.append((f"tamper:tz-omit-signature|{plan}", c))
    return out


def tz_request_stream(r: Any, tier: str, pool: dict[str, list[tuple[Any, int]]]) -> list[tuple[str, list[dict[str, Any]], bool, dict[str, Any], str]]:
    """(tag, request, expected accept, facts, zone): whole requests whose bundles (10 days apart, signatures valid 21 days) straddle a DST
    switch of the zone the process is switched to -- honest (must be accepted), and with one signature omitted / bit-flipped / its
    inception moved by one hour in a bundle on either side of the switch (must be refused)."""
    out = []
    for zname, _posix, _off in lib.non_utc_zones():
        year = r.choice(envtz.YEARS)
        changes = envtz.offset_changes(zname, year)
        anchors = [c[0] for c in changes] or [envtz.instants(zname, year)[1]["t"]]
        for ai, T in enumerate(anchors):
            nb = r.choice([3, 4]) if tier == "quick" else r.choice([3, 5, 9])
            lname, layout = r.choice(roll_layouts(nb, r)[:3])
            members = r.sample(pool["rsa1024"], 4) if ai % 2 == 0 else [r.choice(pool["rsa1024"]), r.choice(pool["ec"]), r.choice(pool["rsa2048"]), r.choice(pool["ec"])]
            # the switch falls between the first inception and the last expiration; first inception a whole number of hours away from it
            start = (T - r.choice([1, 12, 25]) * 86400 + r.choice([0, 1800, 3600])) * SEC
            base = honest_request(members, layout, start=start)
            plan = f"tz/{zname}/{lname}/{nb}"
            facts = {"nb": nb, "year": year, "switch": T, "bundles_inception_before_switch": sum(1 for b in base if b["inc"] < T * SEC)}
            out.append((f"tzroll:honest|{plan}", strip_request(base), True, facts, zname))
            for b in sorted({0, nb - 1}):
                c = clone_request(base)
                del c[b]["sigs"][0]
                out.append((f"tzroll:omit:b{b}of{nb}|{plan}", strip_request(c), False, facts, zname))
                c = clone_request(base)
                c[b]["sigs"][0]["sig"] = flip(c[b]["sigs"][0]["sig"], r.randrange(512))
                out.append((f"tzroll:sig-bit:b{b}of{nb}|{plan}", strip_request(c), False, facts, zname))
                for d in (3600, -3600):
                    c = clone_request(base)
                    c[b]["sigs"][0]["inc"] += d * SEC
                    out.append((f"tzroll:sig-inception{d:+d}s:b{b}of{nb}|{plan}", strip_request(c), False, facts, zname))
    return out


# ---- state carried between requests ------------------------------------------------------------------------------------


def pair_stream(r: Any, tier: str, pool: dict[str, list[tuple[Any, int]]]) -> list[tuple[str, list[dict[str, Any]], bool, list[dict[str, Any]], bool]]:
    """(tag, request A, A accepted?, request B, B accepted?) — A then B are validated in one process"""
    import keys as fx

    out = []
    rounds = 2 if tier == "quick" else 6
    for rd in range(rounds):
        layout = [[0, 1], [1], [1, 2]] if rd % 2 == 0 else [[0, 1], [0, 1]]
        ks = r.sample(pool["rsa1024"], 6)
        K, L = ks[:3], ks[3:]
        A = honest_request(K, layout)
        hon = strip_request(A)
        last = len(layout) - 1
        # 1. B re-uses A's identifiers and keys; the signature of a key that signed throughout A is missing in B's last bundle
        c = clone_request(A)
        ident = c[last]["keys"][0]["id"]
        c[last]["sigs"] = [sg for sg in c[last]["sigs"] if sg["id"] != ident]
        out.append((f"pair:B-lacks-a-signature-A-had:{rd}", hon, True, strip_request(c), False))
        # 2. the same identifiers denote OTHER keys in B, honestly signed by those
        Bother = strip_request(honest_request(L, layout))
        out.append((f"pair:B-same-identifiers-other-keys-honest:{rd}", hon, True, Bother, True))
        out.append((f"pair:B-same-identifiers-other-keys-honest:reverse:{rd}", Bother, True, hon, True))
        # 3. A's keys, identifiers and tags; the signatures are made by OTHER private keys
        c = clone_request(A)
        for bcase in c:
            bcase["sigs"] = [sign(L[i][0], bcase["keys"][slot], bcase["keys"], inc=bcase["inc"], exp=bcase["exp"]) for slot, i in enumerate(bcase["members"])]
        out.append((f"pair:B-signed-by-other-private-keys:{rd}", hon, True, strip_request(c), False))
        # 4. a refused request must not poison an honest one
        c = clone_request(A)
        c[0]["sigs"][0]["sig"] = flip(c[0]["sigs"][0]["sig"], 77)
        out.append((f"pair:A-tampered-B-honest:{rd}", strip_request(c), False, hon, True))
        c = clone_request(A)
        del c[last]["sigs"][0]
        out.append((f"pair:A-lacks-a-signature-B-honest:{rd}", strip_request(c), False, hon, True))
        # 5. an identifier of A denotes a STRANGER key with the SAME key tag in B (public material only); the signature is still made
        #    by A's key: nobody proved possession of the stranger
        c = clone_request(A)
        victim = A[last]["keys"][0]
        stranger_pk = fx.craft_public_key_with_tag(victim["tag"], 256, victim["alg"], r, n_len=128)  # 1024 bit, e = 65537
        for bcase in c:
            for k in bcase["keys"]:
                if k["id"] == victim["id"]:
                    k["pk"] = base64.b64encode(stranger_pk).decode()
        for bcase in c:
            bcase["sigs"] = [sign(K[i][0], bcase["keys"][slot], bcase["keys"], inc=bcase["inc"], exp=bcase["exp"]) for slot, i in enumerate(bcase["members"])]
        out.append((f"pair:B-identifier-denotes-same-tag-stranger-signed-by-A's-key:{rd}", hon, True, strip_request(c), False))
        out.append((f"pair:B-identifier-denotes-same-tag-stranger-signed-by-A's-key:reverse:{rd}", strip_request(c), False, hon, True))
        # 6. the very same request again
        out.append((f"pair:B-equals-A:{rd}", hon, True, hon, True))
    return out


def fresh_eval_start(bundles: list[dict[str, Any]], flag: bool = True) -> Any:
    """validate request B in a FRESH process (this file run as a script; the same /repo tree through KSKM_REPO)"""
    proc = subprocess.Popen([sys.executable, os.path.abspath(__file__), "--fresh-eval"], stdin=subprocess.PIPE, stdout=subprocess.PIPE, stderr=subprocess.PIPE)
    assert proc.stdin is not None
    proc.stdin.write(json.dumps({"bundles": bundles, "flag": flag}).encode())
    proc.stdin.close()
    return proc


def fresh_eval_result(proc: Any) -> Any:
    out = proc.stdout.read()
    err = proc.stderr.read()
    rc = proc.wait(timeout=300)
    if rc != 0:
        raise RuntimeError(f"fresh evaluation process failed ({rc}): {err.decode()[-800:]}")
    return json.loads(out.decode().strip().splitlines()[-1])


def _fresh_eval_main() -> int:
    from kskm.ksr.validate import validate_request

    obj = json.loads(sys.stdin.read())
    req, policy = build_request(obj["bundles"], obj.get("flag", True))
    print(json.dumps(run_impl(lambda: validate_request(req, policy))))
    return 0


def run(tier: str, driver_ok: bool) -> Result:
    import kskm.common.signature as sigmod

    res = Result("C07")
    res.rule = (
        "honest bundles of 1..3 fixture keys (RSA 1024/2048/3072/4096, exponents 3/17/65537/2^32+1/odd; ECDSA P-256/P-384; mixed), "
        "independently signed (dnspython TBS); all orders of keys x signatures; single-bit flips of a key (sample / thorough: all bits of "
        "a 1024-bit key), of every signed field, of signature octets; flags/protocol/algorithm; every omission and misattribution; key set "
        "changes; own-key-only and non-canonical signing; controls on unsigned fields; the multiset of signers versus the set of keys (as many or more VALID "
        "signatures as keys, all by keys of the bundle, one key without any: its signature replaced by a second signature of another key -- distinct by "
        "inception / expiration / original TTL or by ECDSA randomness alone -- at every ordered pair of keys, one key signing three times, one key alone "
        "signing n and n+1 times, a verbatim duplicate; as lists and as sets; on every 2- and 3-key bundle and at every bundle position of the whole "
        "requests); multi-bundle requests through validate_request; "
        "whole requests of 2..9 bundles (quick: 2,3,4,9 and one of 5..8) in ZSK-roll / same-two-keys / sliding-window / three-keys / random "
        "layouts with keys re-appearing under one identifier and per-bundle signature times, one signature omitted / misattributed (unknown, "
        "other key) / bit-flipped / taken from another bundle / made by another key at every (bundle position, key) pair (quick: first, second, "
        "middle, last two positions for > 4 bundles), through validate_request and check_proof_of_possession with the model on the same "
        "request; verbatim copies of a whole signature set from bundle i into bundle j at every ordered pair (quick: first, second, middle, last for > 4 "
        "bundles) with the same key set (accepted) / the target's own other key set / a key added, bit-changed or replaced (refused); every whole "
        "request also judged bundle by bundle through fresh calls; honest and time-tampered bundles / DST-straddling requests judged with the "
        "process time zone switched to each of four non-UTC zones, signature times inside and outside daylight saving time and +-1 h around the "
        "switches; request pairs A then B in one process (B re-using A's identifiers: signature missing, other keys, other signers, same-tag "
        "stranger key, A refused then B honest, B == A) with B also judged in a fresh process; degenerate values (empty, white space, prefix / "
        "suffix / first character, zero, wire maximum, negative, zero- / 0xFF-filled / zero-extended octets, swapped / equal / zero times) of "
        "every signed field of a signature, of the signature octets, of the attribution and of every key field: on every honest bundle, in "
        "whole requests (first / last bundle) through validate_request, and as XML text (one element text / attribute of a rendered KSR "
        "document at a degenerate value; white-space-padded honest text as control) through request_from_xml + validate_request judged "
        "against an ElementTree reading; non-trivial = distinct bundle / request / document input"
    )
    r = lib.rng("C07")
    rec = lib.VerifyRecorder().install(sigmod)
    todo: list[tuple[str, dict[str, Any], dict[str, Any], bool]] = []
    lines: list[dict[str, Any]] = []
    todo2: list[tuple[str, dict[str, Any], dict[str, Any]]] = []  # whole requests (roll layouts, pairs); ev["line"] indexes lines2
    lines2: list[dict[str, Any]] = []
    todo3: list[tuple[str, dict[str, Any], dict[str, Any]]] = []  # KSR documents (XML text path)
    try:
        pool = fixture_pool()
        plans: list[tuple[str, list[tuple[Any, int]], bool]] = []
        small = pool["rsa1024"]
        r.shuffle(small)
        nheavy = 3 if tier == "quick" else 2
        it = iter(small)
        # heavy: dense bit sampling on bundles whose target key is 1024-bit
        for h in range(nheavy):
            for n in (1, 2, 3):
                plans.append((f"rsa1024x{n}", [next(it) for _ in range(n)], True))
        nlight = 14 if tier == "quick" else 30
        for i in range(nlight):
            n = 1 + i % 3
            grp = r.choice(["rsa1024", "rsa2048", "ec", "mix", "rsa1024-sha512"])
            if grp == "mix":
                members = [r.choice(pool["rsa1024"]), r.choice(pool["ec"]), r.choice(pool["rsa2048"])][:n]
            elif grp == "rsa1024-sha512":
                members = [(tk, 10) for tk, _ in r.sample(pool["rsa1024"], n)]
            else:
                members = r.sample(pool[grp], n)
            plans.append((f"{grp}x{n}", members, False))
        plans.append(("rsabigx2", r.sample(pool["rsabig"], 2), False))
        plans.append(("ecx3", r.sample(pool["ec"], 3), False))
        # octet patterns of the key material that a shortcut in the decoders would misread (every run): an EC key whose X coordinate
        # begins with 0x04 in the bare RFC 6605 form (looks like a SEC 1 prefix), an RSA modulus whose top bit is clear
        import keys as _fx

        for xi, xk in enumerate(_fx.ec_keys_x04()):
            xa = 13 if xk.curve == "P-256" else 14
            plans.append((f"ec-x04-{xk.curve}x1", [(xk, xa)], False))
            if xi % 2 == 0:
                plans.append((f"ec-x04-{xk.curve}x2", [(xk, xa), r.choice([m for m in pool["ec"] if m[0] is not xk])], False))
        for tcx in _fx.rsa_keys_topclear()[:2]:
            plans.append((f"rsa-topclear-{tcx.raw['modulus_bits']}x1", [(tcx, 8)], False))
        if tier == "thorough":
            plans.append(("rsabigx3", r.sample(pool["rsabig"], 3), False))
        honest_cases = []
        for pi, (pname, members, heavy) in enumerate(plans):
            base, tks = honest_bundle(r, members, pi)
            facts = order_facts(base)
            for k, v in facts.items():
                if v:
                    res.bump("order:" + k)
            honest_cases.append((pname, base, tks))
            for tag, case in variants(r, base, tks, tier, heavy):
                ev = evaluate_bundle(rec, case)
                todo.append((f"{tag}|{pname}", case, ev, False))
                lines.append({"op": "c07_bundle", "bundle": bundle_j(ev["bundle"]), "verify": ev["records"]})
        # ---- EdDSA (outside the property's quantifier; the tie model <-> /repo only).  /repo's EdDSA `decode_public_key` keeps the
        # base64 TEXT as the key octets, so no EdDSA signature can ever verify; the model must predict exactly that outcome
        # from the recorded verifier answer.
        from cryptography.hazmat.primitives.asymmetric import ed25519
        from cryptography.hazmat.primitives import serialization

        for ei in range(3):
            sk = ed25519.Ed25519PrivateKey.from_private_bytes(r.randbytes(32))
            pkb = sk.public_key().public_bytes(serialization.Encoding.Raw, serialization.PublicFormat.Raw)
            rd = bytes([1, 0, 3, 15]) + pkb
            tag15 = 0
            for i, b in enumerate(rd):
                tag15 += b if (i & 1) else (b << 8)
            tag15 = (tag15 + ((tag15 >> 16) & 0xFFFF)) & 0xFFFF
            ek = {"id": f"ed{ei}", "tag": tag15, "ttl": 172800, "flags": 256, "protocol": 3, "alg": 15, "pk": base64.b64encode(pkb).decode()}
            es = {"id": ek["id"], "ttl": 172800, "alg": 15, "labels": 0, "ottl": 172800, "exp": EXP, "inc": INC, "tag": tag15, "name": ".", "sig": ""}
            tbs = dns_tbs(es, [ek])
            assert tbs is not None
            es["sig"] = base64.b64encode(sk.sign(tbs)).decode()
            for etag, ecase in (("eddsa:honest", {"keys": [ek], "sigs": [es]}), ("eddsa:sig-bit", {"keys": [ek], "sigs": [dict(es, sig=flip(es["sig"], 3))]})):
                ev = evaluate_bundle(rec, ecase)
                todo.append((f"{etag}|ed25519x1", ecase, ev, False))
                lines.append({"op": "c07_bundle", "bundle": bundle_j(ev["bundle"]), "verify": ev["records"]})

        # ---- environment independence: honest / tampered bundles judged with the process time zone switched
        for tag, tcase in tz_bundle_stream(r, tier, pool):
            ev = evaluate_bundle(rec, tcase)
            todo.append((tag, tcase, ev, False))
            lines.append({"op": "c07_bundle", "bundle": bundle_j(ev["bundle"]), "verify": ev["records"]})

        # ---- multi-bundle requests through validate_request (PoP among the other rules; bad bundle first / middle / last)
        from kskm.common.config_misc import RequestPolicy
        from kskm.common.data import AlgorithmDNSSEC, AlgorithmPolicyECDSA, AlgorithmPolicyRSA, SignaturePolicy
        from kskm.ksr.data import Request
        from kskm.ksr.validate import validate_request

        def declared(ks: list[dict[str, Any]]) -> set[Any]:
            out = set()
            for k in ks:
                blob = base64.b64decode(k["pk"])
                if k["alg"] in (8, 10):
                    elen = blob[0]
                    out.add(AlgorithmPolicyRSA(bits=(len(blob) - 1 - elen) * 8, exponent=int.from_bytes(blob[1 : 1 + elen], "big"), algorithm=AlgorithmDNSSEC(k["alg"])))
                else:
                    out.add(AlgorithmPolicyECDSA(bits=256 if k["alg"] == 13 else 384, algorithm=AlgorithmDNSSEC(k["alg"])))
            return out

        nreq = 40 if tier == "quick" else 150
        for qi in range(nreq):
            nb = r.choice([2, 3])
            chosen = [r.choice(honest_cases) for _ in range(nb)]
            bad_at = r.choice([None] + list(range(nb)))
            cases = []
            for bi, (pname, base, tks) in enumerate(chosen):
                c = clone(base)
                for k in c["keys"]:
                    k["id"] = f"b{bi}-{k['id']}"  # identifiers are not signed; keep them distinct across bundles
                for sg in c["sigs"]:
                    sg["id"] = f"b{bi}-{sg['id']}"
                if bad_at == bi:
                    kind = r.choice(["omit", "bit", "misattr", "field"])
                    if kind == "omit":
                        del c["sigs"][-1]
                    elif kind == "bit":
                        c["sigs"][0]["sig"] = flip(c["sigs"][0]["sig"], r.randrange(64))
                    elif kind == "misattr":
                        c["sigs"][0]["id"] = "nobody"
                    else:
                        c["sigs"][0]["ottl"] += 1
                cases.append(c)
            for flag in (True, False):
                bundles = [mk_bundle(dict(c, as_set=True), bid=f"b{bi}") for bi, c in enumerate(cases)]
                allk = [k for c in cases for k in c["keys"]]
                req = Request(id="req", serial=1, domain=".", timestamp=None, zsk_policy=SignaturePolicy(algorithms=declared(allk)), bundles=bundles)
                policy = RequestPolicy(
                    num_bundles=nb, validate_signatures=flag, keys_match_zsk_policy=True, enable_unsupported_ecdsa=True, check_cycle_length=False,
                    check_bundle_overlap=False, signature_algorithms_match_zsk_policy=False, signature_validity_match_zsk_policy=False,
                    check_keys_match_ksk_operator_policy=False, signature_check_expire_horizon=False, check_bundle_intervals=False,
                )
                rec.take()
                impl = run_impl(lambda: validate_request(req, policy))
                records = dedupe(rec.take())
                want = (bad_at is None) or not flag
                ev = {"validate_request": impl, "records": records, "want": want, "cases": cases}
                todo.append((f"request:{'honest' if bad_at is None else 'bad@%d/%d' % (bad_at, nb)}:validate_signatures={flag}|multi", {"bundles": cases, "flag": flag}, ev, True))
                lines.append({"op": "validate_request", "request": request_j(req), "policy": request_policy_j(policy), "now": 0, "verify": records})
        # ---- whole requests in ZSK-roll layouts: one signature wrong at every (bundle position, key) pair
        for tag, bundles, want, facts in roll_stream(r, tier, pool):
            ev = evaluate_request(rec, bundles)
            todo2.append((tag, {"bundles": bundles, "flag": True, "facts": facts}, {"validate_request": ev["validate_request"], "check_proof_of_possession": ev["check_proof_of_possession"], "per_bundle": ev["per_bundle"], "want": want, "line": len(lines2)}))
            lines2.extend(request_lines(ev))
        # ---- whole requests with ONE signature field at a degenerate value (empty, white space, prefix / suffix, zero, maximum, negative)
        for tag, bundles, want, facts in degenerate_request_stream(r, tier, pool):
            ev = evaluate_request(rec, bundles, per_bundle=False)
            todo2.append((tag, {"bundles": bundles, "flag": True, "facts": facts}, {"validate_request": ev["validate_request"], "check_proof_of_possession": ev["check_proof_of_possession"], "per_bundle": None, "want": want, "line": len(lines2)}))
            lines2.extend(request_lines(ev))
        # ---- the same class through the XML TEXT path: request_from_xml + validate_request on documents with one degenerate text field
        for tag, xml, want, facts in xml_degenerate_stream(r, tier, pool):
            ev = evaluate_xml(rec, xml, facts["nb"])
            ev["want"] = want
            ev["independent"] = independent_xml_accepts(xml)
            todo3.append((tag, {"xml": xml, "facts": {k: v for k, v in facts.items() if k != "honest"}}, ev))
        # ---- the same through a switched process time zone: requests that straddle a DST switch
        for tag, bundles, want, facts, zname in tz_request_stream(r, tier, pool):
            ev = evaluate_request(rec, bundles, tz=zname)
            todo2.append((tag, {"bundles": bundles, "flag": True, "facts": facts, "tz": zname}, {"validate_request": ev["validate_request"], "check_proof_of_possession": ev["check_proof_of_possession"], "per_bundle": ev["per_bundle"], "want": want, "line": len(lines2)}))
            lines2.extend(request_lines(ev))
        # ---- state carried between requests: A, then B in this process; B alone in a fresh process
        pairs = pair_stream(r, tier, pool)
        fresh = [fresh_eval_start(B) for _, _, _, B, _ in pairs]
        for (tag, A, want_a, B, want_b), proc in zip(pairs, fresh):
            ev_a = evaluate_request(rec, A)
            ev_b = evaluate_request(rec, B)
            todo2.append((tag, {"bundles": B, "flag": True, "after": A},
                          {"validate_request": ev_b["validate_request"], "check_proof_of_possession": ev_b["check_proof_of_possession"], "want": want_b, "line": len(lines2),
                           "first": ev_a["validate_request"], "want_first": want_a, "fresh": fresh_eval_result(proc)}))
            lines2.extend(request_lines(ev_b))
    finally:
        rec.uninstall()

    res.notes.append(
        "EdDSA is outside C07's quantifier; observed on /repo: KSKM_PublicKey_EdDSA.decode_public_key keeps the base64 text as key octets, "
        "so an honestly signed Ed25519 bundle ends in ValueError (never accepted); the model predicts the same from the recorded answer"
    )
    model = run_driver(lines, exe=DRIVER) if driver_ok else [None] * len(lines)
    for (tag, case, ev, is_request), m in zip(todo, model):
        res.count(case)
        kind = tag.split("|")[0].split(":")
        res.bump("kind:" + ":".join(kind[:2]))
        res.bump("plan:" + tag.split("|")[1])
        if is_request:
            impl = ev["validate_request"]
            res.bump("impl:" + ("accept" if "ok" in impl else next(iter(impl.values()))))
            indep = all(independent_accepts(c) for c in ev["cases"]) or not case["flag"]
            if ("ok" in impl) != ev["want"] or ("ok" in impl) != indep:
                res.violation("validate_request: verdict on a multi-bundle request differs from the proof-of-possession property", {"tag": tag, **case}, key=f"request:{kind[1]}", impl=impl, expected_accept=ev["want"], independent_accepts=indep)
            elif "ok" not in impl and impl != {"violation": "bundlePop"} and kind[1] != "honest":
                if "error" not in impl:
                    res.violation("validate_request: a proof-of-possession failure is reported as another rule's violation", {"tag": tag, **case}, key="request:class", impl=impl)
            if m is not None:
                if lib.is_unsupported(m):
                    res.disagreement("validate_request: the model asked the verifier about octets /repo never verified (record miss)", {"tag": tag, **case}, impl, m)
                elif not same_outcome(impl, m):
                    res.disagreement("validate_request: model != implementation", {"tag": tag, **case}, impl, m)
            continue
        pop = ev["check_proof_of_possession"]
        vs = ev["validate_signatures"]
        res.bump("impl:" + ("accept" if "ok" in pop else next(iter(pop.values()))))
        if "tz" in case:
            res.bump("tz:bundle-under:" + case["tz"])
            res.bump("tz:probed-instant-" + ("inside" if case["probe"]["daylight_saving_time_in_force"] else "outside") + "-daylight-saving-time")
        res.bump("keys:" + str(len(case["keys"])))
        want = expected_accept(tag)
        indep = independent_accepts(case)
        rcase = {"tag": tag, **case}
        if kind[0] == "eddsa":
            # outside the quantifier (RSA / ECDSA): judged against the model only; the observed behaviour is recorded
            res.bump("outside-quantifier:eddsa:" + ("accept" if "ok" in pop else next(iter(pop.values()))))
            want = indep = "ok" in pop
        if len(res.samples) < 5 and kind[0] in ("honest", "tamper") and kind[1] in ("order", "key-bit", "omit-signature", "self-signed-only", "sig-original-ttl") and not any(s["tag"].split(":")[1] == kind[1] for s in res.samples):
            res.sample({"tag": tag, "keys": [{**k, "pk": k["pk"][:20] + "..."} for k in case["keys"]], "sigs": [{**s, "sig": s["sig"][:20] + "..."} for s in case["sigs"]],
                        "impl": {"validate_signatures": vs, "check_proof_of_possession": pop}, "verifier_calls_recorded": len(ev["records"]),
                        "model": None if m is None else {k: m.get(k) for k in ("validate_signatures", "check_proof_of_possession")}, "expected_accept": want, "independent_oracle_accepts": indep})
        if kind[:2] == ["tamper", "signer-multiset"]:
            # the class is only what it claims to be if every signature presented is VALID (names a key of the bundle, verifies under it over the
            # whole key set -- by the independent verifier) and some key has none: then only "every key has signed" can refuse the bundle
            presented = len({json.dumps(s, sort_keys=True) for s in case["sigs"]}) if case.get("as_set") else len(case["sigs"])
            res.bump(f"signer-multiset:bundle:{kind[2]}:signatures-presented{'<' if presented < len(case['keys']) else '==' if presented == len(case['keys']) else '>'}keys:{'as-set' if case.get('as_set') else 'exact-order-list'}")
            res.bump("signer-multiset:bundle:signer-algorithm:" + str(case["sigs"][0]["alg"]))
            signers = {s["id"] for s in case["sigs"]}
            if not every_signature_valid(case) or all(k["id"] in signers for k in case["keys"]):
                res.violation("harness inconsistency: a signer-multiset variant must hold valid signatures only and leave one key without any (generator wrong)", rcase, key="oracle:signer-multiset:vacuous")
            res.bump("signer-multiset:bundle:/repo:validate_signatures:" + ("ok" if "ok" in vs else next(iter(vs.values()))) + ":check_proof_of_possession:" + ("ok" if "ok" in pop else next(iter(pop.values()))))
        # (a) and (b): the property on the implementation
        if indep != want:
            res.violation("harness inconsistency: independent oracle and construction disagree (generator or oracle wrong)", rcase, key="oracle:" + kind[1], expected_accept=want, independent_accepts=indep)
        if ("ok" in pop) != want:
            res.violation(
                "check_proof_of_possession: " + ("an honestly generated bundle is rejected" if want else "a tampered bundle is accepted") + (f" (process time zone {case['tz']})" if "tz" in case else ""),
                rcase, key=":".join(kind[:2]), impl=pop, expected_accept=want, independent_accepts=indep,
            )
        elif ("ok" in pop) != indep:
            res.violation("check_proof_of_possession: verdict differs from the independent evaluation of the property", rcase, key="indep:" + kind[1], impl=pop, independent_accepts=indep)
        if "ok" in pop and "ok" not in vs:
            res.violation("check_proof_of_possession accepts a bundle validate_signatures refuses", rcase, key="pop-vs-validate", impl=pop, validate_signatures=vs)
        if "violation" in pop and pop["violation"] != "bundlePop":
            res.violation("check_proof_of_possession raises another rule's violation", rcase, key="class", impl=pop)
        # TBS octets: /repo vs dnspython
        for s, t in zip(ev["bundle"].signatures, ev["tbs"]):
            sd = {"id": s.key_identifier, "ttl": s.ttl, "alg": s.algorithm.value, "labels": s.labels, "ottl": s.original_ttl, "exp": lib.dt_us(s.signature_expiration),
                  "inc": lib.dt_us(s.signature_inception), "tag": s.key_tag, "name": s.signers_name}
            kd = [keyspec(k) for k in ev["bundle"].keys]
            d = dns_tbs(sd, kd)
            if d is not None and t != {"ok": hexs(d)}:
                res.violation("make_raw_rrsig: to-be-signed octets differ from dnspython's", rcase, key="tbs", impl=t, expected=hexs(d))
        # (d): the tie
        if m is None:
            continue
        if isinstance(m, dict) and "driver_error" in m:
            res.disagreement("driver error", rcase, vs, m)
            continue
        for name, impl in (("validate_signatures", vs), ("check_proof_of_possession", pop)):
            mm = m[name]
            if lib.is_unsupported(mm) and outside_model_base64([case]):
                res.unsupported += 1  # non-canonical base64 text: outside the model's domain; (a), (b) and (c) above judged the case
                res.bump("unsupported-by-model:non-canonical-base64-text")
            elif lib.is_unsupported(mm):
                res.disagreement(f"{name}: the model asked the verifier about octets /repo never verified (record miss: TBS, key or signature octets differ)", rcase, impl, mm)
            elif not same_outcome(impl, mm):
                res.disagreement(f"{name}: model != implementation", rcase, impl, mm)
            elif impl != mm:
                res.soft_error_kind_mismatch += 1
        if len(m["tbs"]) != len(ev["tbs"]):
            res.disagreement("tbs: model builds a different number of to-be-signed strings", rcase, ev["tbs"], m["tbs"])
        else:
            for ti, mt in zip(ev["tbs"], m["tbs"]):
                if lib.is_unsupported(mt):
                    res.unsupported += 1
                elif not same_outcome(ti, mt):
                    res.disagreement("tbs: model's to-be-signed octets != implementation's", rcase, ti, mt)
    model2 = run_driver(lines2, exe=DRIVER) if driver_ok else [None] * len(lines2)
    for tag, case, ev in todo2:
        judge_request(res, tag, case, ev, model2[ev["line"] : ev["line"] + 2])
    with_line = [ev for _, _, ev in todo3 if ev["line"] is not None]
    model3 = run_driver([ev["line"] for ev in with_line], exe=DRIVER) if driver_ok else [None] * len(with_line)
    for ev, m in zip(with_line, model3):
        ev["model"] = m
    for tag, case, ev in todo3:
        judge_xml(res, tag, case, ev)
    return res


def judge_xml(res: Result, tag: str, case: dict[str, Any], ev: dict[str, Any]) -> None:
    """a KSR DOCUMENT with one text field at a degenerate value: /repo (request_from_xml + validate_request) vs the expectation by
    construction, the independent reading of the document (ElementTree + independent_accepts), and -- when /repo's loader produced a
    Request -- the model on that Request"""
    res.count(case)
    kind = tag.split("|")[0].split(":")
    facts = case["facts"]
    rcase = {"tag": tag, **case}
    got, want = ev["validate_request"], ev["want"]
    indep, why = ev["independent"]
    res.bump("kind:" + ":".join(kind[:2]))
    res.bump("xml:value:" + (kind[2] if len(kind) > 2 else "honest"))
    res.bump("xml:by-construction:" + facts.get("by_construction", "honest"))
    res.bump("xml:/repo:" + ("accept" if "ok" in got else ("refused-by-the-loader" if "ok" not in ev["loaded"] else next(iter(got.values())))))
    if len(res.samples) < 9 and kind[1] == "tamper-sig-SignersName" and not any(str(s0.get("tag", "")).startswith("xml:") for s0 in res.samples):
        res.sample({"tag": tag, "facts": facts, "impl": {"request_from_xml": ev["loaded"], "validate_request": got}, "model": ev.get("model"), "expected_accept": want,
                    "independent_reading": why}, limit=9)
    oracle = facts.get("pop_oracle_applies", True)
    if oracle and indep != want:
        res.violation("harness inconsistency: independent oracle and construction disagree (generator or oracle wrong)", rcase, key=f"oracle:xml:{kind[1]}", expected_accept=want, independent_accepts=indep, independent_reading=why)
    if ("ok" in got) != want or (oracle and ("ok" in got) != indep):
        res.violation(
            "validate_request on a KSR document: " + ("a document that states the honest values (white space around an element text / a field that is not signed) is rejected" if want
                                                      else "a document in which a signed field / a key field / a signature was altered to a degenerate value is accepted"),
            rcase, key=f"xml:{kind[1]}", impl=got, loaded=ev["loaded"], expected_accept=want, independent_accepts=indep if oracle else "n/a (another rule objects)", independent_reading=why,
        )
    m = ev.get("model")
    if m is None:
        return
    if lib.is_unsupported(m) and ev.get("loaded_specs") is not None and outside_model_base64(ev["loaded_specs"]):
        res.unsupported += 1  # non-canonical base64 text in the loaded Request: outside the model's domain; judged by the specification alone
        res.bump("unsupported-by-model:non-canonical-base64-text")
    elif lib.is_unsupported(m):
        res.disagreement("validate_request on a Request loaded from a KSR document: the model asked the verifier about octets /repo never verified (record miss)", rcase, got, m)
    elif not same_outcome(got, m):
        res.disagreement("validate_request on a Request loaded from a KSR document: model != implementation", rcase, got, m)


def judge_request(res: Result, tag: str, case: dict[str, Any], ev: dict[str, Any], models: list[Any]) -> None:
    """a whole request (roll layout, or B of a pair): /repo vs construction, independent oracle, model — and, for pairs, a fresh process"""
    res.count(case)
    kind = tag.split("|")[0].split(":")
    stream = kind[0]
    res.bump("kind:" + ":".join(kind[:2]))
    res.bump("plan:" + (tag.split("|")[1].rsplit("/", 2)[0] if "|" in tag else "pair"))
    res.bump("bundles-per-request:" + str(len(case["bundles"])))
    facts = case.get("facts") or {}
    if "bundle" in facts:
        res.bump(f"roll:{kind[1]}:" + ("same-key-signed-correctly-in-an-earlier-bundle" if facts["same_key_signed_correctly_earlier"] else "key's-first-bundle"))
        if kind[1] == "omit" and facts["same_key_signed_correctly_earlier"] and facts["bundle_holds_other_keys_too"]:
            res.bump("roll:omit:after-earlier-correct-signature:other-signatures-remain")
    want = ev["want"]
    indep = all(independent_accepts(c) for c in case["bundles"])
    rcase = {"tag": tag, **case}
    res.bump("impl:" + ("accept" if "ok" in ev["validate_request"] else next(iter(ev["validate_request"].values()))))
    if len(res.samples) < 7 and kind[1] in ("omit", "B-lacks-a-signature-A-had") and not any(s.get("tag", "").split(":")[0] == stream for s in res.samples):
        res.sample({"tag": tag, "facts": facts, "bundles": [{"keys": [k["id"] for k in b["keys"]], "signatures_by": [s["id"] for s in b["sigs"]]} for b in case["bundles"]],
                    "impl": {k: ev[k] for k in ("validate_request", "check_proof_of_possession", "fresh", "first") if k in ev}, "model": models, "expected_accept": want, "independent_oracle_accepts": indep}, limit=7)
    if indep != want:
        res.violation("harness inconsistency: independent oracle and construction disagree (generator or oracle wrong)", rcase, key=f"oracle:{stream}:{kind[1]}", expected_accept=want, independent_accepts=indep)
    if "source" in facts:
        res.bump(f"roll:{kind[1]}:{kind[2]}:" + ("source-before-target" if facts["source_before_target"] else "source-after-target"))
    if kind[1] == "signer-multiset":
        b, nb = facts["bundle"], facts["nb"]
        bad = case["bundles"][b]
        presented = len({json.dumps(s, sort_keys=True) for s in bad["sigs"]})  # requests hold real sets
        res.bump(f"signer-multiset:request:{kind[2]}:signatures-presented{'<' if presented < len(bad['keys']) else '==' if presented == len(bad['keys']) else '>'}keys")
        res.bump("signer-multiset:request:bundle-position:" + ("first" if b == 0 else "last" if b == nb - 1 else "inner"))
        signers = {s["id"] for s in bad["sigs"]}
        if not all(every_signature_valid(c) for c in case["bundles"]) or all(k["id"] in signers for k in bad["keys"]):
            res.violation("harness inconsistency: a signer-multiset variant must hold valid signatures only and leave one key without any (generator wrong)", rcase, key="oracle:roll:signer-multiset:vacuous")
    if "tz" in case:
        res.bump("tz:request-under:" + case["tz"])
    # a rule that runs BEFORE proof of possession inside validate_request and legitimately objects to this input class first (an identifier
    # denoting two different keys within one request is KSR-BUNDLE-KEYS' business); check_proof_of_possession itself is still judged strictly
    other_rule = facts.get("other_rule_may_object_first")
    for name in ("validate_request", "check_proof_of_possession"):
        got = ev[name]
        if ("ok" in got) != want or ("ok" in got) != indep:
            res.violation(
                f"{name}: " + ("an honestly generated request is rejected" if want else "a request with a missing / misattributed / altered signature in one bundle is accepted")
                + (" (after another request was validated in the same process)" if "after" in case else "")
                + (f" (process time zone {case['tz']})" if "tz" in case else ""),
                rcase, key=f"{stream}:{kind[1]}" + (":" + kind[2] if "source" in facts else ""), impl=got, expected_accept=want, independent_accepts=indep, facts=facts,
            )
        elif "ok" not in got and got != {"violation": "bundlePop"} and "error" not in got and not (name == "validate_request" and other_rule is not None and got == {"violation": other_rule}):
            res.violation(f"{name}: a proof-of-possession failure is reported as another rule's violation", rcase, key=f"{stream}:class", impl=got)
    # no state is carried from bundle to bundle: the verdict on the whole request is the verdict on its first refused bundle taken alone
    alone = ev.get("per_bundle")
    if alone is not None:
        first_bad = next((o for o in alone if "ok" not in o), {"ok": None})
        got = ev["check_proof_of_possession"]
        if not same_outcome(got, first_bad):
            res.violation(
                "check_proof_of_possession: the verdict on a request differs from the verdicts on its bundles taken one at a time (something is carried over from earlier bundles)",
                rcase, key=f"{stream}:bundle-state", impl=got, per_bundle_alone=alone, expected_accept=want, facts=facts,
            )
        res.bump("per-bundle-fresh-verdicts-compared")
    if "after" in case:
        if ("ok" in ev["first"]) != ev["want_first"]:
            res.violation("validate_request: verdict on request A of a pair differs from the proof-of-possession property", {"tag": tag, "bundles": case["after"], "flag": True}, key="pair:first", impl=ev["first"], expected_accept=ev["want_first"])
        if ev["fresh"] != ev["validate_request"]:
            res.violation("validate_request: the verdict on a request depends on what the process validated before (differs from a fresh process' verdict)",
                          rcase, key=f"pair:state:{kind[1]}", impl=ev["validate_request"], fresh_process=ev["fresh"], expected_accept=want)
        elif ("ok" in ev["fresh"]) != want:
            res.violation("validate_request (fresh process): verdict differs from the proof-of-possession property", rcase, key=f"pair:fresh:{kind[1]}", impl=ev["fresh"], expected_accept=want)
    for name, m in zip(("validate_request", "check_proof_of_possession"), models):
        if m is None:
            continue
        if lib.is_unsupported(m) and outside_model_base64(case["bundles"]):
            res.unsupported += 1  # non-canonical base64 text: outside the model's domain; judged by construction and the independent oracle above
            res.bump("unsupported-by-model:non-canonical-base64-text")
        elif lib.is_unsupported(m):
            res.disagreement(f"{name}: the model asked the verifier about octets /repo never verified (record miss)", rcase, ev[name], m)
        elif not same_outcome(ev[name], m):
            res.disagreement(f"{name} on a whole request: model != implementation", rcase, ev[name], m)


def replay(obj: dict[str, Any]) -> Any:
    import kskm.common.signature as sigmod

    v = obj.get("violation") or obj.get("disagreement") or {}
    case = v["case"]
    if "keys" not in case and "bundles" in case and all("inc" in b for b in case["bundles"]):
        rec = lib.VerifyRecorder().install(sigmod)
        try:
            first = evaluate_request(rec, case["after"])["validate_request"] if "after" in case else None
            ev = evaluate_request(rec, case["bundles"], case.get("flag", True), tz=case.get("tz"))
        finally:
            rec.uninstall()
        ms = run_driver(request_lines(ev), exe=DRIVER)
        out = {"tag": case.get("tag"), "facts": case.get("facts"),
               "bundles": [{"keys": [k["id"] for k in b["keys"]], "signatures_by": [s["id"] for s in b["sigs"]]} for b in case["bundles"]],
               "process_time_zone": case.get("tz") or "(unchanged)",
               "implementation": {"validate_request": ev["validate_request"], "check_proof_of_possession": ev["check_proof_of_possession"], "each_bundle_alone": ev["per_bundle"]},
               "model": {"validate_request": ms[0], "check_proof_of_possession": ms[1]},
               "independent_oracle_accepts_each_bundle": [independent_accepts(c) for c in case["bundles"]]}
        if "after" in case:
            out["request_A_validated_first"] = first
            out["fresh_process"] = fresh_eval_result(fresh_eval_start(case["bundles"], case.get("flag", True)))
        return out
    if "keys" not in case:
        return {"case": case, "recorded": {k: v.get(k) for k in ("impl", "model", "expected_accept", "independent_accepts")}}
    rec = lib.VerifyRecorder().install(sigmod)
    try:
        ev = evaluate_bundle(rec, case)
    finally:
        rec.uninstall()
    m = run_driver([{"op": "c07_bundle", "bundle": bundle_j(ev["bundle"]), "verify": ev["records"]}], exe=DRIVER)[0]
    return {
        "tag": case.get("tag"),
        "process_time_zone": case.get("tz") or "(unchanged)",
        "implementation": {"validate_signatures": ev["validate_signatures"], "check_proof_of_possession": ev["check_proof_of_possession"]},
        "verifier_calls_recorded": [{k: (e[k][:40] + "...") if isinstance(e[k], str) and len(e[k]) > 40 else e[k] for k in e} for e in ev["records"]],
        "model": {k: m.get(k) for k in ("validate_signatures", "check_proof_of_possession")} if isinstance(m, dict) else m,
        "expected_accept_by_construction": expected_accept(case.get("tag", "")),
        "independent_oracle_accepts": independent_accepts(case),
    }


if __name__ == "__main__" and "--fresh-eval" in sys.argv:
    sys.exit(_fresh_eval_main())
