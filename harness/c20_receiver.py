"""C20, the rest of the receiver (work package B5): two more streams of harness/corr_C20.py.

  config   the REAL pydantic models of config_wksr.py (through `WKSR_Config.from_dict`, what `WKSR.from_file`
           calls) on generated documents — `tls:` (files present / missing / a directory / key absent,
           `require_client_cert` true / false / absent / other spellings, whitelists: lower / upper / mixed case,
           colon-separated, empty string, trailing newline, blanks, fullwidth digits, 64 / odd lengths), `ksr:`
           (`max_size` around 0 and around 1 MiB, absent; content types; upload paths; signer configuration
           file present / missing) — against the model's `loadTls` / `loadKsrSection`; the whitelist entry
           validator itself on ~80 strings against `isHexDigestString` and a plain-Python oracle; the REAL
           `kskm.tools.wksr.main()` (harness/wksr_main.py: `uvicorn.run` records) on loaded documents x argv
           variants against `serverArgs`, with the property's reading: the server is told CERT_REQUIRED iff the
           document says so and never CERT_NONE, the CA file / ciphers / whitelist are the document's, the
           whitelist middleware is installed; the REAL `request_peercert_digest` on real certificates against
           `fingerprintHex` and hashlib.
  route    the REAL `ClientCertificateWhitelist.dispatch` with `call_next` = the REAL `upload_post` (so the REAL
           `save_ksr`, `validate_ksr`, `notify`): peers {listed, unlisted, listed only in upper case, no TLS, no
           certificate, garbage, listed nowhere because the list is empty} x uploads {accepted KSR with / without a chained previous SKR, KSR refused by
           policy / by the chain, not XML, truncated, unloadable signer configuration, damaged previous SKR, wrong
           content type, no size, size = limit, size = limit + 1, hostile / missing file name, missing upload
           directory} x notification {none, empty smtp_server, delivered, SMTP refuses}: outcome, files created,
           body reads, order of events (stored -> validated on the stored path -> mail -> page) against the
           model's `handleUpload` and against the property's text evaluated here (no write / read / validation
           for an unlisted client or a failed gate; page says OK iff the signer's own functions accept THE STORED
           FILE, ERROR iff they raise a policy violation).
"""

from __future__ import annotations

import asyncio
import contextlib
import hashlib
import os
import ssl
import tempfile
import types
from pathlib import Path
from typing import Any

import lib
import wksr_stubs
from lib import REPO, Result, hexs, run_driver, same_outcome

HEX = set("0123456789abcdefABCDEF")


def oracle_hex(s: Any) -> bool:
    """the property's `SHA-256 fingerprint` entry as the configuration admits it: a non-empty string of hex digits"""
    return isinstance(s, str) and len(s) > 0 and all(c in HEX for c in s)


def _jsonable_str(s: str) -> bool:
    return not any(0xD800 <= ord(c) <= 0xDFFF for c in s)


# --------------------------------------------------------------------------------------
# config
# --------------------------------------------------------------------------------------


def stream_config(res: Result, tier: str, driver_ok: bool) -> None:
    import yaml
    from pydantic import TypeAdapter

    import corr_C20 as base
    import wksr_main

    DRIVER = base.DRIVER
    server = wksr_stubs.load_server()
    from kskm.common import config_wksr as cw
    from kskm.common.config_misc import HexDigestString

    r = lib.rng("C20:config")
    fp64 = hashlib.sha256(b"client").hexdigest()

    # ---------------------------------------------------------------- (1) the whitelist entry validator
    strings = [
        "", "ab", "AB", "aB09", fp64, fp64.upper(), fp64[:63], fp64 + "0", ":".join(fp64[i : i + 2] for i in range(0, 64, 2)),
        "ab\n", "\nab", "ab\r\n", " ab", "ab ", "a b", "ab\t", "ab\x00", "ab ", "ab\x85", "g0", "0g", "G", "g", "0x12", "a-b", "a_b", "abcdefg", "ABCDEFG",
        "/", ":", "`", "@", "[", "{", "0", "9", "a", "f", "A", "F", "０１", "ａｂ", "١٢", "é", "é", "\U0001d7ce", "deadbeef", "DEADBEEF", "DeadBeef",
        "0123456789abcdefABCDEF", "sha256:" + fp64, fp64 + "\n", "\n",
    ]  # fmt: skip
    alphabet = "09afAFgG:@`/ \n\t5cC"
    for _ in range(30 if tier == "quick" else 400):
        strings.append("".join(r.choice(alphabet) for _ in range(r.randrange(1, 9))))
    ta = TypeAdapter(HexDigestString)
    lines: list[dict[str, Any]] = []
    cases: list[dict[str, Any]] = []
    for s in strings:
        try:
            got = ta.validate_python(s)
            out: Any = {"ok": got}
        except Exception as e:  # noqa: BLE001
            out = {"error": lib.error_kind(e)}
        cases.append({"kind": "entry", "s": s, "out": out})
        lines.append({"op": "is_hex_digest_string", "s": s})

    # ---------------------------------------------------------------- (2) documents
    with tempfile.TemporaryDirectory(prefix="kskm_c20_cfg_") as top:
        d = Path(top)
        site = wksr_main.make_site(d)
        missing = str(d / "no-such-file")
        adir = str(d / "up")
        ABSENT = object()

        def doc_with(section: str, **changes: Any) -> dict[str, Any]:
            doc = {k: dict(v) for k, v in site.items()}
            for k, v in changes.items():
                if v is ABSENT:
                    doc[section].pop(k, None)
                else:
                    doc[section][k] = v
            return doc

        def filekey(doc: dict[str, Any], section: str, key: str) -> Any:
            """model input for a FilePath key: omitted / True / False; "off-type" when the value is not a str"""
            if key not in doc[section]:
                return ABSENT
            v = doc[section][key]
            if v is None:
                return None  # optional keys: None = absent; required keys: refused
            if not isinstance(v, str):
                return "off-type"
            return Path(v).is_file()

        tls_variants: list[tuple[str, dict[str, Any]]] = [("base", {})]
        for k in ("cert", "key", "ca_cert"):
            tls_variants += [(f"{k}:missing", {k: missing}), (f"{k}:directory", {k: adir}), (f"{k}:absent", {k: ABSENT})]
        for tag, v in [("true", True), ("false", False), ("absent", ABSENT), ("str-yes", "yes"), ("str-no", "no"), ("int-1", 1), ("int-0", 0), ("none", None), ("str-maybe", "maybe"), ("int-2", 2)]:
            tls_variants.append((f"require_client_cert:{tag}", {"require_client_cert": v}))
        wls: list[tuple[str, Any]] = [
            ("absent", ABSENT), ("empty", []), ("one", [fp64]), ("upper", [fp64.upper()]), ("two", [fp64, "00" * 32]), ("duplicate", [fp64, fp64]),
            ("colon", [":".join(fp64[i : i + 2] for i in range(0, 64, 2))]), ("empty-string", [""]), ("newline", [fp64 + "\n"]), ("blank", [" " + fp64]),
            ("good+bad", [fp64, "xyz"]), ("bad-last", [fp64, fp64, "g"]), ("fullwidth", ["０１"]), ("short", ["ab"]), ("odd", ["abc"]),
            ("str-not-list", fp64), ("int-entry", [123]), ("none", None), ("none-entry", [None]),
        ]  # fmt: skip
        for tag, v in wls:
            tls_variants.append((f"client_whitelist:{tag}", {"client_whitelist": v}))
            tls_variants.append((f"client_whitelist:{tag}+optional", {"client_whitelist": v, "require_client_cert": False}))
        for tag, v in [("absent", ABSENT), ("one", ["X"]), ("three", ["A", "B", "C"]), ("empty", []), ("str", "A:B"), ("colon-inside", ["A:B", "C"])]:
            tls_variants.append((f"ciphers:{tag}", {"ciphers": v}))
        for _ in range(10 if tier == "quick" else 150):
            ch: dict[str, Any] = {}
            if r.random() < 0.3:
                ch[r.choice(["cert", "key", "ca_cert"])] = r.choice([missing, adir, ABSENT])
            ch["require_client_cert"] = r.choice([True, False, ABSENT, True, False])
            ch["client_whitelist"] = r.choice([v for _, v in wls[:15]])
            tls_variants.append(("random", ch))

        for tag, ch in tls_variants:
            doc = doc_with("tls", **ch)
            try:
                cfg = cw.WKSR_Config.from_dict(doc)
                out = {"ok": {"ciphers": list(cfg.tls.ciphers), "requireClientCert": cfg.tls.require_client_cert, "clientWhitelist": list(cfg.tls.client_whitelist)}}
            except Exception as e:  # noqa: BLE001
                out = {"error": lib.error_kind(e)}
            t = doc["tls"]
            line: dict[str, Any] | None = {"op": "wksr_load_tls"}
            for key, mk in (("cert", "cert"), ("key", "key"), ("ca_cert", "caCert")):
                fk = filekey(doc, "tls", key)
                if fk is ABSENT:
                    continue
                if fk == "off-type" or fk is None:
                    line = None
                    break
                line[mk] = fk
            if line is not None:
                rcc = t.get("require_client_cert", ABSENT)
                wl = t.get("client_whitelist", ABSENT)
                ci = t.get("ciphers", ABSENT)
                typed = (rcc is ABSENT or isinstance(rcc, bool)) and (wl is ABSENT or (isinstance(wl, list) and all(isinstance(x, str) and _jsonable_str(x) for x in wl))) and (
                    ci is ABSENT or (isinstance(ci, list) and all(isinstance(x, str) for x in ci))
                )
                if not typed:
                    line = None
                else:
                    if rcc is not ABSENT:
                        line["requireClientCert"] = rcc
                    if wl is not ABSENT:
                        line["clientWhitelist"] = wl
                    if ci is not ABSENT:
                        line["ciphers"] = ci
            cases.append({"kind": "tls", "tag": tag, "doc": {k: ("<absent>" if v is ABSENT else v) for k, v in ch.items()}, "tls": t, "out": out, "typed": line is not None})
            lines.append(line if line is not None else {"op": "is_hex_digest_string", "s": ""})

        MIB = 1024 * 1024
        ksr_variants: list[tuple[str, dict[str, Any]]] = [("base", {})]
        for tag, v in [("absent", ABSENT), ("-1", -1), ("0", 0), ("1", 1), ("2", 2), ("mib-1", MIB - 1), ("mib", MIB), ("mib+1", MIB + 1), ("2^63", 2**63), ("-2^63", -(2**63)), ("str-5", "5"), ("float-1.5", 1.5), ("float-2.0", 2.0), ("true", True), ("none", None)]:
            ksr_variants.append((f"max_size:{tag}", {"max_size": v}))
        for tag, v in [("absent", ABSENT), ("text/xml", "text/xml"), ("empty", ""), ("upper", "APPLICATION/XML"), ("int", 5)]:
            ksr_variants.append((f"content_type:{tag}", {"content_type": v}))
        for tag, v in [("absent", ABSENT), ("rel", "rel/dir"), ("abs", "/abs/dir"), ("dotdot", "a/../b"), ("dot", "."), ("trailing-slash", "up/"), ("dot-inside", "a/./b"), ("slashes", "a//b"), ("missing-dir", str(d / "nowhere"))]:
            ksr_variants.append((f"upload_path:{tag}", {"upload_path": v}))
        for tag, v in [("absent", ABSENT), ("file", str(d / "ksrsigner.yaml")), ("missing", missing), ("directory", adir), ("none", None)]:
            ksr_variants.append((f"ksrsigner_configfile:{tag}", {"ksrsigner_configfile": v}))
            ksr_variants.append((f"ksrsigner_configfile:{tag}+max0", {"ksrsigner_configfile": v, "max_size": 0}))
        for _ in range(10 if tier == "quick" else 150):
            ksr_variants.append(("random", {"max_size": r.choice([ABSENT, r.randrange(-3, 4), r.randrange(1, 2 * MIB)]), "ksrsigner_configfile": r.choice([ABSENT, missing, str(d / "ksrsigner.yaml")]), "upload_path": r.choice([ABSENT, "x/y", "/z"])}))
        for tag, ch in ksr_variants:
            doc = doc_with("ksr", **ch)
            try:
                cfg = cw.WKSR_Config.from_dict(doc)
                out = {"ok": {"maxSize": cfg.ksr.max_size, "contentType": cfg.ksr.content_type, "uploadPath": base.cps(str(cfg.ksr.upload_path)), "hasSignerConfig": cfg.ksr.ksrsigner_configfile is not None}}
            except Exception as e:  # noqa: BLE001
                out = {"error": lib.error_kind(e)}
            k = doc["ksr"]
            line = {"op": "wksr_load_ksr"}
            ms, ct, up = k.get("max_size", ABSENT), k.get("content_type", ABSENT), k.get("upload_path", ABSENT)
            fk = filekey(doc, "ksr", "ksrsigner_configfile")
            typed = (ms is ABSENT or (isinstance(ms, int) and not isinstance(ms, bool) and abs(ms) < 2**62)) and (ct is ABSENT or isinstance(ct, str)) and (up is ABSENT or (isinstance(up, str) and not up.startswith("//"))) and fk != "off-type"
            if typed:
                if ms is not ABSENT:
                    line["maxSize"] = ms
                if ct is not ABSENT:
                    line["contentType"] = ct
                if up is not ABSENT:
                    line["uploadPath"] = base.cps(up)
                if fk is not ABSENT and fk is not None:
                    line["ksrsignerConfigfile"] = fk
            cases.append({"kind": "ksr", "tag": tag, "doc": {kk: ("<absent>" if v is ABSENT else v) for kk, v in ch.items()}, "ksr": k, "out": out, "typed": typed})
            lines.append(line if typed else {"op": "is_hex_digest_string", "s": ""})

        # ---------------------------------------------------------------- (3) main(): what the TLS server is told
        installed: list[Any] = []
        stub_fastapi = getattr(server.FastAPI, "__module__", "") == "wksr_stubs"
        if stub_fastapi:
            orig_add = wksr_stubs.FastAPI.add_middleware
            wksr_stubs.FastAPI.add_middleware = lambda self, cls, *a, **kw: installed.append((self, cls))  # type: ignore[method-assign]
        try:
            argvs: list[tuple[str, list[str]]] = [("default", []), ("debug", ["--debug"]), ("host-port", ["--hostname", "0.0.0.0", "--port", "443"]), ("port-0", ["--port", "0", "--debug"]), ("host-v6", ["--hostname", "::1"])]
            mains: list[tuple[str, dict[str, Any], str, list[str]]] = []
            for rcc in (True, False):
                for ctag, ci in [("absent", ABSENT), ("one", ["X"]), ("three", ["A", "B", "C"]), ("empty", [])]:
                    for atag, argv in argvs if (ctag == "absent") else argvs[:1]:
                        mains.append((f"rcc={rcc}:ciphers={ctag}", {"require_client_cert": rcc, "ciphers": ci, "client_whitelist": [fp64, fp64.upper()]}, atag, argv))
            mains.append(("rcc=absent", {"require_client_cert": ABSENT}, "default", []))
            mains.append(("bad-whitelist", {"client_whitelist": ["xyz"]}, "default", []))
            for tag, ch, atag, argv in mains:
                doc = doc_with("tls", **ch)
                (d / "wksr.yaml").write_text(yaml.safe_dump(doc))
                del installed[:]
                got = wksr_main.run_main(d / "wksr.yaml", argv)
                obs: dict[str, Any]
                if "kwargs" in got:
                    kw = got["kwargs"]
                    app = got["app"]
                    obs = {
                        "ok": {"host": kw.get("host"), "port": kw.get("port"), "log_level": kw.get("log_level"), "ssl_ciphers": kw.get("ssl_ciphers"), "ssl_cert_reqs": int(kw.get("ssl_cert_reqs", -1))},
                        "ssl_ca_certs": kw.get("ssl_ca_certs"), "ssl_certfile": kw.get("ssl_certfile"), "ssl_keyfile": kw.get("ssl_keyfile"),
                        "app_is_wksr": isinstance(app, server.WKSR), "app_whitelist": list(app.config.tls.client_whitelist) if isinstance(app, server.WKSR) else None,
                        "middleware": [getattr(c, "__name__", str(c)) for a, c in installed if a is app] if stub_fastapi else None,
                        "ciphers_loaded": list(app.config.tls.ciphers) if isinstance(app, server.WKSR) else None,
                        "rcc_loaded": app.config.tls.require_client_cert if isinstance(app, server.WKSR) else None,
                    }  # fmt: skip
                else:
                    obs = {"error": got.get("error"), "exc": got.get("exc")}
                host = argv[argv.index("--hostname") + 1] if "--hostname" in argv else "127.0.0.1"
                port = int(argv[argv.index("--port") + 1]) if "--port" in argv else 8443
                cases.append({"kind": "main", "tag": tag, "argv": atag, "doc": doc["tls"], "obs": obs})
                if "ok" in obs:
                    lines.append({"op": "wksr_server_args", "ciphers": obs["ciphers_loaded"], "requireClientCert": bool(app.config.tls.require_client_cert), "hostname": host, "port": port, "debug": "--debug" in argv})
                else:
                    lines.append({"op": "is_hex_digest_string", "s": ""})
        finally:
            if stub_fastapi:
                wksr_stubs.FastAPI.add_middleware = orig_add  # type: ignore[method-assign]

    # ---------------------------------------------------------------- (4) the fingerprint text
    from cryptography.hazmat.primitives import hashes
    from cryptography.x509 import load_der_x509_certificate

    for i in range(3 if tier == "quick" else 8):
        der = wksr_stubs.make_cert(f"fp-{i}", 100 + i, ec=True)
        app = wksr_stubs.FakeApp(wksr_stubs.FakeConfig(wksr_stubs.FakeKsrConfig(1, "x", Path("."))))
        try:
            got = server.request_peercert_digest(wksr_stubs.FakeRequest(app, der))
        except Exception as e:  # noqa: BLE001
            got = {"error": lib.error_kind(e)}
        digest = load_der_x509_certificate(der).fingerprint(hashes.SHA256())
        cases.append({"kind": "fingerprint", "i": i, "der": der, "got": got, "digest": digest})
        lines.append({"op": "fingerprint_hex", "digest": hexs(digest)})

    model = run_driver(lines, exe=DRIVER) if driver_ok else [None] * len(lines)
    for c, m in zip(cases, model):
        kind = c["kind"]
        res.bump("config:kind:" + kind)
        if kind == "entry":
            s = c["s"]
            case = {"stream": "config", "what": "whitelist-entry", "entry": s, "codepoints": [ord(x) for x in s]}
            res.count(case)
            accepted = "ok" in c["out"]
            res.bump("config:entry:" + ("accepted" if accepted else "refused"))
            if accepted and not oracle_hex(s):
                res.violation("the configuration accepts a whitelist entry that is not a string of hex digits", case, key="config:entry-format", observed=c["out"])
            if accepted and c["out"]["ok"] != s:
                res.violation("the configuration changes a whitelist entry while loading it", case, key="config:entry-changed", observed=c["out"])
            if m is not None and bool(m) != accepted:
                res.disagreement("isHexDigestString: model != pydantic validator", case, c["out"], m)
            continue
        if kind == "tls":
            case = {"stream": "config", "what": "tls", "variant": c["tag"], "changes": _plain(c["doc"])}
            res.count(case)
            out, t = c["out"], c["tls"]
            res.bump("config:tls:" + c["tag"].split(":")[0] + ":" + ("loaded" if "ok" in out else "refused"))
            if "ok" in out:
                ok = out["ok"]
                if "require_client_cert" not in t and ok["requireClientCert"] is not True:
                    res.violation("a configuration that does not mention require_client_cert was loaded with client verification not required", case, key="config:tls:default-insecure", observed=out)
                if isinstance(t.get("require_client_cert"), bool) and ok["requireClientCert"] is not t["require_client_cert"]:
                    res.violation("require_client_cert of the document is not the loaded value", case, key="config:tls:rcc", observed=out)
                bad = [x for x in ok["clientWhitelist"] if not oracle_hex(x)]
                if bad:
                    res.violation("a whitelist entry that is not a string of hex digits was loaded", case, key="config:tls:entry-format", observed=out)
                if isinstance(t.get("client_whitelist"), list) and ok["clientWhitelist"] != t["client_whitelist"]:
                    res.violation("the loaded whitelist is not the document's whitelist", case, key="config:tls:whitelist-changed", observed=out)
                if "client_whitelist" not in t and ok["clientWhitelist"] != []:
                    res.violation("clients are whitelisted that the document does not name", case, key="config:tls:whitelist-default", observed=out)
            _cmp_model(res, c, m, out, case, "loadTls")
            if len([s for s in res.samples if isinstance(s, dict) and s.get("case", {}).get("what") == "tls"]) < 2 and c["tag"] in ("client_whitelist:upper", "require_client_cert:absent"):
                res.sample({"case": case, "impl": out, "model": m})
            continue
        if kind == "ksr":
            case = {"stream": "config", "what": "ksr", "variant": c["tag"], "changes": _plain(c["doc"])}
            res.count(case)
            out, k = c["out"], c["ksr"]
            res.bump("config:ksr:" + c["tag"].split(":")[0] + ":" + ("loaded" if "ok" in out else "refused"))
            if "ok" in out:
                ok = out["ok"]
                if not (isinstance(ok["maxSize"], int) and ok["maxSize"] > 0):
                    res.violation("a size limit that is not positive was loaded", case, key="config:ksr:max_size", observed=out)
                ms = k.get("max_size")
                if isinstance(ms, int) and not isinstance(ms, bool) and ok["maxSize"] != ms:
                    res.violation("max_size of the document is not the loaded limit", case, key="config:ksr:max_size-changed", observed=out)
                if isinstance(k.get("content_type"), str) and ok["contentType"] != k["content_type"]:
                    res.violation("content_type of the document is not the loaded one", case, key="config:ksr:content_type", observed=out)
            _cmp_model(res, c, m, out, case, "loadKsrSection")
            continue
        if kind == "main":
            case = {"stream": "config", "what": "main", "variant": c["tag"], "argv": c["argv"]}
            res.count(case)
            obs, t = c["obs"], c["doc"]
            res.bump("config:main:" + ("started" if "ok" in obs else "refused"))
            loadable = isinstance(t.get("require_client_cert"), bool) and all(oracle_hex(x) for x in t.get("client_whitelist", []))
            if "ok" in obs:
                o = obs["ok"]
                res.bump(f"config:main:ssl_cert_reqs:{o['ssl_cert_reqs']}")
                if not loadable and not ("require_client_cert" not in t and o["ssl_cert_reqs"] == int(ssl.CERT_REQUIRED) and all(oracle_hex(x) for x in t.get("client_whitelist", []))):
                    res.violation("the server was started from a configuration that must be refused", case, key="config:main:started", observed=_plain(obs))
                want = int(ssl.CERT_OPTIONAL) if t.get("require_client_cert") is False else int(ssl.CERT_REQUIRED)
                if o["ssl_cert_reqs"] == int(ssl.CERT_NONE):
                    res.violation("the TLS server is told not to ask for client certificates (CERT_NONE)", case, key="config:main:cert-none", observed=_plain(obs))
                elif o["ssl_cert_reqs"] != want:
                    res.violation("ssl_cert_reqs is not what require_client_cert says", case, key="config:main:cert-reqs", observed=_plain(obs), expected=want)
                if obs["ssl_ca_certs"] != t["ca_cert"] or obs["ssl_certfile"] != t["cert"] or obs["ssl_keyfile"] != t["key"]:
                    res.violation("the TLS server is given other files than the configuration names", case, key="config:main:files", observed=_plain(obs))
                if not obs["app_is_wksr"] or obs["app_whitelist"] != t.get("client_whitelist", []):
                    res.violation("the application served does not carry the document's whitelist", case, key="config:main:whitelist", observed=_plain(obs))
                if obs["middleware"] is not None and "ClientCertificateWhitelist" not in obs["middleware"]:
                    res.violation("the application served has no whitelist middleware", case, key="config:main:middleware", observed=_plain(obs))
                if o["ssl_ciphers"] != ":".join(t["ciphers"] if "ciphers" in t else obs["ciphers_loaded"]):
                    res.violation("ssl_ciphers is not the configured list joined by colons", case, key="config:main:ciphers", observed=_plain(obs))
                if m is not None and m != o:
                    res.disagreement("serverArgs: model != main()", case, o, m)
            elif obs.get("error") != "validation":
                res.violation("main() neither started the server nor refused the configuration with a validation error", case, key="config:main:other-failure", observed=_plain(obs))
            else:
                if loadable:
                    res.violation("main() refused a loadable configuration", case, key="config:main:refused", observed=_plain(obs))
            if c["tag"] in ("rcc=False:ciphers=absent", "rcc=absent") and c["argv"] == "default":
                res.sample({"case": case, "impl": _plain(obs), "model": m})
            continue
        if kind == "fingerprint":
            case = {"stream": "config", "what": "fingerprint", "certificate": c["i"]}
            res.count(case)
            want_fp = hashlib.sha256(c["der"]).hexdigest()
            if c["got"] != want_fp:
                res.violation("request_peercert_digest is not the lower-case hex SHA-256 of the DER certificate", case, key="config:fingerprint", observed=c["got"], expected=want_fp)
            if m is not None and m != c["got"]:
                res.disagreement("fingerprintHex: model != request_peercert_digest", case, c["got"], m)


def _plain(x: Any) -> Any:
    if isinstance(x, dict):
        return {str(k): _plain(v) for k, v in x.items()}
    if isinstance(x, (list, tuple)):
        return [_plain(v) for v in x]
    if isinstance(x, (str, int, float, bool)) or x is None:
        return x
    return repr(x)


def _cmp_model(res: Result, c: dict[str, Any], m: Any, out: Any, case: Any, what: str) -> None:
    if not c["typed"]:
        res.unsupported += 1  # a value of another type than declared (pydantic's lax coercions): judged by the spec only
        return
    if m is None:
        return
    if lib.is_unsupported(m):
        res.unsupported += 1
        return
    if not (m == out or same_outcome(out, m)):
        res.disagreement(f"{what}: model != implementation", case, out, m)


# --------------------------------------------------------------------------------------
# route
# --------------------------------------------------------------------------------------


def stream_route(res: Result, tier: str, driver_ok: bool) -> None:
    import yaml

    import corr_C20 as base
    import kskm.common.signature as sigmod
    from kskm.ksr.load import request_from_xml

    DRIVER = base.DRIVER
    server = wksr_stubs.load_server()
    HTTPException = wksr_stubs.http_exception_class()
    r = lib.rng("C20:route")
    data = REPO / "src/kskm"
    good = (data / "signer/tests/data/ksr-root-2017-q2-0.xml").read_bytes()
    skr_q1 = (data / "signer/tests/data/skr-root-2017-q1-0.xml").read_bytes()
    skr_same = (data / "signer/tests/data/skr-root-2017-q2-0.xml").read_bytes()
    first_inception_us = lib.dt_us(request_from_xml(good.decode()).bundles[0].inception)
    CT = "application/xml"
    HOSTILE = "../../etc/passwd\x00\n.xml"

    # uploads: (tag, dict) — body, previous SKR, policy overrides, request fields
    def U(tag: str, **kw: Any) -> tuple[str, dict[str, Any]]:
        u = {"body": good, "skr": None, "policy": {}, "ct": CT, "size": "len", "fn": base.GOOD_NAME, "max": 1 << 20, "dir": "ok", "cfg": "ok"}
        u.update(kw)
        return tag, u

    uploads = dict(
        [
            U("accepted"), U("accepted-chained", skr=skr_q1), U("refused-policy", policy={"num_bundles": 8}), U("refused-chain", skr=skr_same),
            U("not-xml", body=b"hello world\n"), U("truncated", body=good[: len(good) // 2]), U("bad-signer-config", cfg="bad"), U("default-signer-config", cfg="none"),
            U("damaged-previous-skr", skr=base._flip_after(skr_q1, b"<SignatureData>")),
            U("wrong-content-type", ct="text/plain"), U("no-content-type", ct=None), U("no-size", size=None), U("size=limit", max=len(good)), U("size=limit+1", max=len(good) - 1),
            U("hostile-name", fn=HOSTILE), U("no-name", fn=None), U("missing-upload-dir", dir="missing"), U("sig-bitflip", body=base._flip_after(good, b"<SignatureData>")),
        ]
    )  # fmt: skip
    peers = ["listed", "unlisted", "upper-entry", "empty-list", "noTls", "noCert", "garbage"]
    notifies = ["none", "smtp-empty", "delivered", "smtp-refuses"]
    plan: list[tuple[str, str, str]] = [("listed", u, "none") for u in uploads]
    plan += [("listed", u, n) for u in ("accepted", "refused-policy", "not-xml", "wrong-content-type") for n in notifies[1:]]
    plan += [(p, u, n) for p in peers[1:] for u in ("accepted", "wrong-content-type", "size=limit+1", "hostile-name") for n in ("none", "delivered")]
    for _ in range(0 if tier == "quick" else 60):
        plan.append((r.choice(peers), r.choice(list(uploads)), r.choice(notifies)))
    seen: set[Any] = set()
    plan = [p for p in plan if not (p in seen or seen.add(p))]

    certA = wksr_stubs.make_cert("route-listed", 1, ec=True)
    certB = wksr_stubs.make_cert("route-unlisted", 2, ec=True)
    fpA = hashlib.sha256(certA).hexdigest()

    events: list[Any] = []

    class Upload(wksr_stubs.FakeUpload):
        async def read(self, size: int = -1) -> bytes:
            events.append("readBody")
            return await super().read(size)

    class Templates(server.Jinja2Templates):  # type: ignore[misc,name-defined]
        def TemplateResponse(self, request: Any = None, name: Any = None, context: Any = None, **kw: Any) -> Any:
            events.append("respond")
            return {"template": name, "context": context}

        def get_template(self, name: str) -> Any:
            return types.SimpleNamespace(render=lambda **env: f"KSR {env['filename']} {env['result']['status']}")

    smtp_state = {"refuse": False}

    class SMTP:
        def __init__(self, host: str = "", *a: Any, **kw: Any) -> None:
            events.append("mail")
            if smtp_state["refuse"]:
                raise ConnectionRefusedError("smtp refuses")
            self.host = host

        def send_message(self, msg: Any) -> None:
            events.append(("sent", self.host, str(msg["Subject"]), str(msg["To"])))

        def quit(self) -> None:
            pass

    real_validate = server.validate_ksr

    def validate_rec(app: Any, filename: Any) -> Any:
        p = Path(filename)
        if p.is_file():
            events.append("write:" + str(p) + ":" + hashlib.sha256(p.read_bytes()).hexdigest())
        events.append("validate:" + str(p))
        return real_validate(app, filename)

    cases: list[dict[str, Any]] = []
    lines: list[dict[str, Any]] = []
    real_smtplib = server.smtplib
    rec = lib.VerifyRecorder().install(sigmod)
    server.validate_ksr = validate_rec
    server.smtplib = types.SimpleNamespace(SMTP=SMTP)
    try:
        with tempfile.TemporaryDirectory(prefix="kskm_c20_route_") as top, lib.PinnedClock() as clock, wksr_stubs.FixedClock(server, base.WHEN):
            root = Path(top).resolve()
            updir_ok = root / "upload"
            updir_ok.mkdir()
            (root / "sibling").mkdir()
            (root / "sibling" / "precious.txt").write_text("do not touch")
            now_us = first_inception_us - 5 * lib.DAY_US
            clock.now_us = now_us
            for n, (ptag, utag, ntag) in enumerate(plan):
                u = uploads[utag]
                d = root / f"cfg{n}"
                d.mkdir()
                pol = dict(base.BASE_POLICY)
                pol["signature_check_expire_horizon"] = False
                pol.update(u["policy"])
                scfg: dict[str, Any] = {"request_policy": pol}
                if u["skr"] is not None:
                    (d / "previous-skr.xml").write_bytes(u["skr"])
                    scfg["filenames"] = {"previous_skr": str(d / "previous-skr.xml")}
                if u["cfg"] == "bad":
                    scfg["request_policy"] = dict(pol, no_such_option=1)
                cfg_path: Path | None = d / "ksrsigner.yaml"
                if u["cfg"] == "none":
                    cfg_path = None
                    clock.now_us = lib.dt_us(base.datetime.now(base.timezone.utc))
                else:
                    assert cfg_path is not None
                    cfg_path.write_text(yaml.safe_dump(scfg))
                    clock.now_us = now_us
                updir = updir_ok if u["dir"] == "ok" else root / "no-such-dir"
                body: bytes = u["body"]
                size = len(body) if u["size"] == "len" else u["size"]
                whitelist = [fpA.upper()] if ptag == "upper-entry" else ([] if ptag == "empty-list" else [fpA])
                peer: Any = {"listed": certA, "upper-entry": certA, "empty-list": certA, "unlisted": certB, "noTls": "noTls", "noCert": "noCert", "garbage": b"not a certificate"}[ptag]
                config = wksr_stubs.FakeConfig(wksr_stubs.FakeKsrConfig(u["max"], CT, updir, cfg_path), wksr_stubs.FakeTls(whitelist))
                config.templates = types.SimpleNamespace(upload="upload.html", result="result.html", email="email.txt")  # type: ignore[attr-defined]
                smtp_server = {"none": None, "smtp-empty": "", "delivered": "mx.example.org", "smtp-refuses": "mx.example.org"}[ntag]
                config.notify = None if smtp_server is None else types.SimpleNamespace(smtp_server=smtp_server, subject="KSR received", from_="wksr@example.org", to="ops@example.org")  # type: ignore[assignment]
                smtp_state["refuse"] = ntag == "smtp-refuses"
                app = wksr_stubs.FakeApp(config)
                app.templates = Templates()  # type: ignore[attr-defined]
                req = wksr_stubs.FakeRequest(app, peer)
                up = Upload(u["fn"], u["ct"], size, body)
                mw = server.ClientCertificateWhitelist(None)
                del events[:]
                before = base.snapshot(root)
                rec.take()

                async def call_next(rq: Any) -> Any:
                    events.append("handler")
                    return await server.upload_post(rq, up)

                try:
                    ret = asyncio.run(mw.dispatch(req, call_next))
                    ctx = ret["context"]
                    out: Any = {"page": {"status": ctx["result"].get("status"), "filename": str(ctx["filename"]), "filehash": ctx["filehash"], "client_digest": ctx["client_digest"]}}
                    page_extra = {"template": ret["template"], "message": ctx["result"].get("message"), "subject": ctx.get("client_subject")}
                except HTTPException as e:  # type: ignore[misc]
                    out, page_extra = {"http": e.status_code}, {}
                except OSError as e:
                    out, page_extra = ({"error": "os"} if "mail" not in events else {"error": lib.error_kind(e)}), {}
                except Exception as e:  # noqa: BLE001
                    out, page_extra = {"error": lib.error_kind(e)}, {}
                verify_log = rec.take()
                after = base.snapshot(root)
                created = sorted(set(after) - set(before) - {f"cfg{n}/"})
                changed = sorted(k for k in before if after.get(k) != before[k])
                ev = list(events)
                stored = [root / c for c in created if not c.endswith("/")]
                # ---- the signer's own functions on the stored file, as it is now
                exp = parts = None
                if len(stored) == 1:
                    exp, parts = base.signer_says(cfg_path, stored[0])
                    rec.take()
                # ---- the model's inputs
                parse_ok, fp_real = False, ""
                if isinstance(peer, bytes):
                    try:
                        from cryptography.hazmat.primitives import hashes
                        from cryptography.x509 import load_der_x509_certificate

                        fp_real = hexs(load_der_x509_certificate(peer).fingerprint(hashes.SHA256()))
                        parse_ok = True
                    except Exception:  # noqa: BLE001
                        parse_ok = False
                fn = u["fn"]
                line: dict[str, Any] = {
                    "op": "upload_route", "parseOk": parse_ok, "truthy": True, "fingerprint": fp_real, "whitelist": whitelist,
                    "cfgContentType": CT, "maxSize": u["max"], "uploadDir": base.cps(str(updir)), "contentType": u["ct"], "size": size,
                    "filename": None if fn is None else base.cps(str(fn)), "body": hexs(body), "suffix": base.cps(base.SUFFIX),
                    "openOk": u["dir"] == "ok" and base.name_fits(fn), "hashHex": hashlib.sha256(body).hexdigest(), "mailOk": ntag != "smtp-refuses",
                }  # fmt: skip
                if smtp_server is not None:
                    line["smtpServer"] = smtp_server
                if isinstance(peer, bytes):
                    line.update({"peer": "der", "der": hexs(peer)})
                else:
                    line.update({"peer": peer})
                if any(isinstance(e, str) and e.startswith("validate:") for e in ev):
                    vl = base.verdict_model_line(cfg_path, body, clock.now_us, verify_log)
                    rec.take()
                    line.update({k: v for k, v in vl.items() if k != "op"})
                lines.append(line)
                cases.append({"ptag": ptag, "utag": utag, "ntag": ntag, "u": u, "peer": peer, "out": out, "extra": page_extra, "events": ev, "created": created, "changed": changed,
                              "reads": up.reads, "parse_ok": parse_ok, "whitelist": whitelist, "root": root, "updir": updir, "exp": exp, "parts": parts, "body": body, "size": size, "stored_hash": {c: after[c] for c in created}})  # fmt: skip
                for c in created:
                    with contextlib.suppress(OSError):
                        (root / c).unlink()
    finally:
        server.validate_ksr = real_validate
        server.smtplib = real_smtplib
        rec.uninstall()

    model = run_driver(lines, exe=DRIVER) if driver_ok else [None] * len(lines)
    for c, m in zip(cases, model):
        u, out, ev = c["u"], c["out"], c["events"]
        case = {"stream": "route", "peer": c["ptag"], "upload": c["utag"], "notify": c["ntag"]}
        res.count(case)
        res.bump("route:peer:" + c["ptag"])
        res.bump("route:upload:" + c["utag"])
        res.bump("route:notify:" + c["ntag"])
        kindo = ("page:" + str(out["page"]["status"])) if "page" in out else (str(out.get("http")) if "http" in out else "exception")
        res.bump("route:outcome:" + kindo)
        root: Path = c["root"]
        peer = c["peer"]
        obs = {"out": out, "events": [e if isinstance(e, str) else list(e) for e in ev], "created": c["created"], "changed": c["changed"], "body_reads": c["reads"]}
        validated = [e.split(":", 1)[1] for e in ev if isinstance(e, str) and e.startswith("validate:")]
        mailed = [e for e in ev if e == "mail"]
        # ---------------- the property, from its text
        listed = isinstance(peer, bytes) and c["parse_ok"] and hashlib.sha256(peer).hexdigest() in c["whitelist"]
        if not listed:
            if c["created"] or c["changed"] or c["reads"] or validated or mailed or "handler" in ev or "respond" in ev:
                res.violation("a client that is not on the whitelist got past the middleware (something was read, written, validated, mailed or rendered)", case, key="route:unlisted-served", **obs)
            if c["ptag"] in ("unlisted", "upper-entry", "empty-list") and out != {"http": 403}:
                res.violation("an unlisted certificate was not answered with 403", case, key="route:unlisted-status", **obs)
            if "page" in out:
                res.violation("a client that is not on the whitelist was shown a result page", case, key="route:unlisted-page", **obs)
        else:
            gate: Any = None
            if u["ct"] != CT:
                gate = {"http": 400}
            elif c["size"] is None:
                gate = {"http": 400}
            elif c["size"] > u["max"]:
                gate = {"http": 413}
            if gate is not None:
                if out != gate:
                    res.violation("route: a gate did not answer with its status", case, key="route:gate-status", expected=gate, **obs)
                if c["created"] or c["changed"] or c["reads"] or validated or mailed or "respond" in ev:
                    res.violation("route: an upload refused by a gate was read, written, validated, mailed or rendered", case, key="route:gate-effects", **obs)
            elif u["dir"] != "ok":
                if c["created"] or c["changed"] or validated or "page" in out:
                    res.violation("route: nothing can be stored, yet something was written / validated / reported", case, key="route:no-dir", **obs)
            else:
                want_name = base.oracle_wash(str(u["fn"])) + base.SUFFIX + ".xml"
                want_rel = "upload/" + want_name
                if c["created"] != [want_rel] or c["changed"] or c["stored_hash"].get(want_rel) != hashlib.sha256(c["body"]).hexdigest():
                    res.violation("route: not exactly one file, holding the body, under the washed name inside the upload directory", case, key="route:stored", expected=want_rel, **obs)
                if validated != [str(root / want_rel)]:
                    res.violation("route: validate_ksr was not called exactly once, on the stored path", case, key="route:validated-path", expected=str(root / want_rel), **obs)
                wi = [i for i, e in enumerate(ev) if isinstance(e, str) and e.startswith("write:")]
                if not wi or not ev[wi[0]].endswith(":" + hashlib.sha256(c["body"]).hexdigest()):
                    res.violation("route: the upload was not completely stored when it was validated", case, key="route:stored-before-validated", **obs)
                exp = c["exp"]
                if exp is not None:
                    if "ok" in exp:
                        # the signer's own functions accept / raise a policy violation on the stored file
                        if c["ntag"] == "smtp-refuses":
                            if "page" in out:
                                res.violation("route: a page although the notification failed", case, key="route:mail-failure", **obs)
                        elif "page" not in out or out["page"]["status"] != exp["ok"]:
                            res.violation("the receiver does not report what the signer's own validation says about the stored file", case, key="route:verdict", signer_functions_say=exp, detail=c["parts"], **obs)
                    else:
                        if "page" in out or "http" in out:
                            res.violation("the signer's functions fail on the stored file with something else than a policy violation, yet the receiver reports a verdict", case, key="route:verdict-exception", signer_functions_say=exp, detail=c["parts"], **obs)
                if "page" in out:
                    pg = out["page"]
                    if pg["filename"] != str(root / want_rel) or pg["filehash"] != hashlib.sha256(c["body"]).hexdigest() or pg["client_digest"] != hashlib.sha256(peer).hexdigest():
                        res.violation("route: the page does not name the stored file, its SHA-256 and the client's fingerprint", case, key="route:page-context", **obs)
                    if c["extra"].get("template") != "result.html":
                        res.violation("route: the result is not rendered with the configured result template", case, key="route:template", **obs)
                    if ev and ev[-1] != "respond":
                        res.violation("route: the page is not the last thing that happens", case, key="route:order", **obs)
        # ---------------- the model
        if m is not None:
            mo = m.get("out")
            if lib.is_unsupported(mo):
                res.unsupported += 1
            else:
                # implementation, in the model's vocabulary
                io = out
                if "page" in out:
                    io = {"page": dict(out["page"])}
                    mo = {"page": {k: ("".join(chr(x) for x in v) if k == "filename" else v) for k, v in mo["page"].items() if k in ("status", "filename", "filehash", "client_digest")}} if isinstance(mo, dict) and "page" in mo else mo
                if not (io == mo or same_outcome(io, mo)):
                    res.disagreement("handleUpload: model != implementation (outcome)", case, obs, m)
                iev = []
                for e in ev:
                    if e == "readBody":
                        iev.append("readBody")
                    elif isinstance(e, str) and e.startswith("write:"):
                        iev.append("write:" + e.split(":")[1])
                    elif isinstance(e, str) and e.startswith("validate:"):
                        iev.append(e)
                    elif e in ("mail", "respond"):
                        iev.append(e)
                mev = []
                for e in m.get("effects", []):
                    k = e.get("e")
                    if k == "readBody":
                        mev.append("readBody")
                    elif k == "write":
                        mev.append("write:" + "".join(chr(x) for x in e["path"]))
                    elif k == "validate":
                        mev.append("validate:" + "".join(chr(x) for x in e["path"]))
                    elif k in ("mail", "respond"):
                        mev.append(k)
                if iev != mev:
                    res.disagreement("handleUpload: model != implementation (order of events)", case, iev, mev)
        if c["utag"] in ("accepted", "refused-policy") and c["ntag"] in ("none", "delivered") and c["ptag"] in ("listed", "upper-entry"):
            res.sample({"case": case, "impl": {"out": out, "events": [e if isinstance(e, str) else list(e) for e in ev]}, "model": None if m is None else {"out": ({"page": {"status": m["out"]["page"]["status"]}} if isinstance(m.get("out"), dict) and "page" in m["out"] else m.get("out")), "effects": [e.get("e") for e in m.get("effects", [])]}})


STREAMS = [("config", stream_config), ("route", stream_route)]
