"""C09 correspondence: KSK publish / retire safety — implementation vs. Lean model vs. the documented region.

(previous SKR, new SKR) pairs are built as kskm.skr.data.Response objects straight from signing schemas: for
every slot the schema's publish / sign / revoke key names become the bundle's key set (ZSKs + published KSKs with
flags 257 + revoked KSKs with flags 385 — exactly what sign_bundles() assembles) and one signature per signing
key.  Sources of schemas: the seven example schemas of /repo/config/ksrsigner.yaml (every ordered pair, three
ways of mapping the role names onto 2..3 key identifiers) and custom families that drop / revoke a key at slot j.
Safety periods sit on the lattice around the decisive differences.  IDENTIFIER RELATIONS (`ID_RELATIONS`): the rules speak of
"the key" by its identifier and compare identifiers for equality; the families that turn on "revoked / published / signs"
(among them: the co-signer of one / of two revoked keys vanishes), every ordered pair of example schemas and random
four-role schemas are therefore also spelled with identifiers that are DISTINCT but related as strings — one a proper prefix /
suffix / inner substring of another, differing only in case, in the last character, in a blank at an end, anagrams, numbered
labels (ksk1 / ksk10), the empty identifier, an identifier that is a piece of a ", "-joined (or repr) listing of the others,
NFC vs NFD — under every assignment of the related identifiers to the roles.  Three verdicts are compared:
  * check_last_skr_and_new_skr() of /repo (and each half on its own),
  * the model driver (`check_last_skr_and_new_skr`, `safety_check`),
  * `region()` below, transliterated from the C09 statement.
impl != region -> failing input of the property (VIOLATION);  impl != model -> broken tie (disagreement).
Entry-point stream (`run_glue_stream`): the real ksrsigner() with loaders / signer / writer stubbed decides whether the
freshly signed SKR reaches the output file.  Every picked pair runs under all four flag subsets with the previous SKR
named (a) on the command line only, (b) in the configuration (`filenames.previous_skr`) only, (c) in both places — the
configuration then names ANOTHER previous SKR (one under which the verdict is the opposite, where the stream has one; the
command line wins) — and (d) nowhere (nothing to check against: the SKR is written).  Chain flags are off, so a
publish- / retire-safety violation is the ONLY thing between the signed SKR and the file.
"""

from __future__ import annotations

import itertools
from typing import Any

import lib
from corr_C08 import base_ksr, mk_key, mk_sig, response_from_j
from lib import DAY_US, Result, request_policy_j, response_j, run_driver, run_impl, same_outcome, us_dt, us_td

DRIVER = "kskm_driver_pkgb"
ASSUMPTIONS = [
    "entry-point stream: ksrsigner() is run with load_skr / load_ksr / init_pkcs11_modules / create_skr / output_skr_xml replaced by recording stubs; only the position and effect of the check_last_skr_and_new_skr call relative to the write, and WHICH previous-SKR file name (command line / configuration) reaches load_skr, are observed (whole ceremonies with real files: C03's safety-only gates and C10)",
    "the two checks read nothing but the two Response objects and their own flags; no token, clock or verifier is involved",
    "bundles are built from schemas the way sign_bundles() assembles them (publish ∪ sign as flags 257, revoke as flags 385 overriding, one signature per signing key); the signing itself is C01/C02's subject",
]
TRUSTED: list[str] = []

SEC = 10**6
OFFSETS = [-DAY_US, -SEC, 0, SEC, DAY_US]
FLAGS = ["check_keys_publish_safety", "check_keys_retire_safety"]
START = 1_500_000_000 * SEC
INTERVAL = 10 * DAY_US
VALIDITY = 21 * DAY_US
CYCLE = 90 * DAY_US
HALVES = ["check_publish_safety", "check_retire_safety"]

Schema = list[dict[str, list[str]]]  # per slot: {"publish": [...], "sign": [...], "revoke": [...]} over role names


def as_list(x: Any) -> list[str]:
    if x is None:
        return []
    return [x] if isinstance(x, str) else list(x)


def example_schemas() -> dict[str, Schema]:
    """The `schemas:` section of the example configuration, slot order 1..n."""
    import yaml

    cfg = yaml.safe_load((lib.REPO / "config" / "ksrsigner.yaml").read_text())
    out: dict[str, Schema] = {}
    for name, slots in cfg["schemas"].items():
        out[name] = [{"publish": as_list(slots[i].get("publish")), "sign": as_list(slots[i].get("sign")), "revoke": as_list(slots[i].get("revoke"))} for i in sorted(slots)]
    return out


def slot(publish: list[str], sign: list[str], revoke: list[str] | None = None) -> dict[str, list[str]]:
    return {"publish": publish, "sign": sign, "revoke": revoke or []}


def custom_schemas(n: int = 9) -> dict[str, Schema]:
    """Families that drop / revoke a key at slot j (1-based), over the roles cur / next / third."""
    c, x, t, f = "ksk_current", "ksk_next", "ksk_third", "ksk_fourth"
    out: dict[str, Schema] = {}
    for j in range(1, n + 1):
        # cur signs up to slot j-1, then vanishes for good (non-revoked signer disappears)
        out[f"drop-signer-from:{j}"] = [slot([c, x], [c]) if i < j else slot([x], [x]) for i in range(1, n + 1)]
        # cur never signs here; it is unpublished from slot j on (decides the retire-safety window only)
        out[f"unpublish-from:{j}"] = [slot([c, x], [x]) if i < j else slot([x], [x]) for i in range(1, n + 1)]
        # cur missing in slot j only
        out[f"unpublish-at:{j}"] = [slot([c, x], [x]) if i != j else slot([x], [x]) for i in range(1, n + 1)]
        # cur revoked and signing in slot j only, absent afterwards (the exemption)
        out[f"revoke-at:{j}"] = [slot([c, x], [x]) if i < j else (slot([x], [c, x], [c]) if i == j else slot([x], [x])) for i in range(1, n + 1)]
        # same without the REVOKE bit: cur signs slot j as an ordinary key, absent afterwards
        out[f"sign-once-at:{j}"] = [slot([c, x], [x]) if i < j else (slot([c, x], [c, x]) if i == j else slot([x], [x])) for i in range(1, n + 1)]
        # cur signs slot j-1 as an ordinary key, is published revoked (not signing) in slot j, absent afterwards
        out[f"revoked-after-signing:{j}"] = [slot([c, x], [c, x]) if i == j - 1 else (slot([x], [x], [c]) if i == j else (slot([c, x], [x]) if i < j else slot([x], [x]))) for i in range(1, n + 1)]
        # a bundle with a revoked key (cur) whose OTHER signer (next) signs only there and vanishes afterwards
        out[f"co-signer-of-revoked-vanishes:{j}"] = [slot([c, x, t], [t]) if i < j else (slot([x, t], [c, x, t], [c]) if i == j else slot([t], [t])) for i in range(1, n + 1)]
        # cur signs slot j-1 only, is missing from slot j only, published again afterwards (adjacent pair decides)
        out[f"gap-right-after-signing:{j}"] = [slot([c, x], [c, x]) if i == j - 1 else (slot([x], [x]) if i == j else slot([c, x], [x])) for i in range(1, n + 1)]
        # three keys: third joins at slot j and takes over signing at the last slot
        out[f"third-joins:{j}"] = [slot([c, x] + ([t] if i >= j else []), [t] if (i == n and j <= n) else [c]) for i in range(1, n + 1)]
        # TWO revoked keys (cur, next) in slot j whose co-signer (third) signs only there and vanishes afterwards; a fourth key carries on
        out[f"co-signer-of-two-revoked-vanishes:{j}"] = [slot([c, x, t, f], [f]) if i < j else (slot([t, f], [c, x, t, f], [c, x]) if i == j else slot([f], [f])) for i in range(1, n + 1)]
    return out


ROLEMAPS = {
    "same": {"ksk_current": "KA", "ksk_next": "KB", "ksk_third": "KC", "ksk_fourth": "KD"},
    "shifted": {"ksk_current": "KB", "ksk_next": "KC", "ksk_third": "KA", "ksk_fourth": "KD"},
    "swapped": {"ksk_current": "KB", "ksk_next": "KA", "ksk_third": "KC", "ksk_fourth": "KD"},
}

# IDENTIFIER RELATIONS.  The rules compare key identifiers for EQUALITY ("published", "revoked", "signs"); identifiers that are
# distinct but related as strings must behave exactly like unrelated ones.  Each entry: four distinct identifiers, the first
# two (or three) carrying the relation; every assignment of them to the roles cur / next / third is run (both directions of
# an asymmetric relation, each key in the revoked, the signing and the vanishing position).
ID_RELATIONS: dict[str, tuple[str, str, str, str]] = {
    "prefix": ("KC2016", "KC2016b", "KC2020", "KD"),  # KC2016 is a proper prefix of KC2016b
    "suffix": ("C2016", "KC2016", "KC2020", "KD"),  # … a proper suffix
    "inner": ("C201", "KC2016", "KX9", "KD"),  # … an inner substring
    "case": ("kc2016", "KC2016", "Kc2016", "KD"),  # differ only in case
    "trailing": ("KC2016a", "KC2016b", "KC2016", "KD"),  # differ only in the last character (and their common prefix)
    "anagram": ("KC2016", "KC2061", "KC6120", "KD"),  # same characters, other order
    "digits": ("ksk1", "ksk10", "ksk01", "KD"),  # numbered labels
    "empty": ("", "KC2016", "KX9", "KD"),  # the empty identifier is a substring of everything
    "blank": ("KC2016", "KC2016 ", " KC2016", "KD"),  # differ by a blank at either end
    # the identifier IS a piece of a listing of the others (", " / "," / " " joined, a Python list's repr)
    "listing-comma-blank": ("KA", "KB", "A, K", "KD"),
    "listing-comma": ("KA", "KB", "A,K", "KD"),
    "listing-blank": ("KA", "KB", "A K", "KD"),
    "listing-repr": ("KA", "KB", "', '", "KD"),
    "nfc-nfd": ("K\u00e9", "Ke\u0301", "Ke", "KD"),  # canonically equivalent, not equal
}
ROLES4 = ["ksk_current", "ksk_next", "ksk_third", "ksk_fourth"]


def relation_maps() -> dict[str, dict[str, str]]:
    """name -> role map, for every relation x every assignment of its first three identifiers to cur / next / third."""
    out: dict[str, dict[str, str]] = {}
    for rel, ids in ID_RELATIONS.items():
        assert len(set(ids)) == 4, rel
        for pi, perm in enumerate(itertools.permutations(range(3))):
            out[f"{rel}/{pi}"] = {ROLES4[k]: ids[perm[k]] for k in range(3)} | {ROLES4[3]: ids[3]}
    return out


def build(schema: Schema, roles: dict[str, str], first_inc: int, rid: str, ps: int, rs: int, *, slots: range | None = None, zsk_shift: int = 0, revoked_flags: int = 385) -> Any:
    """A Response whose bundle for slot i is what sign_bundles() would assemble from schema[i]."""
    from kskm.common.data import SignaturePolicy
    from kskm.skr.data import Response, ResponseBundle

    bundles = []
    idx = range(len(schema)) if slots is None else slots
    for i in idx:
        s = schema[i]
        inc = first_inc + i * INTERVAL
        exp = inc + VALIDITY
        keys = [mk_key(f"Z{zsk_shift + (1 if i > 0 else 0)}", tag=100 + i)]
        state: dict[str, int] = {}
        for name in s["publish"]:
            state.setdefault(roles[name], 257)
        for name in s["revoke"]:
            state[roles[name]] = revoked_flags
        for name in s["sign"]:
            state.setdefault(roles[name], 257)
        for ident, flags in state.items():
            keys.append(mk_key(ident, flags, tag=200 + (1 if flags != 257 else 0)))
        sigs = [mk_sig(roles[name], inc, exp, tag=200) for name in s["sign"]]
        bundles.append(ResponseBundle(id=f"{rid}-{i + 1}", inception=us_dt(inc), expiration=us_dt(exp), keys=set(keys), signatures=set(sigs)))
    ksk = SignaturePolicy(publish_safety=us_td(ps), retire_safety=us_td(rs))
    return Response(id=rid, serial=1, domain=".", timestamp=None, zsk_policy=SignaturePolicy(), ksk_policy=ksk, bundles=bundles)


# --------------------------------------------------------------------------------------
# the documented region (from the property text)
# --------------------------------------------------------------------------------------


def region(last: Any, new: Any) -> dict[str, bool] | None:
    if not last.bundles or not new.bundles:
        return None
    prev, first = last.bundles[-1], new.bundles[0]

    def published(b: Any) -> set[str]:
        return {k.key_identifier for k in b.keys}

    out: dict[str, bool] = {}
    # every key signing the first bundle was published in the previous SKR's last bundle; the first inception minus
    # the publish-safety period falls between that bundle's inception and expiration
    publish_point = first.inception - new.ksk_policy.publish_safety
    out["check_keys_publish_safety"] = all(s.key_identifier in published(prev) for s in first.signatures) and prev.inception <= publish_point <= prev.expiration
    # every key that signed the previous last bundle is still published in each new bundle whose inception is within
    # the retire-safety period of the first
    horizon = first.inception + new.ksk_policy.retire_safety
    prev_signers = {s.key_identifier for s in prev.signatures}
    a = all(prev_signers <= published(b) for b in new.bundles if b.inception <= horizon)
    # every non-revoked key that signs a bundle stays published in all later bundles of the same SKR
    b_ok = True
    for i, bi in enumerate(new.bundles):
        revoked = {k.key_identifier for k in bi.keys if (k.flags >> 7) & 1}
        for s in bi.signatures:
            if s.key_identifier in revoked:
                continue
            if any(s.key_identifier not in published(bj) for bj in new.bundles[i + 1 :]):
                b_ok = False
    out["check_keys_retire_safety"] = a and b_ok
    out["retire:previous-signers-kept"] = a
    out["retire:signers-stay-published"] = b_ok
    return out


# --------------------------------------------------------------------------------------
# scenarios
# --------------------------------------------------------------------------------------


class Pair:
    def __init__(self, tag: str, last: Any, new: Any) -> None:
        self.tag, self.last, self.new = tag, last, new


def scenarios(r: Any, tier: str) -> list[Pair]:
    ex = example_schemas()
    cu = custom_schemas()
    out: list[Pair] = []
    P10, P28 = 10 * DAY_US, 28 * DAY_US
    # the previous SKR's own policy is deliberately different from the new one's (the rule reads the NEW SKR's)
    LAST_PS, LAST_RS = 3 * DAY_US, 80 * DAY_US
    tail = range(7, 9)  # only the previous SKR's last bundle matters: slots 8-9 are enough outside the schema-pair stream

    def prev_of(schema: Schema, roles: dict[str, str], full: bool = False) -> Any:
        return build(schema, roles, START, "q1", LAST_PS, LAST_RS, slots=None if full else tail)

    prev_first = START
    prev_last_inc = START + 8 * INTERVAL
    prev_last_exp = prev_last_inc + VALIDITY

    # ---- every ordered pair of the example schemas x role maps x first inception -1..+2 cycles --------------------------
    for (na, a), (nb, b) in itertools.product(ex.items(), ex.items()):
        for rname, roles in ROLEMAPS.items():
            for cyc in (-1, 0, 1, 2):
                last = prev_of(a, ROLEMAPS["same"], full=(cyc == 1 and rname == "same"))
                new = build(b, roles, prev_first + cyc * CYCLE, "q2", P10, P28, zsk_shift=1)
                out.append(Pair(f"pair:{na}>{nb}:{rname}:{cyc}", last, new))

    # ---- custom families: every family x slot j, after a few previous schemas ---------------------------------------------
    prevs = {"normal": ex["normal"], "rollover": ex["rollover"], "pre-publish": ex["pre-publish"], "revoke": ex["revoke"]}
    for cname, cs in cu.items():
        for pname, ps_ in prevs.items():
            for rname in ("same", "swapped") if tier == "quick" else ROLEMAPS:
                last = prev_of(ps_, ROLEMAPS["same"])
                # retire-safety short (only the first bundles are in the window) and long (all are)
                for rs in (P28, 200 * DAY_US, 0):
                    out.append(Pair(f"custom:{cname}:{pname}:{rname}:{rs // DAY_US}", last, build(cs, ROLEMAPS[rname], prev_first + CYCLE, "q2", P10, rs, zsk_shift=1)))

    # ---- identifier relations: the families that turn on "is this identifier revoked / published / a signer", spelled with related identifiers ----
    rel_fams = ["co-signer-of-revoked-vanishes", "co-signer-of-two-revoked-vanishes", "revoke-at", "sign-once-at", "revoked-after-signing", "drop-signer-from", "unpublish-from", "gap-right-after-signing"]
    rel_slots = (1, 2, 5, 9) if tier == "quick" else range(1, 10)
    for mname, roles in relation_maps().items():
        for fam in rel_fams:
            for j in rel_slots:
                # the previous SKR is spelled with the SAME identifiers (its signer is `cur`); retire window: first bundle only / everything
                last = build(ex["normal"], roles, START, "q1", LAST_PS, LAST_RS, slots=tail)
                for rs in (0, 200 * DAY_US):
                    out.append(Pair(f"idrel:{mname}:{fam}:{j}:{rs // DAY_US}", last, build(cu[f"{fam}:{j}"], roles, prev_first + CYCLE, "q2", P10, rs, zsk_shift=1)))
    # … and every ordered pair of example schemas under one assignment per relation (publish safety reads signer / published identifiers)
    for rel in ID_RELATIONS:
        for pi in (0, 3):
            roles = relation_maps()[f"{rel}/{pi}"]
            for (na, a), (nb, b) in itertools.product(ex.items(), ex.items()):
                out.append(Pair(f"idrel-pair:{rel}/{pi}:{na}>{nb}", build(a, roles, START, "q1", LAST_PS, LAST_RS, slots=tail), build(b, roles, prev_first + CYCLE, "q2", P10, P28, zsk_shift=1)))

    # ---- publish-safety lattice: publish point vs. the previous last bundle's inception and expiration ----------------------
    for na, nb, rname in [("normal", "normal", "same"), ("pre-publish", "rollover", "same"), ("rollover", "revoke", "same"), ("revoke", "normal", "shifted"), ("normal", "rollover", "same")]:
        last = prev_of(ex[na], ROLEMAPS["same"])
        for cyc in (-1, 0, 1, 2):
            first_inc = prev_first + cyc * CYCLE
            for bname, bound in (("inception", prev_last_inc), ("expiration", prev_last_exp)):
                for d in OFFSETS:
                    ps = first_inc - (bound + d)  # publish point = bound + d (ps may be negative)
                    out.append(Pair(f"publish:{na}>{nb}:{cyc}:{bname}:{d}", last, build(ex[nb], ROLEMAPS[rname], first_inc, "q2", ps, P28, zsk_shift=1)))
        # first inception itself on the lattice around both ends, with PublishSafety = 0 and = P10D
        for ps in (0, P10):
            for bname, bound in (("inception", prev_last_inc), ("expiration", prev_last_exp)):
                for d in OFFSETS:
                    out.append(Pair(f"publish-inc:{na}>{nb}:{ps // DAY_US}:{bname}:{d}", last, build(ex[nb], ROLEMAPS[rname], bound + d + ps, "q2", ps, P28, zsk_shift=1)))

    # ---- retire-safety lattice: bundle k's inception vs. first inception + RetireSafety -----------------------------------------
    for k in range(1, 10):  # the previous signer (cur = KA) is unpublished from slot k on
        for pname in ("normal", "pre-publish"):
            last = prev_of(ex[pname], ROLEMAPS["same"])
            for kk in sorted({k, max(1, k - 1), min(9, k + 1)}):
                for d in (-SEC, 0, SEC):
                    rs = (kk - 1) * INTERVAL + d  # retire point = inception of slot kk, +- 1 s
                    for fam in ("unpublish-from", "unpublish-at"):
                        out.append(Pair(f"retire:{fam}:{k}:{pname}:slot{kk}:{d}", last, build(cu[f"{fam}:{k}"], ROLEMAPS["same"], prev_first + CYCLE, "q2", P10, rs, zsk_shift=1)))
    # negative retire safety: not even the first bundle is in the window
    last = prev_of(ex["normal"], ROLEMAPS["same"])
    for d in (-SEC, 0, SEC):
        out.append(Pair(f"retire:negative:{d}", last, build(cu["unpublish-from:1"], ROLEMAPS["same"], prev_first + CYCLE, "q2", P10, d, zsk_shift=1)))

    # ---- revoked-key exemption, bit by bit -----------------------------------------------------------------------------------------
    for flags in (385, 257, 129, 128, 384, 0x1181, -1, -129, -128, 65535, 127, 255):
        last = prev_of(ex["rollover+"], ROLEMAPS["same"])
        for j in (2, 5, 8, 9):
            out.append(Pair(f"revbit:{flags}:{j}", last, build(cu[f"revoke-at:{j}"], ROLEMAPS["same"], prev_first + CYCLE, "q2", P10, 0, zsk_shift=1, revoked_flags=flags)))

    # ---- degenerate shapes -----------------------------------------------------------------------------------------------------------
    full_new = build(ex["normal"], ROLEMAPS["same"], prev_first + CYCLE, "q2", P10, P28)
    full_last = prev_of(ex["normal"], ROLEMAPS["same"])
    out.append(Pair("empty:new", full_last, full_new.replace(bundles=[])))
    out.append(Pair("empty:last", full_last.replace(bundles=[]), full_new))
    out.append(Pair("empty:both", full_last.replace(bundles=[]), full_new.replace(bundles=[])))
    out.append(Pair("single:new", full_last, full_new.replace(bundles=full_new.bundles[:1])))
    out.append(Pair("single:last", full_last.replace(bundles=full_last.bundles[:1]), full_new))
    out.append(Pair("unsigned:new-first", full_last, full_new.replace(bundles=[full_new.bundles[0].replace(signatures=set())] + full_new.bundles[1:])))
    out.append(Pair("unsigned:prev-last", full_last.replace(bundles=full_last.bundles[:-1] + [full_last.bundles[-1].replace(signatures=set())]), full_new))
    out.append(Pair("nokeys:prev-last", full_last.replace(bundles=full_last.bundles[:-1] + [full_last.bundles[-1].replace(keys=set())]), full_new))
    out.append(Pair("same-skr-twice", full_new, full_new))
    out.append(Pair("swapped", full_new, full_last))

    # ---- random: random schema per slot over three roles, random periods --------------------------------------------------------------
    n_random = 900 if tier == "quick" else 12000
    roles3 = ["ksk_current", "ksk_next", "ksk_third"]
    rmaps = relation_maps()
    rnames = list(rmaps)
    for i in range(n_random):
        n = r.choice([2, 3, 5, 9])
        sch: Schema = []
        for _ in range(n):
            pub = [x for x in roles3 if r.random() < 0.6]
            sign = [x for x in roles3 if r.random() < 0.4] or [r.choice(roles3)]
            rev = [x for x in roles3 if r.random() < 0.15]
            sch.append(slot(pub, sign, rev))
        pname = r.choice(list(ex))
        lastp = prev_of(ex[pname], ROLEMAPS[r.choice(list(ROLEMAPS))])
        first_inc = prev_first + r.choice([-1, 0, 1, 1, 1, 2]) * CYCLE + r.choice([0, 0, SEC, -SEC, DAY_US])
        ps = r.choice([P10, 0, first_inc - prev_last_inc, first_inc - prev_last_exp, r.randrange(0, 30) * DAY_US])
        rs = r.choice([P28, 0, r.randrange(0, n) * INTERVAL + r.choice([-SEC, 0, SEC]), 200 * DAY_US])
        out.append(Pair(f"random:{i}:{pname}", lastp, build(sch, ROLEMAPS["same"], first_inc, "q2", ps, rs, zsk_shift=1)))
    # random schemas over FOUR roles spelled with related identifiers (previous SKR spelled alike), revocations more frequent
    for i in range(n_random // 2):
        n = r.choice([2, 3, 5, 9])
        sch = []
        for _ in range(n):
            pub = [x for x in ROLES4 if r.random() < 0.6]
            sign = [x for x in ROLES4 if r.random() < 0.4] or [r.choice(ROLES4)]
            rev = [x for x in ROLES4 if r.random() < 0.3]
            sch.append(slot(pub, sign, rev))
        mname = r.choice(rnames)
        pname = r.choice(list(ex))
        lastp = build(ex[pname], rmaps[mname], START, "q1", LAST_PS, LAST_RS, slots=tail)
        rs = r.choice([P28, 0, 0, r.randrange(0, n) * INTERVAL + r.choice([-SEC, 0, SEC]), 200 * DAY_US])
        out.append(Pair(f"idrel-random:{i}:{mname}:{pname}", lastp, build(sch, rmaps[mname], prev_first + CYCLE, "q2", r.choice([P10, 0]), rs, zsk_shift=1)))
    return out


def flag_sets() -> list[dict[str, bool]]:
    return [dict(zip(FLAGS, bits)) for bits in itertools.product([True, False], repeat=2)]


def policy_of(flags: dict[str, bool]) -> Any:
    from kskm.common.config_misc import RequestPolicy

    return RequestPolicy(**flags)


def call_half(name: str, last: Any, new: Any, policy: Any) -> Any:
    import kskm.signer.policy as sp

    return getattr(sp, name)(last, new, policy)


class Case:
    """(pair, flags) — the full JSON is attached only when a violation / disagreement is reported."""

    def __init__(self, tag: str, flags: dict[str, bool], lj: Any, nj: Any) -> None:
        self.tag, self.flags, self.lj, self.nj = tag, flags, lj, nj

    def full(self) -> dict[str, Any]:
        return {"tag": self.tag, "flags": self.flags, "last": self.lj, "new": self.nj}


def evaluate(p: Pair, flags: dict[str, bool], with_halves: bool, lj: Any = None, nj: Any = None) -> tuple[Any, list[dict[str, Any]], dict[str, Any]]:
    from kskm.signer.policy import check_last_skr_and_new_skr

    policy = policy_of(flags)
    impl = run_impl(lambda: check_last_skr_and_new_skr(p.last, p.new, policy))
    halves = {}
    if with_halves:
        for name in HALVES:
            halves[name] = run_impl(lambda: call_half(name, p.last, p.new, policy))
    lj = response_j(p.last) if lj is None else lj
    nj = response_j(p.new) if nj is None else nj
    pj = request_policy_j(policy)
    case = Case(p.tag, flags, lj, nj)
    lines = [{"op": "check_last_skr_and_new_skr", "last": lj, "new": nj, "policy": pj}]
    for name in halves:
        lines.append({"op": "safety_check", "check": name, "last": lj, "new": nj, "policy": pj})
    return case, lines, {"impl": impl, "halves": halves}


def judge(res: Result, last: Any, new: Any, case: Any, obs: dict[str, Any], models: list[Any], digest: str = "") -> None:
    flags = case.flags
    impl = obs["impl"]
    kind = case.tag.split(":")[0]
    res.count([digest or case.tag, flags])
    res.bump("kind:" + kind)
    if kind.startswith("idrel"):
        res.bump("identifier-relation:" + case.tag.split(":")[2 if kind == "idrel-random" else 1].split("/")[0])
    res.bump("flags:" + "".join("1" if flags[f] else "0" for f in FLAGS))
    res.bump("impl:" + ("accept" if "ok" in impl else "{}:{}".format(*next(iter(impl.items())))))
    reg = region(last, new)
    if reg is None:
        res.bump("region:not-applicable(no bundles)")
    else:
        want = all(reg[f] for f in FLAGS if flags[f])
        res.bump("region:" + ("accept" if want else "refuse"))
        if all(flags.values()):
            res.bump("clauses(all-on):publish={} retire-a={} retire-b={}".format(int(reg[FLAGS[0]]), int(reg["retire:previous-signers-kept"]), int(reg["retire:signers-stay-published"])))
        if ("ok" in impl) != want:
            res.violation("publish/retire safety: implementation verdict differs from the documented region", case.full(), key=kind, impl=impl, documented_region_accepts=want, clauses=reg)
        for name, o in obs["halves"].items():
            f = FLAGS[HALVES.index(name)]
            holds = reg[f] or not flags[f]
            if ("ok" in o) != holds:
                res.violation(f"publish/retire safety: {name} differs from its clause", case.full(), key=f"{kind}:{name}", impl=o, clause_holds=holds, clauses=reg)
    if models[0] is None:
        return
    for what, i_out, m in [("check_last_skr_and_new_skr", impl, models[0])] + [(n, o, mm) for (n, o), mm in zip(obs["halves"].items(), models[1:])]:
        if lib.is_unsupported(m):
            res.unsupported += 1
        elif isinstance(m, dict) and "driver_error" in m:
            res.disagreement(f"{what}: driver error", case.full(), i_out, m)
        elif not same_outcome(i_out, m):
            res.disagreement(f"{what}: model != implementation", case.full(), i_out, m)


PREV_SOURCES = ["cli", "config", "both", "none"]
CLI_PREV, CFG_PREV = "prev-on-command-line.xml", "prev-in-configuration.xml"


def glue_run9(ksr: Any, by_file: dict[str, Any], new: Any, policy: Any, source: str) -> tuple[list[str], Any]:
    """The real kskm.tools.ksrsigner.ksrsigner() with the file loaders, token initialisation, create_skr and the SKR writer
    replaced by recording stubs; check_skr_and_ksr and check_last_skr_and_new_skr are the real ones.  `source` says where
    the previous SKR's file name is given: "cli" (--previous_skr), "config" (filenames.previous_skr), "both", "none";
    the load_skr stub answers with `by_file[<the name it was asked for>]`.  Returns (ordered effects, outcome)."""
    import contextlib
    import io
    import logging
    from argparse import Namespace
    from pathlib import Path
    from types import SimpleNamespace

    import kskm.ksr
    import kskm.misc.hsm
    import kskm.skr
    import kskm.tools.ksrsigner as ks

    events: list[str] = []

    def rec(name: str, value: Any) -> Any:
        events.append(name)
        return value

    def load_prev(fn: Any, pol: Any, log_contents: bool = False) -> Any:
        events.append("load_skr:" + Path(str(fn)).name)
        return by_file[Path(str(fn)).name]

    args = Namespace(
        previous_skr=CLI_PREV if source in ("cli", "both") else None, ksr="ksr.xml", skr="out.xml", force=True, schema="normal", hsm=None,
        log_ksr_contents=False, log_skr_contents=False, log_previous_skr_contents=False, config=None,
    )
    filenames = SimpleNamespace(previous_skr=Path(CFG_PREV) if source in ("config", "both") else None, input_ksr=None, output_skr=None)
    config = SimpleNamespace(get_schema=lambda name: None, response_policy=None, request_policy=policy, filenames=filenames)
    saved = (kskm.skr.load_skr, kskm.ksr.load_ksr, kskm.misc.hsm.init_pkcs11_modules, ks.create_skr, ks.output_skr_xml)
    kskm.skr.load_skr = load_prev
    kskm.ksr.load_ksr = lambda fn, pol, log_contents=False: rec("load_ksr", ksr)
    kskm.misc.hsm.init_pkcs11_modules = lambda config, name=None: rec("init_modules", [])
    ks.create_skr = lambda request, schema, p11modules, config: rec("create_skr", new)
    ks.output_skr_xml = lambda skr, fn, log_contents=False: rec("write", None)
    try:
        with contextlib.redirect_stdout(io.StringIO()):
            out = run_impl(lambda: ks.ksrsigner(logging.getLogger("c09-glue"), args, config), lambda x: x)
    finally:
        kskm.skr.load_skr, kskm.ksr.load_ksr, kskm.misc.hsm.init_pkcs11_modules, ks.create_skr, ks.output_skr_xml = saved
    return events, out


def run_glue_stream(res: Result, pairs: list[Pair], r: Any, tier: str) -> None:
    """The entry point: a freshly signed SKR is written only if check_last_skr_and_new_skr accepted it.  The real
    ksrsigner() runs with loaders / create_skr / writer stubbed; the chain flags are off so that
    nothing but C09's rules stands between the signed SKR and the output file.  Every picked pair x flag subset runs with the
    previous SKR named on the command line, in the configuration, in both places (the configuration names another one) and
    nowhere."""
    from kskm.common.config_misc import RequestPolicy
    from kskm.signer.policy import check_last_skr_and_new_skr

    seen: set[str] = set()
    picked: list[Pair] = []
    for p in pairs:
        head = p.tag.split(":")[0]
        kind = f"{head}:{r.randrange(30 if tier == 'quick' else 300)}" if head in ("pair", "custom", "random", "publish", "publish-inc", "retire", "revbit", "idrel", "idrel-pair", "idrel-random") else p.tag
        if kind not in seen:
            seen.add(kind)
            picked.append(p)
    # for the "both" form: previous SKRs of the stream under which a given new SKR is accepted / refused with every check on
    all_on = {f: True for f in FLAGS}

    def verdict(last: Any, new: Any, flags: dict[str, bool]) -> bool | None:
        reg = region(last, new)
        return None if reg is None else all(reg[f] for f in FLAGS if flags[f])

    candidates = [p.last for p in picked if p.last.bundles][:: max(1, len(picked) // 12)]
    for p in picked:
        ksr = base_ksr(p.last, 2)
        lj, nj = response_j(p.last), response_j(p.new)
        for flags in flag_sets():
            policy = RequestPolicy(check_chain_keys=False, check_chain_overlap=False, check_chain_keys_in_hsm=False, **flags)
            direct = run_impl(lambda: check_last_skr_and_new_skr(p.last, p.new, policy))
            reg = region(p.last, p.new)
            want_here = verdict(p.last, p.new, flags)
            # the other previous SKR for the "both" form: preferably one under which the documented verdict is the opposite
            other = next((c for c in candidates if c is not p.last and want_here is not None and verdict(c, p.new, flags) not in (None, want_here)), None)
            opposite = other is not None
            if other is None:
                other = next((c for c in candidates if c is not p.last), p.last)
            for source in PREV_SOURCES:
                by_file = {CLI_PREV: p.last, CFG_PREV: other if source == "both" else p.last}
                pre = (["load_skr:" + (CLI_PREV if source in ("cli", "both") else CFG_PREV)] if source != "none" else []) + ["load_ksr", "init_modules", "create_skr"]
                events, out = glue_run9(ksr, by_file, p.new, policy, source)
                case = Case(f"glue:{source}:" + p.tag, flags, lj, nj)
                res.count(["glue", source, p.tag, flags])
                res.bump(f"glue:{source}:" + ("written" if "write" in events else "stopped"))
                if source == "both":
                    res.bump("glue:both:configuration names a previous SKR with the " + ("opposite" if opposite else "same / no") + " verdict")
                if source == "none":
                    # no previous SKR: nothing to check against, the SKR is written
                    if events != pre + ["write"] or out != {"ok": True}:
                        res.violation("ksrsigner() without a previous SKR: unexpected effects", case.full(), key="glue:none", effects=events, outcome=out)
                    continue
                if reg is not None:
                    want = bool(want_here)
                    if ("write" in events) != want or (out == {"ok": True}) != want:
                        res.violation("ksrsigner(): an SKR is written although / not written because the safety region says otherwise", case.full(), key=f"glue:{source}:" + p.tag.split(":")[0], previous_skr_named_in=source, effects=events, outcome=out, documented_region_accepts=want, clauses=reg)
                expect = pre + (["write"] if "ok" in direct else [])
                if events != expect or (("ok" in direct) and out != {"ok": True}) or (("ok" not in direct) and out != direct):
                    res.disagreement("ksrsigner(): effects / outcome differ from check_last_skr_and_new_skr's verdict at the documented call site", case.full(), {"effects": events, "outcome": out}, {"effects": expect, "check_last_skr_and_new_skr": direct}, previous_skr_named_in=source)


def run(tier: str, driver_ok: bool) -> Result:
    res = Result("C09")
    res.rule = (
        "(previous SKR, new SKR) pairs built from schemas: every ordered pair of the 7 example schemas x 3 role maps over identifiers KA/KB/KC x first "
        "inception -1/0/+1/+2 cycles; 9 custom families (drop signer from slot j, unpublish from/at j, revoke at j, sign once at j, revoked after signing, "
        "co-signer of a revoked key vanishes, gap right after signing, third key joins) x j=1..9 x 4 previous schemas x retire periods; publish point on "
        "{-1d,-1s,0,+1s,+1d} around the previous last bundle's inception and expiration (by period and by first inception); retire point on {-1s,0,+1s} "
        "around the inception of slots k-1,k,k+1 with the previous signer unpublished from/at slot k; REVOKE-bit variants of the flags value; degenerate "
        "shapes; random schemas; IDENTIFIER RELATIONS: 8 families (incl. co-signer of one / of two revoked keys vanishes, over four roles) x slots x retire window, every "
        "ordered pair of example schemas, and random four-role schemas, spelled with key identifiers that are distinct but related as strings "
        f"({', '.join(ID_RELATIONS)}: proper prefix / suffix / inner substring, case, last character, anagram, numbered labels, the empty identifier, blanks at the ends, "
        "pieces of a ', ' / ',' / ' ' / repr listing of the other identifiers, NFC vs NFD) under every assignment of the related identifiers to the roles; "
        "every pair under all 4 flag subsets, each half also on its own; entry point: sampled pairs x 4 flag subsets x previous SKR "
        "named on the command line / in the configuration / both (configuration names another SKR, opposite verdict where available) / nowhere; "
        "non-trivial = distinct (pair, flags[, previous-SKR source]) input"
    )
    r = lib.rng("C09")
    pairs = scenarios(r, tier)
    all_on = {f: True for f in FLAGS}
    all_cases = []
    lines: list[dict[str, Any]] = []
    import hashlib
    import json

    for p in pairs:
        lj, nj = response_j(p.last), response_j(p.new)
        digest = hashlib.sha1(json.dumps([lj, nj], sort_keys=True).encode()).hexdigest()
        for flags in flag_sets():
            case, ls, obs = evaluate(p, flags, with_halves=(flags == all_on), lj=lj, nj=nj)
            all_cases.append((p, case, obs, len(ls), digest))
            lines.extend(ls)
    model = run_driver(lines, exe=DRIVER) if driver_ok else [None] * len(lines)
    pos = 0
    for p, case, obs, nl, digest in all_cases:
        judge(res, p.last, p.new, case, obs, model[pos : pos + nl], digest)
        kind = case.tag.split(":")[0]
        if kind in ("publish", "retire", "custom", "revbit") and not any(s.get("kind") == kind for s in res.samples) and all(case.flags.values()) and "ok" not in obs["impl"]:
            res.sample({"kind": kind, "tag": case.tag, "flags": case.flags, "impl": obs["impl"], "model": model[pos], "region": region(p.last, p.new)}, limit=5)
        pos += nl
    run_glue_stream(res, pairs, r, tier)
    return res


def replay(obj: dict[str, Any]) -> Any:
    v = obj.get("violation") or obj.get("disagreement") or {}
    case = v["case"]
    last, new = response_from_j(case["last"]), response_from_j(case["new"])
    c2, lines, obs = evaluate(Pair(case["tag"], last, new), case["flags"], with_halves=True)
    if case["tag"].startswith("glue:"):
        from kskm.common.config_misc import RequestPolicy

        pol = RequestPolicy(check_chain_keys=False, check_chain_overlap=False, check_chain_keys_in_hsm=False, **case["flags"])
        source = case["tag"].split(":")[1] if case["tag"].split(":")[1] in PREV_SOURCES else "cli"
        # (in the "both" form the configuration named another previous SKR; the one that counts is replayed in both places)
        ev, out = glue_run9(base_ksr(last, 2), {CLI_PREV: last, CFG_PREV: last}, new, pol, source)
        obs["halves"] = dict(obs["halves"])
        obs["ksrsigner_effects"], obs["ksrsigner_outcome"] = ev, out
    models = run_driver(lines, exe=DRIVER)
    reg = region(last, new)
    return {
        "case": {"tag": case["tag"], "flags": case["flags"]},
        "implementation": obs["impl"],
        "implementation_per_half": obs["halves"],
        "ksrsigner": {k: obs[k] for k in ("ksrsigner_effects", "ksrsigner_outcome") if k in obs},
        "model": models[0],
        "model_per_half": dict(zip(obs["halves"], models[1:])),
        "documented_region": reg,
        "documented_region_accepts": None if reg is None else all(reg[f] for f in FLAGS if case["flags"][f]),
    }
