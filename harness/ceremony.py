"""Shared builders for everything that involves the token and the signer (C01–C04, C08, C10, C15, C18, C19):
emulated worlds, configurations, honest requests, oracle recorders and the JSON codecs for the
`kskm_driver_signer` operations."""

from __future__ import annotations

import hashlib
import json
from datetime import datetime, timedelta, timezone
from typing import Any, Iterable

import keys as K
import lib
import p11emu
from lib import dt_us, hexs, sigpolicy_j

DRIVER = "kskm_driver_signer"
UTC = timezone.utc


# --------------------------------------------------------------------------------------
# oracle recorders
# --------------------------------------------------------------------------------------


class HashRecorder:
    """Record every SHA-1 / SHA-2 digest computed while installed.  The constructors of `hashlib` are wrapped once in
    harness/lib.py, before any repository module is imported, so the record does not depend on how the repository refers
    to them (imported names, a module-level table, `hashlib.new`)."""

    def __init__(self) -> None:
        self.entries: list[dict[str, str]] = []

    def install(self) -> "HashRecorder":
        lib.HASH_SINKS.append(self)
        return self

    def uninstall(self) -> None:
        if self in lib.HASH_SINKS:
            lib.HASH_SINKS.remove(self)

    def take(self) -> list[dict[str, str]]:
        e, self.entries = self.entries, []
        # de-duplicate (the same TBS is hashed more than once)
        seen = set()
        out = []
        for x in e:
            k = (x["alg"], x["message"])
            if k not in seen:
                seen.add(k)
                out.append(x)
        return out


class Oracles:
    """All recorders a signer run needs, as one context manager."""

    def __init__(self) -> None:
        self.hashes = HashRecorder()
        self.verify = lib.VerifyRecorder()

    def __enter__(self) -> "Oracles":
        import kskm.common.signature as sigmod
        import kskm.signer.sign as signmod

        self.hashes.install()
        self.verify.install(sigmod, signmod)
        return self

    def __exit__(self, *a: Any) -> None:
        self.hashes.uninstall()
        self.verify.uninstall()

    def take(self) -> dict[str, Any]:
        v = self.verify.take()
        seen = set()
        vv = []
        for x in v:
            k = json.dumps(x, sort_keys=True)
            if k not in seen:
                seen.add(k)
                vv.append(x)
        return {"verify": vv, "hashes": self.hashes.take()}


# --------------------------------------------------------------------------------------
# codecs
# --------------------------------------------------------------------------------------


def ksk_j(k: Any) -> dict[str, Any]:
    return {
        "label": k.label,
        "keyTag": k.key_tag,
        "algorithm": k.algorithm.value,
        "validFrom": dt_us(k.valid_from),
        "validUntil": None if k.valid_until is None else dt_us(k.valid_until),
        "rsaSize": k.rsa_size,
        "rsaExponent": k.rsa_exponent,
        "dsSha256": k.ds_sha256,
        "hashUsingHsm": k.hash_using_hsm,
    }


def signer_config_j(cfg: Any, schema: Any) -> dict[str, Any]:
    return {
        "kskKeys": [{"name": n, "key": ksk_j(k)} for n, k in cfg.ksk_keys.items()],
        "kskPolicy": {
            "signaturePolicy": sigpolicy_j(cfg.ksk_policy.signature_policy),
            "ttl": cfg.ksk_policy.ttl,
            "signersName": cfg.ksk_policy.signers_name,
        },
        "responsePolicy": lib.response_policy_j(cfg.response_policy),
        "actions": [
            {"slot": int(n), "action": {"publish": list(a.publish), "sign": list(a.sign), "revoke": list(a.revoke)}}
            for n, a in schema.actions.items()
        ],
    }


def hsm_j(cfg: Any) -> list[dict[str, Any]]:
    return [
        {"label": label, "path": str(h.module), "pin": None if h.pin is None else str(h.pin), "soPin": None if h.so_pin is None else str(h.so_pin)}
        for label, h in cfg.hsm.items()
    ]


def canon_log(log: Iterable[dict[str, Any]]) -> list[dict[str, Any]]:
    out = []
    for r in log:
        x = {k: v for k, v in r.items() if k not in ("i", "fault")}
        out.append(x)
    return out


def first_log_difference(impl: list[dict[str, Any]], model: list[dict[str, Any]]) -> dict[str, Any] | None:
    for i, (a, b) in enumerate(zip(impl, model)):
        if a != b:
            return {"index": i, "impl": a, "model": b}
    if len(impl) != len(model):
        i = min(len(impl), len(model))
        return {"index": i, "impl": impl[i] if i < len(impl) else None, "model": model[i] if i < len(model) else None, "lengths": [len(impl), len(model)]}
    return None


def bundle_sorted_j(b: Any) -> dict[str, Any]:
    """Response bundles hold sets: compare them with keys/signatures in a canonical order."""
    j = lib.bundle_j(b) if not isinstance(b, dict) else dict(b)
    j["keys"] = sorted(j["keys"], key=lambda k: json.dumps(k, sort_keys=True))
    j["signatures"] = sorted(j["signatures"], key=lambda k: json.dumps(k, sort_keys=True))
    j["signers"] = None
    return j


# --------------------------------------------------------------------------------------
# worlds, configurations, requests
# --------------------------------------------------------------------------------------

ALG_NAME = {5: "RSASHA1", 8: "RSASHA256", 10: "RSASHA512", 13: "ECDSAP256SHA256", 14: "ECDSAP384SHA384"}


def ksk_config_entry(label: str, tk: K.TestKey, alg: int, *, valid_from: str = "2010-01-01T00:00:00+00:00", valid_until: str | None = None, with_tag: bool = False, with_ds: bool = False, hash_using_hsm: bool | None = None, ec_prefix: bool = True) -> dict[str, Any]:
    """A `keys:` entry describing test key `tk` truthfully."""
    import base64

    from kskm.common.data import AlgorithmDNSSEC
    from kskm.common.dnssec import key_to_rdata, public_key_to_dnssec_key

    e: dict[str, Any] = {"description": f"test key {label}", "label": label, "algorithm": ALG_NAME[alg], "valid_from": valid_from}
    if valid_until:
        e["valid_until"] = valid_until
    if tk.kind == "rsa":
        e["rsa_size"] = tk.k * 8
        e["rsa_exponent"] = tk.e
        pk = tk.dnskey_b64()
    else:
        # the tools publish the point as the token gives it (0x04 prefix kept, DESIGN §5 F4)
        pk = base64.b64encode(tk.ec_point(prefix=ec_prefix))
    if hash_using_hsm is not None:
        e["hash_using_hsm"] = hash_using_hsm
    if with_tag or with_ds:
        dk = public_key_to_dnssec_key(public_key=pk, key_identifier=label, algorithm=AlgorithmDNSSEC(alg), ttl=0, flags=257)
        if with_tag:
            e["key_tag"] = dk.key_tag
        if with_ds:
            e["ds_sha256"] = hashlib.sha256(b"\x00" + key_to_rdata(dk)).hexdigest().upper()
    return e


def make_config(hsm: dict[str, Any], ksk: dict[str, Any], schemas: dict[str, Any], request_policy: dict[str, Any] | None = None, ksk_policy: dict[str, Any] | None = None, response_policy: dict[str, Any] | None = None, filenames: dict[str, Any] | None = None) -> Any:
    from kskm.common.config import KSKMConfig

    d: dict[str, Any] = {"hsm": hsm, "keys": ksk, "schemas": schemas}
    if request_policy is not None:
        d["request_policy"] = request_policy
    if ksk_policy is not None:
        d["ksk_policy"] = ksk_policy
    if response_policy is not None:
        d["response_policy"] = response_policy
    if filenames is not None:
        d["filenames"] = filenames
    return KSKMConfig.from_dict(d)


def honest_request(zsks: list[tuple[str, K.TestKey, int]], layout: list[list[int]], *, start: datetime, interval: timedelta = timedelta(days=10), validity: timedelta = timedelta(days=21), req_id: str = "req-1", serial: int = 1, zsk_ttl: int = 3600, bundle_prefix: str = "bundle", sign: bool = True, algorithms: Any = None, sub_us: list[tuple[int, int]] | None = None) -> Any:
    """A request whose i-th bundle holds the ZSKs `layout[i]` (indices into zsks), each with an honest
    proof-of-possession signature by every key of the bundle.
    `sub_us[i] = (a, b)`: bundle i's inception / expiration additionally carry a / b MICROSECONDS (sub-second components; the declared
    policy durations stay whole)."""
    from kskm.common.data import AlgorithmDNSSEC, AlgorithmPolicyECDSA, AlgorithmPolicyRSA, SignaturePolicy
    from kskm.ksr.data import Request, RequestBundle

    made = [K.make_zsk(tk, alg, ident, ttl=zsk_ttl) for ident, tk, alg in zsks]
    bundles = []
    for i, idxs in enumerate(layout):
        inc = start + interval * i
        exp = inc + validity
        if sub_us is not None:
            inc, exp = inc + timedelta(microseconds=sub_us[i][0]), exp + timedelta(microseconds=sub_us[i][1])
        ks = [made[j] for j in idxs]
        sigs = K.sign_bundle_keys(ks, [(made[j], zsks[j][1]) for j in idxs], inc, exp, ttl=zsk_ttl) if sign else set()
        bundles.append(RequestBundle(id=f"{bundle_prefix}-{i + 1}", inception=inc, expiration=exp, keys=set(ks), signatures=sigs, signers=None))
    if algorithms is None:
        algorithms = set()
        for ident, tk, alg in zsks:
            if tk.kind == "rsa":
                algorithms.add(AlgorithmPolicyRSA(bits=tk.k * 8, exponent=tk.e, algorithm=AlgorithmDNSSEC(alg)))
            else:
                algorithms.add(AlgorithmPolicyECDSA(bits=tk.size * 8, algorithm=AlgorithmDNSSEC(alg)))
    zp = SignaturePolicy(
        publish_safety=timedelta(days=10),
        retire_safety=timedelta(days=10),
        max_signature_validity=validity,
        min_signature_validity=validity,
        max_validity_overlap=validity - interval + timedelta(days=1),
        min_validity_overlap=validity - interval - timedelta(days=1),
        algorithms=algorithms,
    )
    return Request(id=req_id, serial=serial, domain=".", timestamp=None, zsk_policy=zp, bundles=bundles)


def request_to_xml(req: Any) -> str:
    """Serialise a Request as a KSR document in the plain form the reference clients produce
    (the repository has a KSR reader but no KSR writer)."""
    from kskm.common.data import AlgorithmPolicyRSA
    from kskm.skr.output import format_datetime, timedelta_to_duration

    def pol(p: Any) -> str:
        algs = ""
        for a in p.algorithms:
            if isinstance(a, AlgorithmPolicyRSA):
                algs += f'<SignatureAlgorithm algorithm="{a.algorithm.value}"><RSA size="{a.bits}" exponent="{a.exponent}"/></SignatureAlgorithm>\n'
            else:
                algs += f'<SignatureAlgorithm algorithm="{a.algorithm.value}"><ECDSA size="{a.bits}"/></SignatureAlgorithm>\n'
        return (
            f"<PublishSafety>{timedelta_to_duration(p.publish_safety)}</PublishSafety>\n"
            f"<RetireSafety>{timedelta_to_duration(p.retire_safety)}</RetireSafety>\n"
            f"<MaxSignatureValidity>{timedelta_to_duration(p.max_signature_validity)}</MaxSignatureValidity>\n"
            f"<MinSignatureValidity>{timedelta_to_duration(p.min_signature_validity)}</MinSignatureValidity>\n"
            f"<MaxValidityOverlap>{timedelta_to_duration(p.max_validity_overlap)}</MaxValidityOverlap>\n"
            f"<MinValidityOverlap>{timedelta_to_duration(p.min_validity_overlap)}</MinValidityOverlap>\n" + algs
        )

    out = ['<?xml version="1.0" encoding="UTF-8"?>', f'<KSR id="{req.id}" domain="{req.domain}" serial="{req.serial}">', "<Request>", "<RequestPolicy>", "<ZSK>", pol(req.zsk_policy), "</ZSK>", "</RequestPolicy>"]
    for b in req.bundles:
        out.append(f'<RequestBundle id="{b.id}">')
        out.append(f"<Inception>{format_datetime(b.inception)}</Inception>")
        out.append(f"<Expiration>{format_datetime(b.expiration)}</Expiration>")
        for k in sorted(b.keys, key=lambda x: x.key_identifier):
            out.append(
                f'<Key keyIdentifier="{k.key_identifier}" keyTag="{k.key_tag}">\n<TTL>{k.ttl}</TTL>\n<Flags>{k.flags}</Flags>\n'
                f"<Protocol>{k.protocol}</Protocol>\n<Algorithm>{k.algorithm.value}</Algorithm>\n<PublicKey>{k.public_key.decode()}</PublicKey>\n</Key>"
            )
        for s in sorted(b.signatures, key=lambda x: x.key_identifier):
            out.append(
                f'<Signature keyIdentifier="{s.key_identifier}">\n<TTL>{s.ttl}</TTL>\n<TypeCovered>{s.type_covered.name}</TypeCovered>\n'
                f"<Algorithm>{s.algorithm.value}</Algorithm>\n<Labels>{s.labels}</Labels>\n<OriginalTTL>{s.original_ttl}</OriginalTTL>\n"
                f"<SignatureExpiration>{format_datetime(s.signature_expiration)}</SignatureExpiration>\n"
                f"<SignatureInception>{format_datetime(s.signature_inception)}</SignatureInception>\n<KeyTag>{s.key_tag}</KeyTag>\n"
                f"<SignersName>{s.signers_name}</SignersName>\n<SignatureData>{s.signature_data.decode()}</SignatureData>\n</Signature>"
            )
        out.append("</RequestBundle>")
    out += ["</Request>", "</KSR>", ""]
    return "\n".join(out)
