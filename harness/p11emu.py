"""A PKCS#11 token emulator at the PyKCS11 object level, with an operation log and a fault plan.

`World` holds modules -> slots -> objects.  `with world.installed():` replaces `PyKCS11.PyKCS11Lib`
(the only entry point /repo uses) by a factory bound to the world; no repository source is touched.

Every call /repo makes on the library or on a session is appended to `world.log` as one record
{"i": running index, "op": name, "module": path, "slot": n, …arguments…, "ans": canonical answer}.
The Lean model predicts this sequence operation by operation and consumes the recorded answers
(log replay), so the comparison is: same operations, same order, same arguments, octet for octet.

Fault plan: `world.plan[i] = {"kind": …}` makes the i-th operation misbehave:
  error                       raise PyKCS11Error (any op)
  missing                     findObjects returns []
  duplicate                   findObjects returns its result twice (two handles)
  unreadable                  getAttributeValue returns [None, …]
  corrupt / truncate / wrong_key / wrong_hash     sign returns a bad signature
Handles are real PyKCS11.LowLevel.CK_OBJECT_HANDLE instances and are numbered PER SLOT, as on real tokens.
"""

from __future__ import annotations

import contextlib
import hashlib
from typing import Any, Iterator

import PyKCS11
import PyKCS11.LowLevel as LL

from keys import EC_OID, TestKey
from lib import hexs

CKR_GENERAL_ERROR = LL.CKR_GENERAL_ERROR
MECH_HASH = {
    int(LL.CKM_SHA1_RSA_PKCS): "sha1",
    int(LL.CKM_SHA256_RSA_PKCS): "sha256",
    int(LL.CKM_SHA512_RSA_PKCS): "sha512",
    int(LL.CKM_ECDSA_SHA256): "sha256",
    int(LL.CKM_ECDSA_SHA384): "sha384",
}
BYTE_ATTRS = {int(LL.CKA_MODULUS), int(LL.CKA_PUBLIC_EXPONENT), int(LL.CKA_EC_POINT), int(LL.CKA_EC_PARAMS), int(LL.CKA_ID)}
ATTR_NAMES = {
    int(LL.CKA_CLASS): "CLASS",
    int(LL.CKA_LABEL): "LABEL",
    int(LL.CKA_ID): "ID",
    int(LL.CKA_KEY_TYPE): "KEY_TYPE",
    int(LL.CKA_MODULUS): "MODULUS",
    int(LL.CKA_PUBLIC_EXPONENT): "PUBLIC_EXPONENT",
    int(LL.CKA_EC_POINT): "EC_POINT",
    int(LL.CKA_EC_PARAMS): "EC_PARAMS",
}


def mk_handle(n: int) -> Any:
    h = LL.CK_OBJECT_HANDLE()
    h.assign(n)
    return h


class EmuObject:
    def __init__(self, cls: int, label: str, key_type: int | None, attrs: dict[int, Any], key: TestKey | None = None, key_id: bytes = b"") -> None:
        self.cls = int(cls)
        self.label = label
        self.key_type = None if key_type is None else int(key_type)
        self.attrs = dict(attrs)  # CKA number -> bytes (absent = not in dict)
        self.key = key
        self.key_id = key_id

    def attr(self, a: int) -> Any:
        a = int(a)
        if a == int(LL.CKA_CLASS):
            return self.cls
        if a == int(LL.CKA_LABEL):
            return self.label
        if a == int(LL.CKA_KEY_TYPE):
            return self.key_type
        if a == int(LL.CKA_ID):
            return tuple(self.key_id)
        v = self.attrs.get(a)
        return None if v is None else tuple(v)

    def describe(self) -> dict[str, Any]:
        return {
            "cls": self.cls,
            "label": self.label,
            "keyType": self.key_type,
            "id": hexs(self.key_id),
            "attrs": {ATTR_NAMES.get(k, str(k)): hexs(v) for k, v in sorted(self.attrs.items())},
        }


class EmuSlot:
    def __init__(self, slot_id: int, login_ok: bool = True, open_ok: bool = True) -> None:
        self.slot_id = slot_id
        self.login_ok = login_ok
        self.open_ok = open_ok
        self.objects: dict[int, EmuObject] = {}
        self.next_handle = 1

    def add(self, obj: EmuObject) -> int:
        h = self.next_handle
        self.next_handle += 1
        self.objects[h] = obj
        return h

    # -- convenience builders -----------------------------------------------------------------
    def add_rsa(self, label: str, key: TestKey, public: bool = True, private: bool = True, priv_has_pub_attrs: bool = True, key_id: bytes = b"") -> None:
        pub_attrs = {int(LL.CKA_MODULUS): key.modulus_bytes(), int(LL.CKA_PUBLIC_EXPONENT): key.exponent_bytes()}
        if public:
            self.add(EmuObject(LL.CKO_PUBLIC_KEY, label, LL.CKK_RSA, pub_attrs, key, key_id))
        if private:
            self.add(EmuObject(LL.CKO_PRIVATE_KEY, label, LL.CKK_RSA, pub_attrs if priv_has_pub_attrs else {int(LL.CKA_MODULUS): key.modulus_bytes()}, key, key_id))

    def add_ec(self, label: str, key: TestKey, public: bool = True, private: bool = True, wrapped_point: bool = True, priv_has_point: bool = False, key_id: bytes = b"", params: bytes | None = None) -> None:
        pt = key.ec_point(prefix=True)
        if wrapped_point:
            pt = bytes([4, len(pt)]) + pt  # DER OCTET STRING wrapping, as SoftHSM2 returns it
        attrs = {int(LL.CKA_EC_POINT): pt, int(LL.CKA_EC_PARAMS): params if params is not None else EC_OID[key.curve]}
        if public:
            self.add(EmuObject(LL.CKO_PUBLIC_KEY, label, LL.CKK_EC, attrs, key, key_id))
        if private:
            pa = attrs if priv_has_point else {int(LL.CKA_EC_PARAMS): attrs[int(LL.CKA_EC_PARAMS)]}
            self.add(EmuObject(LL.CKO_PRIVATE_KEY, label, LL.CKK_EC, pa, key, key_id))

    def add_secret(self, label: str, key_type: int = int(LL.CKK_AES)) -> None:
        self.add(EmuObject(LL.CKO_SECRET_KEY, label, key_type, {}, None))

    def describe(self) -> dict[str, Any]:
        return {"slot": self.slot_id, "loginOk": self.login_ok, "openOk": self.open_ok, "objects": [dict(o.describe(), handle=h) for h, o in sorted(self.objects.items())]}


class EmuModule:
    def __init__(self, path: str, slots: list[EmuSlot]) -> None:
        self.path = path
        self.slots = slots

    def slot(self, slot_id: int) -> EmuSlot:
        for s in self.slots:
            if s.slot_id == slot_id:
                return s
        raise PyKCS11.PyKCS11Error(LL.CKR_SLOT_ID_INVALID)


class World:
    def __init__(self, modules: list[EmuModule] | None = None) -> None:
        self.modules: dict[str, EmuModule] = {m.path: m for m in (modules or [])}
        self.log: list[dict[str, Any]] = []
        self.plan: dict[int, dict[str, Any]] = {}
        self.count = 0
        self.keygen_pool: list[TestKey] = []  # keys handed out by generateKeyPair
        self.env_seen: list[dict[str, str]] = []  # os.environ snapshot at load() time
        self.watch_env: list[str] = []

    # -- logging / faults ---------------------------------------------------------------------
    def step(self, op: str, **args: Any) -> tuple[dict[str, Any], dict[str, Any] | None]:
        rec = {"i": self.count, "op": op}
        rec.update(args)
        fault = self.plan.get(self.count)
        self.count += 1
        self.log.append(rec)
        if fault is not None:
            rec["fault"] = fault["kind"]
            if fault["kind"] == "error":
                rec["ans"] = "error"
                raise PyKCS11.PyKCS11Error(fault.get("rv", CKR_GENERAL_ERROR))
        return rec, fault

    def describe(self) -> list[dict[str, Any]]:
        return [{"module": p, "slots": [s.describe() for s in m.slots]} for p, m in self.modules.items()]

    @contextlib.contextmanager
    def installed(self) -> Iterator["World"]:
        world = self

        class _Lib(EmuLib):
            def __init__(self) -> None:
                super().__init__(world)

        orig = PyKCS11.PyKCS11Lib
        PyKCS11.PyKCS11Lib = _Lib  # type: ignore[misc]
        try:
            yield self
        finally:
            PyKCS11.PyKCS11Lib = orig  # type: ignore[misc]


class _LowLib:
    def __init__(self, lib: "EmuLib") -> None:
        self._lib = lib

    def C_Initialize(self, *a: Any) -> int:
        self._lib.world.step("C_Initialize", module=self._lib.path)[0]["ans"] = "ok"
        return 0


class _TokenInfo:
    def __init__(self, slot: int) -> None:
        self.slot = slot

    def to_dict(self) -> dict[str, str]:
        return {"label": f"emu-slot-{self.slot}", "manufacturerID": "verif", "model": "p11emu", "serialNumber": f"{self.slot:08d}"}


class EmuLib:
    def __init__(self, world: World) -> None:
        self.world = world
        self.path: str | None = None
        self.module: EmuModule | None = None
        self.lib = _LowLib(self)

    def load(self, path: str | None = None) -> None:
        import os

        self.path = str(path)
        self.world.env_seen.append({k: os.environ.get(k) for k in self.world.watch_env})  # type: ignore[misc]
        rec, _ = self.world.step("load", module=self.path)
        if self.path not in self.world.modules:
            rec["ans"] = "error"
            raise PyKCS11.PyKCS11Error(LL.CKR_GENERAL_ERROR, "no such module in the emulated world")
        self.module = self.world.modules[self.path]
        rec["ans"] = "ok"

    def getSlotList(self, tokenPresent: bool = False) -> list[int]:
        assert self.module is not None
        rec, _ = self.world.step("getSlotList", module=self.path)
        ans = [s.slot_id for s in self.module.slots]
        rec["ans"] = ans
        return ans

    def getTokenInfo(self, slot: int) -> Any:
        rec, _ = self.world.step("getTokenInfo", module=self.path, slot=slot)
        rec["ans"] = "ok"
        return _TokenInfo(slot)

    def openSession(self, slot: int, flags: int = 0) -> "EmuSession":
        assert self.module is not None
        rec, _ = self.world.step("openSession", module=self.path, slot=slot, flags=int(flags))
        s = self.module.slot(slot)
        if not s.open_ok:
            rec["ans"] = "error"
            raise PyKCS11.PyKCS11Error(LL.CKR_TOKEN_NOT_PRESENT)
        rec["ans"] = "ok"
        return EmuSession(self, s)

    def closeAllSessions(self, slot: int) -> None:
        rec, _ = self.world.step("closeAllSessions", module=self.path, slot=slot)
        rec["ans"] = "ok"


class EmuSession:
    def __init__(self, lib: EmuLib, slot: EmuSlot) -> None:
        self.lib = lib
        self.world = lib.world
        self.slot = slot
        self.logged_in = False

    def __repr__(self) -> str:
        return f"<EmuSession {self.lib.path} slot {self.slot.slot_id}>"

    def _base(self) -> dict[str, Any]:
        return {"module": self.lib.path, "slot": self.slot.slot_id}

    def login(self, pin: str, user_type: int = 1) -> None:
        rec, _ = self.world.step("login", pin=str(pin), userType=int(user_type), **self._base())
        if not self.slot.login_ok:
            rec["ans"] = "error"
            raise PyKCS11.PyKCS11Error(LL.CKR_PIN_INCORRECT)
        self.logged_in = True
        rec["ans"] = "ok"

    def findObjects(self, template: Any = ()) -> list[Any]:
        tmpl = [(int(a), (v if isinstance(v, str) else int(v))) for a, v in template]
        rec, fault = self.world.step("findObjects", template=[[ATTR_NAMES.get(a, str(a)), v] for a, v in tmpl], **self._base())
        res = []
        for h, o in sorted(self.slot.objects.items()):
            ok = True
            for a, v in tmpl:
                if o.attr(a) != v:
                    ok = False
            if ok:
                res.append(h)
        if fault:
            if fault["kind"] == "missing":
                res = []
            elif fault["kind"] == "duplicate" and res:
                res = res + [res[0]]
        rec["ans"] = list(res)
        return [mk_handle(h) for h in res]

    def getAttributeValue(self, obj_id: Any, attr: Any, allAsBinary: bool = False) -> list[Any]:
        h = int(obj_id.value())
        attrs = [int(a) for a in attr]
        rec, fault = self.world.step("getAttributeValue", handle=h, attrs=[ATTR_NAMES.get(a, str(a)) for a in attrs], **self._base())
        o = self.slot.objects.get(h)
        if o is None:
            rec["ans"] = "error"
            raise PyKCS11.PyKCS11Error(LL.CKR_OBJECT_HANDLE_INVALID)
        out = [o.attr(a) for a in attrs]
        if fault and fault["kind"] == "unreadable":
            out = [None for _ in attrs]
        rec["ans"] = [(hexs(bytes(v)) if (a in BYTE_ATTRS and v is not None) else v) for a, v in zip(attrs, out)]
        return out

    def sign(self, key: Any, data: bytes, mecha: Any = None) -> list[int]:
        h = int(key.value())
        mech = int(mecha.to_native().mechanism) if mecha is not None else int(LL.CKM_RSA_PKCS)
        rec, fault = self.world.step("sign", handle=h, mechanism=mech, data=hexs(bytes(data)), **self._base())
        o = self.slot.objects.get(h)
        if o is None or o.cls != int(LL.CKO_PRIVATE_KEY) or o.key is None:
            rec["ans"] = "error"
            raise PyKCS11.PyKCS11Error(LL.CKR_KEY_HANDLE_INVALID)
        k = o.key
        if fault and fault["kind"] == "wrong_key":
            k = fault["key"]
        data = bytes(data)
        if fault and fault["kind"] == "wrong_hash":
            data = data + b"\x00" if mech in MECH_HASH else bytes([data[0] ^ 1]) + data[1:] if mech == int(LL.CKM_ECDSA) else data[:-1] + bytes([data[-1] ^ 1])
        try:
            if k.kind == "rsa":
                if mech == int(LL.CKM_RSA_X_509):
                    sig = k.rsa_raw(data)
                elif mech in MECH_HASH and mech not in (int(LL.CKM_ECDSA_SHA256), int(LL.CKM_ECDSA_SHA384)):
                    sig = k.rsa_pkcs1(MECH_HASH[mech], data)
                else:
                    raise PyKCS11.PyKCS11Error(LL.CKR_MECHANISM_INVALID)
            else:
                if mech == int(LL.CKM_ECDSA):
                    sig = k.ecdsa_digest(data)
                elif mech in (int(LL.CKM_ECDSA_SHA256), int(LL.CKM_ECDSA_SHA384)):
                    sig = k.ecdsa_hash(MECH_HASH[mech], data)
                else:
                    raise PyKCS11.PyKCS11Error(LL.CKR_MECHANISM_INVALID)
        except PyKCS11.PyKCS11Error:
            rec["ans"] = "error"
            raise
        except (ValueError, KeyError):
            rec["ans"] = "error"
            raise PyKCS11.PyKCS11Error(LL.CKR_DATA_LEN_RANGE) from None
        if fault:
            if fault["kind"] == "corrupt":
                pos = fault.get("pos", len(sig) // 2) % len(sig)
                sig = sig[:pos] + bytes([sig[pos] ^ (1 << fault.get("bit", 0))]) + sig[pos + 1 :]
            elif fault["kind"] == "truncate":
                sig = sig[: max(0, len(sig) - fault.get("n", 1))]
        rec["ans"] = hexs(sig)
        return list(sig)

    def generateKeyPair(self, templatePub: Any, templatePriv: Any, mecha: Any = None) -> tuple[Any, Any]:
        pub = {int(a): v for a, v in templatePub}
        label = pub.get(int(LL.CKA_LABEL))
        bits = pub.get(int(LL.CKA_MODULUS_BITS))
        exp = pub.get(int(LL.CKA_PUBLIC_EXPONENT))
        rec, _ = self.world.step(
            "generateKeyPair",
            label=label,
            bits=None if bits is None else int(bits),
            exponent=None if exp is None else hexs(bytes(exp)),
            privLabel={int(a): v for a, v in templatePriv}.get(int(LL.CKA_LABEL)),
            **self._base(),
        )
        want_e = int.from_bytes(bytes(exp), "big") if exp is not None else 65537
        for i, k in enumerate(self.world.keygen_pool):
            if k.kind == "rsa" and k.bits == bits and k.e == want_e:
                key = self.world.keygen_pool.pop(i)
                break
        else:
            rec["ans"] = "error"
            raise PyKCS11.PyKCS11Error(LL.CKR_TEMPLATE_INCONSISTENT)
        attrs = {int(LL.CKA_MODULUS): key.modulus_bytes(), int(LL.CKA_PUBLIC_EXPONENT): key.exponent_bytes()}
        hp = self.slot.add(EmuObject(LL.CKO_PUBLIC_KEY, str(label), LL.CKK_RSA, attrs, key))
        hs = self.slot.add(EmuObject(LL.CKO_PRIVATE_KEY, str({int(a): v for a, v in templatePriv}.get(int(LL.CKA_LABEL))), LL.CKK_RSA, attrs, key))
        rec["ans"] = [hp, hs]
        return mk_handle(hp), mk_handle(hs)

    def destroyObject(self, obj: Any) -> None:
        h = int(obj.value())
        rec, _ = self.world.step("destroyObject", handle=h, **self._base())
        if h not in self.slot.objects:
            rec["ans"] = "error"
            raise PyKCS11.PyKCS11Error(LL.CKR_OBJECT_HANDLE_INVALID)
        del self.slot.objects[h]
        rec["ans"] = "ok"
