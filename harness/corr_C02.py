"""C02 correspondence: the SKR contains exactly what the KSR and the signing schema dictate.

Scenarios (signer_scenarios.gen_scenario): 1..9 bundles, 1..3 ZSKs, 1..3 KSKs on 1..2 modules x 1..3 slots,
schemas with arbitrary publish/sign/revoke subsets (keys both revoked and signing, signing without being
published, repeated names), ZSK TTL != KSK TTL, RSA and ECDSA, hashing on host/token, token profiles.
The real sign_bundles()/create_skr() run against the token emulator; three comparisons:
  * `skr_matches()` below — the property text transliterated — evaluated on the implementation's Response;
  * the Lean model by log replay: same result, same token operations, octet for octet;
  * algorithm-mismatch scenarios must be refused with CreateSignatureError.
"""

from __future__ import annotations

import base64
from typing import Any

import ceremony as C
import keys as K
import lib
import signer_scenarios as S
from lib import Result

DRIVER = C.DRIVER
ASSUMPTIONS = [
    "the token emulator (harness/p11emu.py) stands in for a PKCS#11 device; hash and signature verification answers are recorded from hashlib/cryptography and replayed to the model",
    "ECDSA: create_skr() cannot state an ECDSA KSK policy (raises RuntimeError by design of /repo: 'not implemented'); create_skr is exercised for RSA, sign_bundles for RSA and ECDSA",
]
TRUSTED = ["harness/p11emu.py token emulator", "harness/signer_scenarios.py scenario generator"]


def true_public_key_octets(k: dict[str, Any]) -> bytes:
    tk = k["tk"]
    if tk.kind == "rsa":
        return tk.dnskey_public_key()
    return tk.ec_point(prefix=False)


def strip04(alg: int, b: bytes) -> bytes:
    want = 64 if alg == 13 else 96
    if alg in (13, 14) and len(b) == want + 1 and b[0] == 4:
        return b[1:]
    return b


def skr_matches(sc: S.Scenario, req: Any, bundles: list[Any]) -> list[str]:
    """The property text as a predicate on the implementation's output; returns the list of broken clauses."""
    import struct

    def rfc_tag(k: Any) -> int:
        # RFC 4034 appendix B over flags | protocol | algorithm | public key, transcribed (harness/keys.py) — NOT the repository's
        # own calculate_key_tag: the tag the response carries is judged independently of the code under test
        return K.rfc4034_key_tag(struct.pack("!HBB", k.flags, k.protocol, k.algorithm.value) + base64.b64decode(k.public_key))

    bad: list[str] = []
    if len(bundles) != len(req.bundles):
        return [f"bundle count {len(bundles)} != {len(req.bundles)}"]
    for i, (rb, qb) in enumerate(zip(bundles, req.bundles), 1):
        act = sc.schema[i]
        if (rb.id, rb.inception, rb.expiration) != (qb.id, qb.inception, qb.expiration):
            bad.append(f"slot {i}: id/inception/expiration not echoed")
        # expected key set, as (identifier, flags, ttl, algorithm, decoded public key)
        exp = set()
        for k in qb.keys:
            exp.add((k.key_identifier, k.flags, sc.ksk_ttl, k.algorithm.value, base64.b64decode(k.public_key)))
        revoked = set(act["revoke"])
        for name in set(act["publish"]) | set(act["sign"]) | revoked:
            ks = sc.ksks[name]
            flags = 385 if name in revoked else 257
            exp.add((ks["label"], flags, sc.ksk_ttl, ks["alg"], true_public_key_octets(ks)))
        got = set()
        for k in rb.keys:
            pk = strip04(k.algorithm.value, base64.b64decode(k.public_key))
            got.add((k.key_identifier, k.flags, k.ttl, k.algorithm.value, pk))
            if k.protocol != 3:
                bad.append(f"slot {i}: key {k.key_identifier} protocol {k.protocol}")
            if rfc_tag(k) != k.key_tag:
                bad.append(f"slot {i}: key {k.key_identifier} carries tag {k.key_tag}, not the RFC 4034 tag {rfc_tag(k)} of its own RDATA")
        if got != exp:
            bad.append(f"slot {i}: key set differs: missing {sorted((x[0], x[1], x[2]) for x in exp - got)} extra {sorted((x[0], x[1], x[2]) for x in got - exp)}")
        if len(rb.keys) != len(got):
            bad.append(f"slot {i}: duplicate key records")
        by_id = {k.key_identifier: k for k in rb.keys}
        for sg in rb.signatures:
            pk_ = by_id.get(sg.key_identifier)
            if pk_ is not None and sg.key_tag != rfc_tag(pk_):
                bad.append(f"slot {i}: signature by {sg.key_identifier} names key tag {sg.key_tag}, the published key's RFC 4034 tag is {rfc_tag(pk_)}")
        want_signers = sorted({sc.ksks[n]["label"] for n in act["sign"]})
        got_signers = sorted(s.key_identifier for s in rb.signatures)
        if want_signers != got_signers:
            bad.append(f"slot {i}: signatures by {got_signers}, schema says {want_signers}")
    return bad


def header_matches(sc: S.Scenario, req: Any, resp: Any, cfg: Any) -> list[str]:
    from kskm.common.data import AlgorithmPolicyRSA

    bad = []
    if (resp.id, resp.serial, resp.domain) != (req.id, req.serial, req.domain):
        bad.append("id/serial/domain not echoed")
    if resp.zsk_policy != req.zsk_policy:
        bad.append("ZSK policy not echoed")
    sp = cfg.ksk_policy.signature_policy
    for f in ("publish_safety", "retire_safety", "max_signature_validity", "min_signature_validity", "max_validity_overlap", "min_validity_overlap"):
        if getattr(resp.ksk_policy, f) != getattr(sp, f):
            bad.append(f"KSK policy {f} differs from the configured value")
    want = set()
    for b in resp.bundles:
        for k in b.keys:
            blob = base64.b64decode(k.public_key)
            elen = blob[0] if blob[0] else int.from_bytes(blob[1:3], "big")
            off = 1 if blob[0] else 3
            want.add(AlgorithmPolicyRSA(bits=(len(blob) - off - elen) * 8, exponent=int.from_bytes(blob[off : off + elen], "big"), algorithm=k.algorithm))
    if resp.ksk_policy.algorithms != want:
        bad.append("KSK policy algorithm set is not that of the published keys")
    if resp.timestamp is not None:
        bad.append("timestamp set")
    return bad


def mismatch_scenario(r: Any) -> S.Scenario:
    """ZSK and signature algorithm sets differ: signing must be refused."""
    sc = S.gen_scenario(r, n_bundles=r.choice([1, 2, 3]), force_alg=r.choice([8, 10]))
    other = 10 if sc.meta["alg"] == 8 else 8
    mode = r.randrange(3)
    if mode == 0:  # all ZSKs use the other algorithm number
        sc.zsks = [(i, tk, other) for i, tk, a in sc.zsks]
    elif mode == 1:  # one more ZSK of the other algorithm in the last bundle
        tk = r.choice([k for k in K.rsa_keys(1024) if all(k is not z[1] for z in sc.zsks)])
        sc.zsks.append(("Zx", tk, other))
        sc.layout[-1] = sc.layout[-1] + [len(sc.zsks) - 1]
    else:  # one signer of the other algorithm
        name = r.choice(list(sc.ksks))
        k = sc.ksks[name]
        k["alg"] = other
        k["entry"] = C.ksk_config_entry(k["label"], k["tk"], other, hash_using_hsm=k["entry"].get("hash_using_hsm"))
        for slot in sc.schema.values():
            if name not in slot["sign"]:
                slot["sign"].append(name)
        if len(sc.ksks) == 1:
            pass  # then the only signer differs from every ZSK: still a mismatch
    sc.wellformed = False
    sc.meta["mismatch"] = mode
    return sc


def late_mismatch_scenario(r: Any, variant: int) -> S.Scenario:
    """The algorithm sets disagree only in a LATER slot, after a slot in which every algorithm involved appeared consistently on
    both sides (an algorithm roll-over whose schema and KSR are out of step): ZSKs of RSASHA256 and RSASHA512 in every bundle,
    KSK a = RSASHA256 and KSK b = RSASHA512 both signing slot 1; variant 0: a later slot is signed by a alone; variant 1: the
    last bundle drops the RSASHA512 ZSK while b still signs; variant 2: the middle slot is signed by b alone.  The agreement is a
    condition PER BUNDLE: signing must be refused."""
    while True:
        sc = S.gen_scenario(r, n_bundles=3, force_alg=8)
        if len(sc.ksks) >= 2:
            break
    a, b = list(sc.ksks)[:2]
    kb = sc.ksks[b]
    kb["alg"] = 10
    kb["entry"] = C.ksk_config_entry(kb["label"], kb["tk"], 10, hash_using_hsm=kb["entry"].get("hash_using_hsm"))
    tk = r.choice([k for k in K.rsa_keys(1024) if all(k is not z[1] for z in sc.zsks)])
    sc.zsks.append(("Zsha512", tk, 10))
    zi = len(sc.zsks) - 1
    sc.layout = [list(dict.fromkeys(list(b_) + [zi])) for b_ in sc.layout]
    for slot in sc.schema.values():
        slot["sign"] = [a, b]
        slot["revoke"] = []
    if variant == 0:
        sc.schema[r.choice([2, 3])]["sign"] = [a]
    elif variant == 1:
        sc.layout[-1] = [i for i in sc.layout[-1] if i != zi]
    else:
        sc.schema[2]["sign"] = [b]
    sc.wellformed = False
    sc.meta["mismatch"] = f"late:{variant}"
    return sc


def run(tier: str, driver_ok: bool) -> Result:
    res = Result("C02")
    res.rule = (
        "random well-formed scenarios (1..9 bundles x 1..3 ZSKs x 1..3 KSKs; publish/sign/revoke = random subsets incl. revoked+signing, "
        "signing-not-published, repeated names; RSA 1024..4096 any fixture exponent, P-256/P-384; algorithms 8/10/13/14; hash on host/token; "
        "1..2 modules x 1..3 slots, refused-login slots, wrapped/bare EC points, private objects with/without point) + algorithm-mismatch "
        "scenarios; schema slots listed in ascending or shuffled order in the configuration; an error return / corrupted signature at the "
        "k-th signing call of scenarios with >= 2 signing calls (a returned response must still be complete); non-trivial = distinct scenario description"
    )
    r = lib.rng("C02")
    n_ok = 90 if tier == "quick" else 900
    n_bad = 25 if tier == "quick" else 200
    runs: list[dict[str, Any]] = []
    specials = S.special_scenarios(r)
    for i in range(n_ok + len(specials)):
        sc = specials[i - n_ok] if i >= n_ok else S.gen_scenario(r, quick=(tier == "quick"))
        what = "create_skr" if (sc.meta["alg"] in (8, 10) and i % 2 == 0) else "sign_bundles"
        x = S.run_sign(sc, what)
        x["case"] = {"what": what, "scenario": S.describe(sc)}
        x["what"] = what
        x["sc"] = sc
        runs.append(x)
        res.count(x["case"])
        res.bump(f"alg:{sc.meta['alg']}")
        res.bump(f"schema-listing:{sc.meta.get('listing', 'ascending')}")
        res.bump(f"bundles:{sc.meta['n']}")
        res.bump(what)
        impl = x["impl"]
        if "ok" not in impl:
            res.violation("well-formed request and schema: signing did not complete", x["case"], key=f"incomplete:{sc.meta['alg']}", impl=impl)
            continue
        objs = x["objs"]
        bundles = objs if what == "sign_bundles" else objs.bundles
        bad = skr_matches(sc, x["req"], list(bundles))
        if what == "create_skr":
            bad += header_matches(sc, x["req"], objs, x["cfg"])
        if bad:
            res.violation("SKR content differs from what KSR and schema dictate", x["case"], key=bad[0].split(":")[0], broken=bad)
        if len(res.samples) < 2:
            res.sample({"case": x["case"], "impl_bundle_1": impl["ok"][0] if what == "sign_bundles" else impl["ok"]["bundles"][0], "token_ops": len(x["log"])})
    # faulty token: an error return / a bad signature at a signing call.  The property knows no "partial" response:
    # whatever the token does, a Response that IS returned carries exactly one signature per KSK listed under sign.
    n_fault = 12 if tier == "quick" else 80
    candidates = [x for x in runs if "ok" in x["impl"] and sum(1 for rec in x["log"] if rec["op"] == "sign") >= 2]
    r.shuffle(candidates)
    for x0 in candidates[:n_fault]:
        sc0 = x0["sc"]
        sign_pos = [i for i, rec in enumerate(x0["log"]) if rec["op"] == "sign"]
        for pos in r.sample(sign_pos, min(3 if tier == "quick" else 6, len(sign_pos))):
            for kind in ("error", "corrupt"):
                sc0.plan = {pos: {"kind": kind, "pos": r.randrange(64), "bit": r.randrange(8)} if kind == "corrupt" else {"kind": kind}}
                x = S.run_sign(sc0, x0["what"])
                sc0.plan = {}
                x["case"] = {"what": x0["what"], "scenario": x0["case"]["scenario"], "fault": {"position": pos, "kind": kind, "nth_sign": sign_pos.index(pos) + 1, "of": len(sign_pos)}}
                x["what"] = x0["what"]
                runs.append(x)
                res.count(x["case"])
                res.bump(f"sign-fault:{kind}")
                if "ok" in x["impl"]:
                    objs = x["objs"]
                    bundles = objs if x0["what"] == "sign_bundles" else objs.bundles
                    bad = skr_matches(sc0, x["req"], list(bundles))
                    res.violation(
                        "a signing call failed on the token but a response was returned" + (" whose content differs from what KSR and schema dictate" if bad else ""),
                        x["case"],
                        key="sign-fault:" + kind,
                        broken=bad,
                    )
    for i in range(n_bad + (9 if tier == "quick" else 60)):
        sc = mismatch_scenario(r) if i < n_bad else late_mismatch_scenario(r, i % 3)
        x = S.run_sign(sc, "sign_bundles")
        x["case"] = {"what": "sign_bundles", "scenario": S.describe(sc)}
        x["what"] = "sign_bundles"
        runs.append(x)
        res.count(x["case"])
        res.bump("mismatch")
        if x["impl"] != {"error": "createSignature"}:
            res.violation("ZSK and signature algorithm sets differ but signing was not refused", x["case"], key="alg-mismatch", impl=x["impl"])
    if driver_ok:
        for what in ("sign_bundles", "create_skr"):
            S.compare_with_model(res, [x for x in runs if x["what"] == what], what)
    return res


def replay(obj: dict[str, Any]) -> Any:
    return {"note": "scenario descriptions index fixtures/keys.json; re-run with the same VERIF_SEED to regenerate the identical scenario", "recorded": obj}
