"""C05 correspondence: KSR timing rules — implementation vs. Lean model vs. the documented region.

Requests are built directly as data objects (no XML, no cryptography).  For every rule, every bound,
every bundle position and every offset in {-1 d, -1 s, 0, +1 s, +1 d} a timeline is produced whose
decisive quantity sits exactly there; each is judged under several flag assignments (all on, only the
rule's own flag, everything but it, random subsets).  Three verdicts are compared:
  * validate_request() of /repo (clock pinned by replacing the module-level `datetime` name),
  * the model driver (`validate_request` op — same JSON, set iteration order preserved),
  * `region()` below: the documented region transliterated from the property text.
impl != region  -> failing input of the property (VIOLATION);  impl != model -> broken tie.

Further input classes (each judged by the same three verdicts):
  * SUB-SECOND components (`SUB_OFFSETS`, `START_FRACTIONS`): instants are microsecond-exact in /repo's data model and in the Lean
    model, and the documented region is evaluated on the exact microsecond integers.  The lattice therefore also places every
    decisive quantity at bound +- 1 us, +- 0.5 s, +- 999999 us (hand-built Request objects; on a whole-second timeline and on a
    timeline all of whose instants carry .6 / .000001 / .999999 / .5 / .4 s), the degenerate stream at zero +- 1 us, random timelines
    deviate by sub-second amounts -- and the XML TEXT stream renders the same kinds of deviation (validity through the expiration
    and through the inception, interval / overlap / cycle, horizon, a gap of less than a second, deviations that stay inside a
    min < max window) with 1..6 fraction digits (.5 / .50 / ... / .500000; starts with and without a sub-second part), so that a
    loader that drops, rounds or misreads the fraction digits is seen both in the parsed instants and in the verdict.
  * ISOLATION (`isolate`): every lattice / degenerate timeline is also judged with ALL flags on under a policy in which the
    bounds of every rule but the responsible one are the hull of the timeline's own quantities (and the clock sits inside the
    horizon window), so that exactly one rule is responsible although none is switched off — the "never masks" clause with
    satisfied (not disabled) neighbours.
  * DEGENERATE quantities (`degenerate`): every duration a rule looks at — bundle validity, overlap and interval of a
    consecutive pair, first-to-last cycle length, distance to the clock — sits at EXACTLY ZERO, one second either side and a
    whole day negative (identical / reversed inceptions, expiration == inception, touching bundles, expiry == now), at every
    bundle position, against bounds as in the profile (zero must be refused), [0, max], [0, 0] and [-1 d, 0] (zero is an
    inclusive bound); plus timelines whose bundles are all identical.
  * ENVIRONMENT independence (`tz_stream`): KSR documents rendered as XML TEXT (timestamps without designator, with `Z`, with
    `+00:00`, mixed) go through the real loader (`request_from_xml`, `load_ksr`) while the PROCESS time zone (TZ + tzset,
    restored afterwards) is UTC and several non-UTC zones incl. zones with daylight saving (whole-hour and half-hour shifts,
    both hemispheres); timelines start every few weeks over a whole year so that validities / overlaps / intervals straddle
    every switch, with min == max bounds hit exactly, one-hour and one-second deviations, and the horizon bounds.  The parsed
    instants must be the instants the text denotes in UTC, and the verdict must be the documented region's — in every zone.
  * SPELLINGS of the declared durations (`spellings`, `dur_cases`): the bounds "the KSR declares" reach the rules as ISO 8601 TEXT
    (Max/MinSignatureValidity, Max/MinValidityOverlap of <RequestPolicy><ZSK>) through request_from_xml / load_ksr.  The same number
    of seconds X is written in every way the documented grammar (weeks, days | T hours, minutes, seconds) has: seconds only, minutes /
    hours / days / weeks only (where X is a whole number of them), every mix over every one of the 31 subsets of W / D / H / M / S (as
    many of each unit as fit, the last unit the rest), not normalised (P1W8D, PT359H60M), first unit zero (P0W15D), zero components
    (P2W1DT0S: `T` section present although empty of value / absent), leading zeros (P02W01D) -- and, as class `other-order`, the
    same components in an order / `T` placement the grammar does not have (P1D2W, PT12H1W, P2W24H: a loader may refuse them cleanly
    -- a control -- but if it reads them then as X).  X ranges over 2W1D, 1W1D, 1W3D, 1WT12H, 1W1DT1H1M1S, 3W, 1DT1H1M1S, PT36H and
    random week/day/hour/minute/second sums.  Each text is the declared max or min of the validity or of the overlap rule (rotating),
    with lower bound = upper bound = X (companion bound in the same text / in another spelling of X) and in a one-day window, the
    decisive quantity exactly X (inside) and one second beyond (outside); the other declared durations of the document rotate through
    grammar spellings of their own values.  Judged: (i) the durations the loader read == X by OWN integer arithmetic (W = 604800,
    D = 86400, H = 3600, M = 60; DURATION_GRAMMAR is an independent reading of each text), (ii) the verdict == region() on the exact
    integers, (iii) the model on the same integers.  Texts outside the grammar (a month `M` before `T`, a `T` that nothing
    follows) are counted controls.
"""

from __future__ import annotations

import itertools
import os
import re
import tempfile
import time
from datetime import datetime, timezone
from pathlib import Path
from typing import Any

import lib
from lib import DAY_US, PinnedClock, Result, request_j, request_policy_j, run_driver, run_impl, same_outcome, us_dt, us_td

ASSUMPTIONS = [
    "the clock is the only external input of these rules; it is pinned (and, in a separate stream, the real clock is used with one-hour margins)",
    "non-timing rules are switched off or trivially satisfied in this run (they are C06/C07's subject)",
    "the operator's horizon is a positive number of days (H >= 1: what a loaded configuration can hold; C05_iff carries the same hypothesis)",
    "the process time zone can be switched with TZ + time.tzset() (POSIX); the run stops if a switch shows no effect",
    "declared durations: the documented grammar is P[nW][nD][T[nH][nM][nS]] (ISO 8601 week / day / hour / minute / second components, a week = 7 days of "
    "86400 s; `M` is minutes, only after `T`); a text with the components in another order or with a month may be refused cleanly (counted control)",
]
TRUSTED: list[str] = []

SEC = 10**6
TIMING_FLAGS = [
    "check_cycle_length",
    "check_bundle_overlap",
    "signature_validity_match_zsk_policy",
    "signature_check_expire_horizon",
    "check_bundle_intervals",
]
OFFSETS = [-DAY_US, -SEC, 0, SEC, DAY_US]
# sub-second offsets from a bound: one microsecond, half a second, all but one microsecond of a second -- either side.  Instants are
# microsecond-exact in /repo's data model (datetime / timedelta) and in the Lean model (Int microseconds); the documented region is
# evaluated on the exact integers, so "bound + 1 us" is outside and "bound - 1 us" inside an inclusive upper bound.
SUB_OFFSETS = [-999_999, -500_000, -1, 1, 500_000, 999_999]
# sub-second component of the first inception of the shifted lattice (every instant of the timeline then carries it)
START_FRACTIONS = [600_000, 1, 999_999, 500_000, 400_000]


def region(bundles: list[tuple[int, int]], zp: dict[str, int], pol: dict[str, Any], now: int) -> dict[str, bool]:
    """The documented region, clause by clause (True = clause satisfied). Written from the property text."""
    out: dict[str, bool] = {}
    out["count"] = len(bundles) == pol["num_bundles"]
    out["check_cycle_length"] = (not bundles) or (pol["min_cycle"] <= bundles[-1][0] - bundles[0][0] <= pol["max_cycle"])
    ov = True
    iv = True
    for (pi, pe), (ti, te) in zip(bundles, bundles[1:]):
        if ti > pe:
            ov = False  # a gap
        if not (zp["min_overlap"] <= pe - ti <= zp["max_overlap"]):
            ov = False
        if not (pol["min_interval"] <= ti - pi <= pol["max_interval"]):
            iv = False
    out["check_bundle_overlap"] = ov
    out["check_bundle_intervals"] = iv
    out["signature_validity_match_zsk_policy"] = all(zp["min_validity"] <= e - i <= zp["max_validity"] for i, e in bundles)
    H = pol["horizon_days"]
    out["signature_check_expire_horizon"] = all(now <= e and (e - now) < (H + 1) * DAY_US for _, e in bundles)
    return out


def build(bundles: list[tuple[int, int]], zp: dict[str, int], pol: dict[str, Any], flags: dict[str, bool]) -> tuple[Any, Any]:
    from kskm.common.config_misc import RequestPolicy
    from kskm.common.data import SignaturePolicy
    from kskm.ksr.data import Request, RequestBundle

    rb = [
        RequestBundle(id=f"b{n}", inception=us_dt(i), expiration=us_dt(e), keys=set(), signatures=set(), signers=None)
        for n, (i, e) in enumerate(bundles)
    ]
    req = Request(
        id="req",
        serial=1,
        domain=".",
        timestamp=None,
        zsk_policy=SignaturePolicy(
            min_signature_validity=us_td(zp["min_validity"]),
            max_signature_validity=us_td(zp["max_validity"]),
            min_validity_overlap=us_td(zp["min_overlap"]),
            max_validity_overlap=us_td(zp["max_overlap"]),
        ),
        bundles=rb,
    )
    policy = RequestPolicy(
        num_bundles=pol["num_bundles"],
        validate_signatures=False,
        keys_match_zsk_policy=False,
        check_keys_match_ksk_operator_policy=False,
        min_cycle_inception_length=us_td(pol["min_cycle"]),
        max_cycle_inception_length=us_td(pol["max_cycle"]),
        min_bundle_interval=us_td(pol["min_interval"]),
        max_bundle_interval=us_td(pol["max_interval"]),
        signature_horizon_days=pol["horizon_days"],
        **flags,
    )
    return req, policy


def honest(n: int, start: int, interval: int = 10 * DAY_US, validity: int = 21 * DAY_US) -> list[tuple[int, int]]:
    return [(start + k * interval, start + k * interval + validity) for k in range(n)]


def profiles(n: int) -> list[tuple[dict[str, int], dict[str, Any]]]:
    cyc = (n - 1) * 10 * DAY_US
    tight_z = {"min_validity": 21 * DAY_US, "max_validity": 21 * DAY_US, "min_overlap": 11 * DAY_US, "max_overlap": 11 * DAY_US}
    wide_z = {"min_validity": 15 * DAY_US, "max_validity": 25 * DAY_US, "min_overlap": 9 * DAY_US, "max_overlap": 13 * DAY_US}
    tight_p = {"num_bundles": n, "min_cycle": cyc, "max_cycle": cyc, "min_interval": 10 * DAY_US, "max_interval": 10 * DAY_US, "horizon_days": 180}
    wide_p = {"num_bundles": n, "min_cycle": cyc - 2 * DAY_US, "max_cycle": cyc + 2 * DAY_US, "min_interval": 9 * DAY_US, "max_interval": 11 * DAY_US, "horizon_days": 180}
    return [(tight_z, tight_p), (wide_z, wide_p)]


def lattice(n: int, r: Any, tier: str) -> list[tuple[str, list[tuple[int, int]], dict[str, int], dict[str, Any], int]]:
    """(tag, timeline, declared zsk policy, operator policy, now) with one decisive quantity on the lattice."""
    out = []
    for pi, (zp, pol) in enumerate(profiles(n)):
        # whole-second timeline: the classic lattice plus the sub-second offsets; then the same timeline with every instant carrying a
        # sub-second component, probed at the bounds exactly and at the sub-second offsets
        out += lattice_at(n, r, tier, zp, pol, 1_500_000_000 * SEC, OFFSETS + SUB_OFFSETS, "")
        frac = START_FRACTIONS[(n + pi) % len(START_FRACTIONS)]
        out += lattice_at(n, r, tier, zp, pol, 1_500_000_000 * SEC + frac, [0] + SUB_OFFSETS, f":frac{frac}")
    return out


def lattice_at(n: int, r: Any, tier: str, zp: dict[str, int], pol: dict[str, Any], start: int, offsets: list[int], suffix: str) -> list[tuple[str, list[tuple[int, int]], dict[str, int], dict[str, Any], int]]:
    """the lattice over the honest timeline that starts at `start` (microseconds; may carry a sub-second component, then `suffix` names it)"""
    out = []
    now0 = start - 5 * DAY_US
    shifted = bool(suffix)
    base = honest(n, start)
    out.append(("honest" + suffix, base, zp, pol, now0))
    positions = range(n) if (tier == "thorough" or n <= 4) else sorted({0, 1, n // 2, n - 2, n - 1} & set(range(n)))
    if shifted and tier == "quick":
        positions = sorted({0, n // 2, n - 1} & set(range(n)))
    for pos in positions:
        for d in offsets:
            # validity of bundle `pos` at each bound + d
            for bound in ("min_validity", "max_validity"):
                t = list(base)
                t[pos] = (t[pos][0], t[pos][0] + zp[bound] + d)
                out.append((f"validity:{bound}:{pos}:{d}{suffix}", t, zp, pol, now0))
            if pos + 1 < n:
                # overlap of the pair (pos, pos+1) at each bound + d: move the later inception (and keep its validity)
                for bound in ("min_overlap", "max_overlap"):
                    t = list(base)
                    inc = t[pos][1] - (zp[bound] + d)
                    t[pos + 1] = (inc, inc + 21 * DAY_US)
                    out.append((f"overlap:{bound}:{pos}:{d}{suffix}", t, zp, pol, now0))
                # the gap edge: later inception at previous expiration + d, declared overlap window made wide
                t = list(base)
                t[pos + 1] = (t[pos][1] + d, t[pos][1] + d + 21 * DAY_US)
                zgap = dict(zp, min_overlap=-2 * DAY_US, max_overlap=30 * DAY_US)
                out.append((f"gap:{pos}:{d}{suffix}", t, zgap, pol, now0))
                # interval of the pair at each bound + d: shift this and all later bundles
                for bound in ("min_interval", "max_interval"):
                    t = list(base)
                    delta = (pol[bound] + d) - (t[pos + 1][0] - t[pos][0])
                    for k in range(pos + 1, n):
                        t[k] = (t[k][0] + delta, t[k][1] + delta)
                    out.append((f"interval:{bound}:{pos}:{d}{suffix}", t, zp, pol, now0))
            # horizon: bundle `pos` expires exactly (H+1) days ahead + d / exactly now + d
            for H in (1, 180):
                p2 = dict(pol, horizon_days=H)
                out.append((f"horizon:far:{pos}:{H}:{d}{suffix}", base, zp, p2, base[pos][1] - (H + 1) * DAY_US + d))
                out.append((f"horizon:past:{pos}:{H}:{d}{suffix}", base, zp, p2, base[pos][1] + d))
    for d in offsets:
        cyc = base[-1][0] - base[0][0]
        out.append((f"cycle:min:{d}{suffix}", base, zp, dict(pol, min_cycle=cyc + d, max_cycle=cyc + 5 * DAY_US), now0))
        out.append((f"cycle:max:{d}{suffix}", base, zp, dict(pol, min_cycle=cyc - 5 * DAY_US, max_cycle=cyc + d), now0))
    if shifted:
        return out
    for dn in (-1, 0, 1):
        out.append((f"count:{dn}", base, zp, dict(pol, num_bundles=n + dn), now0))
    # random timelines (deviations of whole seconds and of sub-second amounts)
    jitter = [0, SEC, -SEC, 0, 1, -1, 500_000, -500_000, 999_999, -999_999]
    for k in range(6 if tier == "quick" else 40):
        t = []
        inc = start + r.choice([0, 0] + START_FRACTIONS)
        for _ in range(n):
            val = r.choice([zp["min_validity"], zp["max_validity"], r.randrange(10, 30) * DAY_US + r.choice(jitter)])
            t.append((inc, inc + val))
            inc += r.choice([pol["min_interval"], pol["max_interval"], r.randrange(5, 15) * DAY_US + r.choice(jitter)])
        if r.random() < 0.3:
            r.shuffle(t)
        out.append((f"random:{k}", t, zp, pol, r.choice([now0, start + r.randrange(-200, 200) * DAY_US])))
    return out


def flag_sets(tag: str, r: Any, tier: str) -> list[dict[str, bool]]:
    rule = tag.split(":")[0]
    own = {
        "validity": "signature_validity_match_zsk_policy",
        "overlap": "check_bundle_overlap",
        "gap": "check_bundle_overlap",
        "interval": "check_bundle_intervals",
        "horizon": "signature_check_expire_horizon",
        "cycle": "check_cycle_length",
    }.get(rule)
    all_on = {f: True for f in TIMING_FLAGS}
    sets = [all_on]
    if tier == "thorough":
        for bits in itertools.product([False, True], repeat=len(TIMING_FLAGS)):
            sets.append(dict(zip(TIMING_FLAGS, bits)))
        return sets
    if own:
        sets.append({f: (f == own) for f in TIMING_FLAGS})  # only the rule's own flag
        sets.append({f: (f != own) for f in TIMING_FLAGS})  # everything but it (must not reject on its account)
    # every single-flag-only assignment makes the full set of violated rules observable
    if rule in ("random", "honest", "identical"):
        for f in TIMING_FLAGS:
            sets.append({g: (g == f) for g in TIMING_FLAGS})
    sets.append({f: r.random() < 0.5 for f in TIMING_FLAGS})
    return sets


# ---- isolation: all flags on, exactly one rule responsible ------------------------------------------------------

RULES = {  # rule -> (enable flag, where its bounds live, min, max)
    "validity": ("signature_validity_match_zsk_policy", "zsk", "min_validity", "max_validity"),
    "overlap": ("check_bundle_overlap", "zsk", "min_overlap", "max_overlap"),
    "interval": ("check_bundle_intervals", "pol", "min_interval", "max_interval"),
    "cycle": ("check_cycle_length", "pol", "min_cycle", "max_cycle"),
}
OWN_RULE = {"gap": "overlap"}


def quantities(t: list[tuple[int, int]]) -> dict[str, list[int]]:
    """the durations the rules look at, as the property text names them"""
    return {
        "validity": [e - i for i, e in t],
        "overlap": [pe - ti for (_, pe), (ti, _) in zip(t, t[1:])],
        "interval": [ti - pi for (pi, _), (ti, _) in zip(t, t[1:])],
        "cycle": [t[-1][0] - t[0][0]] if t else [],
    }


def isolate(t: list[tuple[int, int]], zp: dict[str, int], pol: dict[str, Any], now: int, own: str) -> tuple[dict[str, int], dict[str, Any], int] | None:
    """A policy under which every rule OTHER than `own` is satisfied by this very timeline (its bounds := the hull of the
    timeline's own quantities; the clock one day before the earliest expiry, the horizon long enough; the configured count :=
    the length), `own` keeping its bounds.  None when no policy can satisfy another rule (a gap: the overlap rule refuses it
    whatever is declared)."""
    own = OWN_RULE.get(own, own)
    q = quantities(t)
    zp2, pol2 = dict(zp), dict(pol)
    for rule, (_, where, lo, hi) in RULES.items():
        if rule == own or not q[rule]:
            continue
        tgt = zp2 if where == "zsk" else pol2
        tgt[lo], tgt[hi] = min(q[rule]), max(q[rule])
    if own != "overlap" and any(v < 0 for v in q["overlap"]):
        return None
    if own != "count":
        pol2["num_bundles"] = len(t)
    now2 = now
    if own != "horizon" and t:
        exps = [e for _, e in t]
        now2 = min(exps) - DAY_US
        if max(exps) - now2 >= (pol2["horizon_days"] + 1) * DAY_US:
            pol2["horizon_days"] = (max(exps) - now2) // DAY_US + 1
    return zp2, pol2, now2


# ---- degenerate timelines: quantities exactly zero / negative -----------------------------------------------------

ZERO_VALUES = [0, -SEC, SEC, -DAY_US, -1, 1]  # exactly zero, one second / one microsecond either side, a whole day negative


def bound_variants(lo: str, hi: str) -> list[tuple[str, dict[str, int]]]:
    """bounds of the responsible rule: as in the profile (positive: zero must be refused), [0, max] (zero is the inclusive
    lower bound), [0, 0] (zero is the only value), [-1 d, 0] (zero is the inclusive upper bound)"""
    return [("profile", {}), ("min0", {lo: 0}), ("both0", {lo: 0, hi: 0}), ("neg..0", {lo: -DAY_US, hi: 0})]


def degenerate(n: int, r: Any, tier: str) -> list[tuple[str, list[tuple[int, int]], dict[str, int], dict[str, Any], int]]:
    """(tag, timeline, declared zsk policy, operator policy, now): one quantity at exactly zero / +-1 s / -1 d."""
    out = []
    start = 1_500_000_000 * SEC
    now0 = start - 5 * DAY_US
    V = 21 * DAY_US
    for zp, pol in profiles(n):
        base = honest(n, start)
        positions = range(n) if (tier == "thorough" or n <= 4) else sorted({0, 1, n // 2, n - 2, n - 1} & set(range(n)))
        for pos in positions:
            for v in ZERO_VALUES:
                for bv, over in bound_variants("min_validity", "max_validity"):
                    t = list(base)
                    t[pos] = (t[pos][0], t[pos][0] + v)
                    out.append((f"validity:zero:{bv}:{pos}:{v}", t, dict(zp, **over), pol, now0))
                if pos + 1 < n:
                    for bv, over in bound_variants("min_overlap", "max_overlap"):
                        t = list(base)
                        inc = t[pos][1] - v
                        t[pos + 1] = (inc, inc + V)
                        out.append((f"overlap:zero:{bv}:{pos}:{v}", t, dict(zp, **over), pol, now0))
                    for bv, over in bound_variants("min_interval", "max_interval"):
                        # 'shift': this and all later bundles move;  'twin': only the next bundle moves onto / before this one
                        t = list(base)
                        delta = v - (t[pos + 1][0] - t[pos][0])
                        for k in range(pos + 1, n):
                            t[k] = (t[k][0] + delta, t[k][1] + delta)
                        out.append((f"interval:zero:shift:{bv}:{pos}:{v}", t, zp, dict(pol, **over), now0))
                        t = list(base)
                        t[pos + 1] = (t[pos][0] + v, t[pos][0] + v + V)
                        out.append((f"interval:zero:twin:{bv}:{pos}:{v}", t, zp, dict(pol, **over), now0))
                for H in (1, 180):
                    # distance from the clock to the expiry of bundle `pos` is exactly v (0: expires this very instant)
                    out.append((f"horizon:zero:{pos}:{H}:{v}", base, zp, dict(pol, horizon_days=H), base[pos][1] - v))
        for v in ZERO_VALUES if n >= 2 else [0]:
            for bv, over in bound_variants("min_cycle", "max_cycle"):
                t = list(base)
                if n >= 2:
                    t[-1] = (t[0][0] + v, t[0][0] + v + V)  # last inception on / before the first
                out.append((f"cycle:zero:{bv}:{v}", t, zp, dict(pol, **over), now0))
        # all bundles identical: every pairwise quantity is zero at once (validity zero, or validity kept)
        zero_z = {k: 0 for k in zp}
        zero_p = dict(pol, min_cycle=0, max_cycle=0, min_interval=0, max_interval=0)
        for name, t in (("instant", [(start, start)] * n), ("twins", [(start, start + V)] * n)):
            out.append((f"identical:{name}:profile", t, zp, pol, now0))
            out.append((f"identical:{name}:zero-policy", t, zero_z, zero_p, now0))
            out.append((f"identical:{name}:zero-policy-validity-kept", t, dict(zero_z, min_validity=V, max_validity=V, min_overlap=V, max_overlap=V), zero_p, now0))
    return out


# ---- environment independence: the process time zone ---------------------------------------------------------------

# (IANA name, POSIX TZ string used when /usr/share/zoneinfo lacks the name, UTC offset in seconds on 16 January 2030)
TZ_ZONES = [
    ("UTC", "UTC0", 0),
    ("America/New_York", "EST5EDT,M3.2.0,M11.1.0", -5 * 3600),
    ("Australia/Lord_Howe", "<+1030>-10:30<+11>-11,M10.1.0,M4.1.0", 11 * 3600),
    ("Asia/Kolkata", "IST-5:30", 5 * 3600 + 1800),
    ("Europe/Berlin", "CET-1CEST,M3.5.0,M10.5.0/3", 3600),
]
TZ_PROBE = 1_894_752_000  # 2030-01-16T00:00:00Z
STYLES = ["naive", "Z", "offset", "mixed"]


class ProcessTZ:
    """Switch the time zone of THIS process (TZ + tzset) and put it back afterwards."""

    def __init__(self, name: str, posix: str, offset: int) -> None:
        self.value = name if Path("/usr/share/zoneinfo", name).exists() else posix
        self.posix, self.offset = posix, offset

    def __enter__(self) -> "ProcessTZ":
        self.saved = os.environ.get("TZ")
        for value in (self.value, self.posix):
            os.environ["TZ"] = value
            time.tzset()
            if time.localtime(TZ_PROBE).tm_gmtoff == self.offset:
                self.value = value
                return self
        self.__exit__()
        raise RuntimeError(f"cannot switch the process time zone to {self.value}: the environment-independence stream would be vacuous")

    def __exit__(self, *a: Any) -> None:
        if self.saved is None:
            os.environ.pop("TZ", None)
        else:
            os.environ["TZ"] = self.saved
        time.tzset()


def fmt_instant(us: int, designator: str, pad: int = 0) -> str:
    """xsd:dateTime text of a UTC instant, computed from the integer (no datetime / zone machinery involved).  A sub-second component is
    written with the fewest digits that state it exactly plus `pad` trailing zeros, six digits at most (.5 / .50 / ... / .500000)."""
    days, rem = divmod(us, DAY_US)
    # civil-from-days (proleptic Gregorian), Howard Hinnant's algorithm
    z = days + 719468
    era = z // 146097
    doe = z - era * 146097
    yoe = (doe - doe // 1460 + doe // 36524 - doe // 146096) // 365
    y = yoe + era * 400
    doy = doe - (365 * yoe + yoe // 4 - yoe // 100)
    mp = (5 * doy + 2) // 153
    d = doy - (153 * mp + 2) // 5 + 1
    m = mp + 3 if mp < 10 else mp - 9
    y += m <= 2
    secs, frac = divmod(rem, SEC)
    text = f"{y:04d}-{m:02d}-{d:02d}T{secs // 3600:02d}:{secs // 60 % 60:02d}:{secs % 60:02d}"
    if frac:
        digits = f"{frac:06d}".rstrip("0")
        text += "." + digits + "0" * min(pad, 6 - len(digits))
    return text + {"naive": "", "Z": "Z", "offset": "+00:00"}[designator]


def fmt_duration(us: int) -> str:
    assert us >= 0 and us % SEC == 0
    d, s = divmod(us // SEC, 86400)
    return f"P{d}D" + (f"T{s}S" if s else "")


_TZ_KEY: dict[str, str] = {}


def ksr_xml(timeline: list[tuple[int, int]], zp: dict[str, int], style: str, durations: dict[str, str] | None = None) -> str:
    """A KSR document in the layout of the archived requests; one (real) 1024-bit ZSK, a placeholder signature.  `durations` (optional):
    the TEXT to write for a declared duration (max_validity / min_validity / max_overlap / min_overlap) instead of the P<d>D[T<s>S] default."""
    durations = durations or {}
    dur = lambda f: durations.get(f) or fmt_duration(zp[f])  # noqa: E731
    if not _TZ_KEY:
        import keys as fx

        tk = fx.rsa_keys(1024, 65537)[0]
        _TZ_KEY["pk"] = tk.dnskey_b64().decode()
        _TZ_KEY["tag"] = str(fx.rfc4034_key_tag(fx.dnskey_rdata(tk, 256, 8)))
    lines = [
        '<KSR domain="." id="tz-req" serial="1">', "  <Request>", "    <RequestPolicy>", "      <ZSK>",
        "        <PublishSafety>P10D</PublishSafety>", "        <RetireSafety>P10D</RetireSafety>",
        f"        <MaxSignatureValidity>{dur('max_validity')}</MaxSignatureValidity>",
        f"        <MinSignatureValidity>{dur('min_validity')}</MinSignatureValidity>",
        f"        <MaxValidityOverlap>{dur('max_overlap')}</MaxValidityOverlap>",
        f"        <MinValidityOverlap>{dur('min_overlap')}</MinValidityOverlap>",
        '        <SignatureAlgorithm algorithm="8">', '          <RSA exponent="65537" size="2048"/>', "        </SignatureAlgorithm>",
        "      </ZSK>", "    </RequestPolicy>",
    ]
    for n, (i, e) in enumerate(timeline):
        si, se = (style, style) if style != "mixed" else (("naive", "offset") if n % 2 == 0 else ("Z", "naive"))
        # number of fraction digits: minimal .. six, varying with the position and the spelling (deterministic, replayable)
        pi, pe = (n + len(style)) % 6, (2 * n + 1 + len(style)) % 6
        lines += [
            f'    <RequestBundle id="b{n}">', f"      <Inception>{fmt_instant(i, si, pi)}</Inception>", f"      <Expiration>{fmt_instant(e, se, pe)}</Expiration>",
            f'      <Key keyIdentifier="zsk" keyTag="{_TZ_KEY["tag"]}">', "        <TTL>172800</TTL>", "        <Flags>256</Flags>", "        <Protocol>3</Protocol>",
            "        <Algorithm>8</Algorithm>", f"        <PublicKey>{_TZ_KEY['pk']}</PublicKey>", "      </Key>",
            '      <Signature keyIdentifier="zsk">', "        <TTL>172800</TTL>", "        <TypeCovered>DNSKEY</TypeCovered>", "        <Algorithm>8</Algorithm>",
            "        <Labels>0</Labels>", "        <OriginalTTL>172800</OriginalTTL>", f"        <SignatureExpiration>{fmt_instant(e, se, pe)}</SignatureExpiration>",
            f"        <SignatureInception>{fmt_instant(i, si, pi)}</SignatureInception>", f"        <KeyTag>{_TZ_KEY['tag']}</KeyTag>", "        <SignersName>.</SignersName>",
            "        <SignatureData>AAAA</SignatureData>", "      </Signature>", "    </RequestBundle>",
        ]
    lines += ["  </Request>", "</KSR>", ""]
    return "\n".join(lines)


def tz_cases(r: Any, tier: str) -> list[tuple[str, list[tuple[int, int]], dict[str, int], dict[str, Any], dict[str, bool], int]]:
    """(tag, timeline, zsk policy, operator policy, flags, now) — the same list is judged in every zone.  Timelines of three
    bundles (41 days from first inception to last expiry) start every 13 (quick: 26) days from December 2029 to January 2031,
    at varying times of day, so that every daylight-saving switch of every zone falls inside validities, overlaps and
    intervals; bounds are hit exactly (min == max == P21D / P11D / P10D) and missed by one hour / one second."""
    out = []
    HOUR = 3600 * SEC
    V, I = 21 * DAY_US, 10 * DAY_US
    all_on = {f: True for f in TIMING_FLAGS}
    only = lambda own: {f: (f == own) for f in TIMING_FLAGS}  # noqa: E731
    first = 1_890_777_600 * SEC  # 2029-12-01T00:00:00Z
    step = 26 if tier == "quick" else 13
    tods = [0, 2 * HOUR + 1800 * SEC, 12 * HOUR, 23 * HOUR + 3599 * SEC, 1 * HOUR, 15 * HOUR + 1800 * SEC]
    fracs = [0, 600_000, 0, 1, 500_000, 0, 999_999, 400_000]  # sub-second component of the first inception (whole seconds every other time)
    for k, day in enumerate(range(0, 420, step)):
        start = first + day * DAY_US + tods[k % len(tods)] + fracs[k % len(fracs)]
        n = 3
        zp, pol = profiles(n)[0]
        base = honest(n, start, I, V)
        now0 = start - 5 * DAY_US
        out.append((f"tz:honest:{k}", base, zp, pol, all_on, now0))
        pos = k % n
        for d in (HOUR, -HOUR, SEC, -SEC):
            t = list(base)
            t[pos] = (t[pos][0], t[pos][1] + d)
            # the expiry moves: validity is off by d (and the overlap with the next bundle, if any)
            out.append((f"tz:validity:{k}:{pos}:{d}", t, zp, pol, only("signature_validity_match_zsk_policy"), now0))
            out.append((f"tz:validity:{k}:{pos}:{d}:all-on", t, zp, pol, all_on, now0))
        for d in (HOUR, -HOUR):
            t = list(base)
            for j in range(1, n):
                t[j] = (t[j][0] + d, t[j][1] + d)
            out.append((f"tz:interval:{k}:{d}", t, zp, pol, only("check_bundle_intervals"), now0))
            out.append((f"tz:overlap:{k}:{d}", t, zp, pol, only("check_bundle_overlap"), now0))
            out.append((f"tz:cycle:{k}:{d}", t, zp, pol, only("check_cycle_length"), now0))
        H = 60
        ph = dict(pol, horizon_days=H)
        for d in (-SEC, 0, SEC, HOUR, -HOUR):
            out.append((f"tz:horizon:far:{k}:{d}", base, zp, ph, only("signature_check_expire_horizon"), base[-1][1] - (H + 1) * DAY_US + d))
            out.append((f"tz:horizon:past:{k}:{d}", base, zp, ph, only("signature_check_expire_horizon"), base[0][1] + d))
        # SUB-SECOND deviations, visible on the text path only if the loader keeps the fraction digits: the decisive quantity misses its
        # (min == max) bound by 1 us / half a second / all but 1 us of a second, either side -- every one of them is outside the region
        for d in SUB_OFFSETS:
            t = list(base)
            t[pos] = (t[pos][0], t[pos][1] + d)
            out.append((f"tz:sub:validity:{k}:{pos}:{d}", t, zp, pol, only("signature_validity_match_zsk_policy") if (k + d) % 2 else all_on, now0))
            t = list(base)
            t[pos] = (t[pos][0] + d, t[pos][1])  # the INCEPTION carries the deviation
            out.append((f"tz:sub:validity-inception:{k}:{pos}:{d}", t, zp, pol, only("signature_validity_match_zsk_policy"), now0))
            t = list(base)
            for j in range(1, n):
                t[j] = (t[j][0] + d, t[j][1] + d)
            own = ["check_bundle_intervals", "check_bundle_overlap", "check_cycle_length"][(k + abs(d)) % 3]
            out.append((f"tz:sub:{own}:{k}:{d}", t, zp, pol, only(own), now0))
            if abs(d) != 999_999:
                out.append((f"tz:sub:horizon:far:{k}:{d}", base, zp, ph, only("signature_check_expire_horizon"), base[-1][1] - (H + 1) * DAY_US + d))
                out.append((f"tz:sub:horizon:past:{k}:{d}", base, zp, ph, only("signature_check_expire_horizon"), base[0][1] + d))
        # ... and sub-second deviations that stay INSIDE a min < max window (wide profile): must be accepted
        zw3, pw3 = profiles(n)[1]
        for d in (SUB_OFFSETS[k % 6], SUB_OFFSETS[(k + 3) % 6]):
            t = list(base)
            t[pos] = (t[pos][0], t[pos][1] + d)
            out.append((f"tz:sub:inside-wide-window:{k}:{pos}:{d}", t, zw3, pw3, all_on, now0))
        # a gap of less than a second between consecutive bundles (declared overlap window [0, 30 d]: a document cannot state a negative duration)
        if n >= 2:
            for d in (1, 500_000, -1):
                t = list(base)
                t[1] = (t[0][1] + d, t[0][1] + d + V)
                t[2:] = [(t[1][0] + (j - 1) * I, t[1][1] + (j - 1) * I) for j in range(2, n)]
                out.append((f"tz:sub:gap:{k}:{d}", t, dict(zp, min_overlap=0, max_overlap=30 * DAY_US), pol, only("check_bundle_overlap"), now0))
        if k % 4 == 0:
            # a whole nine-bundle cycle with the wide profile, a random bundle's validity on a bound
            zw, pw = profiles(9)[1]
            t = honest(9, start, I, V)
            j = r.randrange(9)
            t[j] = (t[j][0], t[j][0] + r.choice([zw["min_validity"], zw["max_validity"], zw["min_validity"] - HOUR, zw["max_validity"] + HOUR]))
            out.append((f"tz:nine:{k}:{j}", t, zw, pw, only("signature_validity_match_zsk_policy"), now0))
            out.append((f"tz:nine:{k}:{j}:all-on", honest(9, start, I, V), zw, pw, all_on, now0))
    return out


# ---- spellings of the declared durations (ISO 8601 text) ----------------------------------------------------------------

UNIT_SECONDS = {"W": 604800, "D": 86400, "H": 3600, "M": 60, "S": 1}  # own arithmetic: a week is seven days of 24 hours of 60 minutes of 60 seconds
UNIT_ORDER = "WDHMS"
# the documented grammar ("ISO 8601 week / day / hour / minute / second durations"): P, then weeks and days in this order, then -- after a
# `T` that is written if and only if a time component follows -- hours, minutes, seconds in this order; every component optional, at
# least one present; a component is ASCII digits (leading zeros allowed) and its designator.  `M` stands for minutes only (after `T`).
DURATION_GRAMMAR = re.compile(r"^P(?=\d|T\d)(?:(\d+)W)?(?:(\d+)D)?(?:T(?=\d)(?:(\d+)H)?(?:(\d+)M)?(?:(\d+)S)?)?$")
DUR_FIELDS = ["max_validity", "min_validity", "max_overlap", "min_overlap"]


def grammar_seconds(text: str) -> int | None:
    """the number of seconds a text of the documented grammar denotes (None: the text is not of the grammar)"""
    m = DURATION_GRAMMAR.match(text)
    if not m:
        return None
    return sum(int(g) * UNIT_SECONDS[u] for g, u in zip(m.groups(), UNIT_ORDER) if g is not None)


def spell(parts: list[tuple[str, int]], pad: int = 0, no_t: bool = False) -> str:
    """the components written in the given order, each with `pad` leading zeros; a `T` is written once, before the first hour / minute /
    second component (not at all with `no_t`)"""
    out, in_time = "P", False
    for u, n in parts:
        if u in "HMS" and not in_time and not no_t:
            out += "T"
            in_time = True
        out += "0" * pad + str(n) + u
    return out


def decompose(x: int, units: str, first: int | None = None) -> list[tuple[str, int]] | None:
    """x seconds over the units `units` (canonical order): the first unit takes `first` of its kind (default: as many as fit), every further one
    as many as fit, the last one the rest -- None when the rest is not a whole number of the last unit"""
    parts = []
    rem = x
    for i, u in enumerate(units):
        size = UNIT_SECONDS[u]
        n = rem // size if (i or first is None) else first
        if i == len(units) - 1:
            if rem % size:
                return None
            n = rem // size
        if n * size > rem:
            return None
        parts.append((u, n))
        rem -= n * size
    return parts


_SPELLINGS: dict[int, list[tuple[str, str, str]]] = {}


def spellings(x: int) -> list[tuple[str, str, str]]:
    """(text, class, how) -- ways of writing the duration of x >= 0 seconds as ISO 8601 text; the value every one of them denotes is x by
    construction (sum of component * UNIT_SECONDS).  class `grammar`: a text of the documented grammar (DURATION_GRAMMAR; must be read as
    exactly x); class `other-order`: the same components in an order / `T` placement the grammar does not have (weeks after days, a date
    component after `T`, a time component without `T`, ...: a reader may refuse it cleanly -- control -- but if it reads it, then as x)."""
    if x in _SPELLINGS:
        return _SPELLINGS[x]
    found: dict[str, tuple[str, str, str]] = {}

    def add(parts: list[tuple[str, int]] | None, how: str, **kw: Any) -> None:
        if parts is None:
            return
        assert sum(n * UNIT_SECONDS[u] for u, n in parts) == x
        text = spell(parts, **kw)
        g = grammar_seconds(text)
        assert g in (None, x), (text, g, x)  # the grammar's own reading agrees with the construction
        found.setdefault(text, (text, "grammar" if g is not None else "other-order", how))

    subsets = ["".join(u for u, b in zip(UNIT_ORDER, bits) if b) for bits in itertools.product([0, 1], repeat=5) if any(bits)]
    for units in subsets:
        greedy = decompose(x, units)
        if greedy is None:
            continue
        mixed = sum(1 for _, n in greedy if n) >= 2
        name = "one-unit:" + units if len(units) == 1 else "mix:" + units
        add(greedy, name + (":zero-component" if any(n == 0 for _, n in greedy) else ""))
        if len(units) >= 2:
            # not normalised: one (and: every) first unit less than fit, the smaller units carry the rest (P1W8D, P0W15D)
            if greedy[0][1] >= 1:
                add(decompose(x, units, greedy[0][1] - 1), name + ":not-normalised")
            add(decompose(x, units, 0), name + ":first-unit-zero")
        if mixed and len(units) in (2, 3, 5):
            add(greedy, name + ":leading-zeros", pad=1 + len(units) % 2)
            # orders the grammar does not have
            add(greedy[::-1], name + ":reversed-order")
            add(greedy[1:] + greedy[:1], name + ":rotated-order")
            if "M" not in units and any(u in "HS" for u in units):
                add(greedy, name + ":time-component-without-T", no_t=True)
    _SPELLINGS[x] = sorted(found.values(), key=lambda t: (len(t[0]), t[0]))  # the plainest texts first
    return _SPELLINGS[x]


# texts OUTSIDE the grammar that a loader should refuse: `M` before `T` is a month (no fixed length), a `T` that nothing follows.  Controls: counted
# when refused cleanly; nothing is demanded of a loader that reads them.
OUTSIDE_GRAMMAR = ["P1M", "P1M1D", "P2W1M", "P1MT1M", "P15DT", "P2WT"]


def dur_cases(r: Any, tier: str) -> list[dict[str, Any]]:
    """Cases of the duration-SPELLING stream (XML text path): three-bundle timelines whose decisive quantity -- validity or overlap -- is X, X - 1 s,
    X + 1 s against a declared bound X that the document states in every spelling of `spellings(X)`; the field rotates over Max/MinSignatureValidity
    and Max/MinValidityOverlap.  Shapes: `eq` lower bound = upper bound = X (the other bound in the same or in another spelling of X), `window` the
    other bound one day away; quantity on the bound (inside) and one second beyond it (outside).  The three durations that are not decisive are
    written in rotating grammar spellings of their own values.  Expected value of every text: own integer arithmetic; verdict: region()."""
    DAY_S = 86400
    values = [15 * DAY_S, 8 * DAY_S, 10 * DAY_S, 7 * DAY_S + 12 * 3600, 694861, 21 * DAY_S, 90061, 36 * 3600]
    # 2W1D, 1W1D, 1W3D, 1WT12H, 1W1DT1H1M1S, 3W (weeks alone), 1DT1H1M1S and PT36H (no week: hour / minute / second mixes)
    for _ in range(2 if tier == "quick" else 24):
        values.append(r.randrange(0, 4) * 604800 + r.randrange(0, 7) * DAY_S + r.choice([0, 0, r.randrange(24)]) * 3600 + r.choice([0, r.randrange(60)]) * 60 + r.choice([0, r.randrange(60)]) + 2)
    all_on = {f: True for f in TIMING_FLAGS}
    only = lambda own: {f: (f == own) for f in TIMING_FLAGS}  # noqa: E731
    start = 1_893_456_000 * SEC + 7 * 3600 * SEC  # 2030-01-01T07:00:00Z
    out: list[dict[str, Any]] = []

    def grammar_text(v: int, k: int) -> str:
        g = [t for t, cls, _ in spellings(v) if cls == "grammar"]
        return g[k % len(g)]

    def emit(tag: str, x: int, field: str, text: str, cls: str, how: str, shape: str, d: int, k: int, outside: bool = False) -> None:
        rule = "validity" if field.endswith("validity") else "overlap"
        I = (min(5 * DAY_S, x // 2) if rule == "validity" else 10 * DAY_S) * SEC
        V = x * SEC if rule == "validity" else x * SEC + I
        O = V - I
        other = {"eq": x, "window": max(0, x - DAY_S) if field.startswith("max") else x + DAY_S}[shape]
        lo, hi = (other, x) if field.startswith("max") else (x, other)
        zp = {"min_validity": V, "max_validity": V, "min_overlap": O, "max_overlap": O}
        zp["min_" + rule], zp["max_" + rule] = lo * SEC, hi * SEC
        pol = {"num_bundles": 3, "min_cycle": 2 * I, "max_cycle": 2 * I, "min_interval": I, "max_interval": I, "horizon_days": 180}
        t = honest(3, start, I, V)
        if d:
            pos = k % 3
            if rule == "validity":
                t[pos] = (t[pos][0], t[pos][1] + d)
            else:
                t = [t[0]] + [(i - d, e - d) for i, e in t[1:]]  # the overlap of the first pair becomes O + d
        # the decisive field in the spelling under test; its companion bound in the same text (eq, every other time) or in a rotating grammar
        # spelling of its own value; the two durations of the other rule in rotating grammar spellings of theirs
        durations = {f: grammar_text(zp[f] // SEC, k + fi) for fi, f in enumerate(DUR_FIELDS)}
        durations[field] = text
        companion = ("min_" if field.startswith("max") else "max_") + rule
        if shape == "eq" and k % 2 == 0 and not outside:
            durations[companion] = text
        flags = all_on if (d == 0 or k % 3 == 0) else only(RULES[rule][0])
        out.append({"tag": tag, "n": 3, "timeline": t, "zsk": zp, "policy": pol, "flags": flags, "now": start - 5 * DAY_US, "tz": "UTC", "style": STYLES[k % len(STYLES)],
                    "via_file": k % 5 == 0, "durations": durations, "dur": {"field": field, "text": text, "seconds": x, "class": cls, "how": how, "shape": shape, "quantity_minus_bound_us": d}})

    k = 0
    for xi, x in enumerate(values):
        for si, (text, cls, how) in enumerate(spellings(x)):
            field = DUR_FIELDS[(xi + si) % 4]
            beyond = SEC if field.startswith("max") else -SEC
            for shape, d in (("eq", 0), ("eq", beyond if si % 2 else -beyond), ("window", 0), ("window", beyond)):
                if tier == "quick" and ((shape == "window" and ((si + xi) % 2 or (cls == "other-order" and d == 0))) or (shape == "eq" and d and (si + xi) % 2 == 0)):
                    continue  # quick: every spelling as lower bound = upper bound with the quantity on it; beyond it, or the min < max window, alternately
                k += 1
                emit(f"dur:{cls}:{shape}:{'on-bound' if d == 0 else 'bound%+ds' % (d // SEC)}:{field}:{text}", x, field, text, cls, how, shape, d, k)
    for oi, text in enumerate(OUTSIDE_GRAMMAR):
        k += 1
        emit(f"dur:outside-grammar:eq:on-bound:{DUR_FIELDS[oi % 4]}:{text}", 15 * DAY_S, DUR_FIELDS[oi % 4], text, "outside-grammar", "month-or-dangling-T", "eq", 0, k, outside=True)
    return out


def run_tz_case(case: dict[str, Any], via_file: bool = False) -> dict[str, Any]:
    """Render the case as XML text, load it through /repo's loader and validate it — in the process time zone that is set NOW."""
    from kskm.ksr.load import load_ksr, request_from_xml
    from kskm.ksr.validate import validate_request

    timeline = [tuple(x) for x in case["timeline"]]
    xml = ksr_xml(timeline, case["zsk"], case["style"], case.get("durations"))
    _, policy = build(timeline, case["zsk"], case["policy"], case["flags"])
    parsed: Any = None
    declared: Any = None
    try:
        loaded = request_from_xml(xml)
        parsed = [(lib.dt_us(b.inception), lib.dt_us(b.expiration)) for b in loaded.bundles]
        z = loaded.zsk_policy
        declared = {"min_validity": lib.td_us(z.min_signature_validity), "max_validity": lib.td_us(z.max_signature_validity),
                    "min_overlap": lib.td_us(z.min_validity_overlap), "max_overlap": lib.td_us(z.max_validity_overlap)}
    except Exception:  # noqa: BLE001  (the verdict below reports it)
        pass

    def go() -> Any:
        if via_file:
            with tempfile.TemporaryDirectory(prefix="corr_C05_") as tmp:
                f = Path(tmp, "ksr.xml")
                f.write_text(xml)
                load_ksr(f, policy, raise_original=True)
                return True
        return validate_request(request_from_xml(xml), policy)

    with PinnedClock() as clock:
        clock.now_us = case["now"]
        impl = run_impl(go)
    return {"impl": impl, "parsed": parsed, "declared": declared, "xml": xml}


def run(tier: str, driver_ok: bool) -> Result:
    from kskm.ksr.validate import validate_request

    res = Result("C05")
    res.rule = (
        "lattice {bound-1d, bound-1s, bound, bound+1s, bound+1d} around every bound of every timing rule at every bundle position "
        "(quick: first/second/middle/last two positions for n>4), n = 1..9 bundles, min<max and min==max profiles, flag sets = "
        "all-on / own-flag-only / all-but-own / random (thorough: all 32) / all-on with every OTHER rule satisfied through the policy "
        "(isolation: bounds := hull of the timeline's own quantities), random timelines, real-clock stream; "
        "degenerate quantities: validity / overlap / interval / cycle length / distance to the clock at exactly 0, +-1 s, -1 d "
        "(identical and reversed inceptions, expiration == inception, expiry == now) at every position against bounds = profile / "
        "[0,max] / [0,0] / [-1d,0], all-identical timelines; environment independence: XML text (timestamps naive / Z / +00:00 / "
        "mixed) through request_from_xml and load_ksr under process time zones UTC, America/New_York, Australia/Lord_Howe, "
        "Asia/Kolkata, Europe/Berlin (TZ + tzset), three- and nine-bundle timelines starting every 26 d (thorough: 13 d) over 14 "
        "months so that every DST switch is straddled, bounds hit exactly and missed by 1 h / 1 s, parsed instants compared with "
        "the instants the text denotes; sub-second components: every lattice quantity also at bound +-1 us / +-0.5 s / +-999999 us on "
        "whole-second timelines and on timelines whose instants all carry a sub-second part, degenerate quantities at 0 +-1 us, random "
        "sub-second deviations; the same deviations (validity via expiration and via inception, interval / overlap / cycle, horizon, "
        "sub-second gap, inside a min<max window) through the XML text path with 1..6 fraction digits (quick: under UTC and one rotating "
        "non-UTC zone); spellings of the declared durations (XML text path): each bound X in {2W1D, 1W1D, 1W3D, 1WT12H, 1W1DT1H1M1S, 3W, "
        "1DT1H1M1S, PT36H, random sums (quick: 2, thorough: 24)} written as seconds / minutes / hours / days / weeks only and as every mix over the 31 "
        "subsets of W/D/H/M/S -- normalised, not normalised, first unit zero, zero components, leading zeros, T section present / absent -- plus the "
        "same components in orders / T placements outside the grammar (control if refused, exact value if read), as declared max / min of validity / "
        "overlap (rotating), lower = upper bound (same text / another spelling) and one-day window, quantity on the bound and one second beyond (quick: "
        "every spelling on lower = upper bound, then alternately one second beyond it / the window on and beyond its bound); loader's durations compared with own integer arithmetic, verdict with the documented region; "
        "non-trivial = distinct (timeline, policy, flags, now[, zone, spelling]) input"
    )
    r = lib.rng("C05")
    cases: list[dict[str, Any]] = []
    lines: list[dict[str, Any]] = []
    all_on = {f: True for f in TIMING_FLAGS}

    def add(tag: str, n: int, timeline: list[tuple[int, int]], zp: dict[str, int], pol: dict[str, Any], flags: dict[str, bool], now: int, clock: Any) -> dict[str, bool]:
        req, policy = build(timeline, zp, pol, flags)
        clock.now_us = now
        impl = run_impl(lambda: validate_request(req, policy))
        reg = region(timeline, zp, pol, now)
        want_accept = reg["count"] and all(reg[f] for f in TIMING_FLAGS if flags[f])
        case = {"tag": tag, "n": n, "timeline": timeline, "zsk": zp, "policy": pol, "flags": flags, "now": now}
        cases.append({"case": case, "impl": impl, "want": want_accept, "region": reg})
        lines.append({"op": "validate_request", "request": request_j(req), "policy": request_policy_j(policy), "now": now})
        return reg

    with PinnedClock() as clock:
        for n in range(1, 10):
            for kind, gen in (("lattice", lattice), ("degenerate", degenerate)):
                for tag, timeline, zp, pol, now in gen(n, r, tier):
                    res.bump("class:" + kind)
                    if any(x % SEC for b in timeline for x in b) or now % SEC:
                        res.bump("class:" + kind + ":with-sub-second-instants")
                    for flags in flag_sets(tag, r, tier):
                        add(tag, n, timeline, zp, pol, flags, now, clock)
                    rule = tag.split(":")[0]
                    if rule in ("random", "honest", "identical"):
                        continue
                    iso = isolate(timeline, zp, pol, now, rule)
                    if iso is None:
                        res.bump("isolation:impossible (a gap: the overlap rule refuses whatever is declared)")
                        continue
                    reg = add(tag + ":isolated", n, timeline, iso[0], iso[1], all_on, iso[2], clock)
                    own = OWN_RULE.get(rule, rule)
                    own_clause = "count" if own == "count" else "signature_check_expire_horizon" if own == "horizon" else RULES[own][0]
                    others_hold = all(v for c, v in reg.items() if c != own_clause)
                    res.bump("isolation:" + ("others-satisfied:own-clause-" + ("holds" if reg[own_clause] else "violated") if others_hold else "another-clause-still-violated"))
    # real clock, one-hour margins
    real_now = lib.dt_us(datetime.now(timezone.utc))
    HOUR = 3600 * SEC
    for H in (1, 30, 180):
        for margin, edge in itertools.product((-HOUR, HOUR), ("far", "past")):
            exp = real_now + (H + 1) * DAY_US + margin if edge == "far" else real_now + margin
            timeline = [(exp - 21 * DAY_US, exp)]
            zp, pol = profiles(1)[1]
            pol = dict(pol, horizon_days=H)
            flags = {f: (f == "signature_check_expire_horizon") for f in TIMING_FLAGS}
            req, policy = build(timeline, zp, pol, flags)
            impl = run_impl(lambda: validate_request(req, policy))
            reg = region(timeline, zp, pol, real_now)
            case = {"tag": f"realclock:{edge}:{H}:{margin}", "n": 1, "timeline": timeline, "zsk": zp, "policy": pol, "flags": flags, "now": "real"}
            cases.append({"case": case, "impl": impl, "want": reg["count"] and reg["signature_check_expire_horizon"], "region": reg})
            lines.append({"op": "validate_request", "request": request_j(req), "policy": request_policy_j(policy), "now": real_now})

    # environment independence: the same XML texts under several process time zones
    tzc = tz_cases(r, tier)
    for zi, (zname, posix, offset) in enumerate(TZ_ZONES):
        with ProcessTZ(zname, posix, offset) as ptz:
            res.bump(f"tz:zone:{zname} (TZ={ptz.value})", 0)
            for ci, (tag, timeline, zp, pol, flags, now) in enumerate(tzc):
                sub = tag.split(":")[1] == "sub"
                if tier == "quick" and sub and zi not in (0, 1 + ci % (len(TZ_ZONES) - 1)):
                    continue  # quick: a sub-second case is judged under UTC and under one of the non-UTC zones (rotating)
                for si, style in enumerate(STYLES):
                    if tier == "quick" and tag.split(":")[1] != "honest" and (ci + si) % 2:
                        continue  # quick: non-honest cases alternate between two of the four spellings
                    case = {"tag": tag, "n": len(timeline), "timeline": timeline, "zsk": zp, "policy": pol, "flags": flags, "now": now, "tz": zname, "style": style,
                            "via_file": (ci + si) % 5 == 0}
                    got = run_tz_case(case, via_file=case["via_file"])
                    reg = region(timeline, zp, pol, now)
                    want_accept = reg["count"] and all(reg[f] for f in TIMING_FLAGS if flags[f])
                    cases.append({"case": case, "impl": got["impl"], "want": want_accept, "region": reg, "parsed": got["parsed"]})
                    req, policy = build(timeline, zp, pol, flags)
                    lines.append({"op": "validate_request", "request": request_j(req), "policy": request_policy_j(policy), "now": now})
                    res.bump(f"tz:zone:{zname} (TZ={ptz.value})")
                    res.bump("tz:spelling:" + style)
                    res.bump("tz:path:" + ("load_ksr" if case["via_file"] else "request_from_xml"))
                    for inst in (x for b in timeline for x in b):
                        if inst % SEC:
                            res.bump("xml:instant-with-fraction-digits:" + str(len(f"{inst % SEC:06d}".rstrip("0"))) + "-significant")
                    if sub:
                        res.bump("xml:sub-second-case:" + tag.split(":")[2])

    # spellings of the declared durations: the same number of seconds written in every mix of W / D / H / M / S (XML text path, under UTC)
    with ProcessTZ(*TZ_ZONES[0]):
        for case in dur_cases(r, tier):
            timeline, zp, pol = case["timeline"], case["zsk"], case["policy"]
            got = run_tz_case(case, via_file=case["via_file"])
            reg = region(timeline, zp, pol, case["now"])
            want_accept = reg["count"] and all(reg[f] for f in TIMING_FLAGS if case["flags"][f])
            cases.append({"case": case, "impl": got["impl"], "want": want_accept, "region": reg, "parsed": got["parsed"], "declared": got["declared"]})
            req, policy = build(timeline, zp, pol, case["flags"])
            lines.append({"op": "validate_request", "request": request_j(req), "policy": request_policy_j(policy), "now": case["now"]})
            d = case["dur"]
            res.bump("dur:class:" + d["class"])
            res.bump("dur:field:" + d["field"])
            res.bump("dur:shape:" + d["shape"] + (":quantity-on-the-bound" if d["quantity_minus_bound_us"] == 0 else ":quantity-one-second-beyond-the-bound"))
            how = d["how"].split(":")
            res.bump("dur:units:" + ":".join(how[:2]))
            for feature in how[2:]:
                res.bump("dur:feature:" + feature)
            res.bump("dur:T-section-" + ("present" if "T" in d["text"] else "absent"))
            res.bump("dur:expected-" + ("accept" if want_accept else "reject"))
            res.bump("tz:path:" + ("load_ksr" if case["via_file"] else "request_from_xml"))

    model = run_driver(lines) if driver_ok else [None] * len(lines)
    for c, m in zip(cases, model):
        case, impl = c["case"], c["impl"]
        res.count(case)
        rule = case["tag"].split(":")[0]
        res.bump("rule:" + rule)
        res.bump("impl:" + ("accept" if "ok" in impl else next(iter(impl.values()))))
        if len(res.samples) < 6 and rule in ("validity", "horizon", "overlap", "random", "tz", "dur"):
            if not any(s["case"]["tag"].split(":")[0] == rule for s in res.samples) and not (rule == "dur" and "W" not in case["dur"]["text"]):
                res.sample({"case": case, "impl": impl, "model": m, "documented_region_accepts": c["want"]}, limit=6)
        impl_accept = "ok" in impl
        key = rule if rule != "tz" else "tz:" + ":".join(case["tag"].split(":")[1:3] if case["tag"].split(":")[1] == "sub" else case["tag"].split(":")[1:2])
        dur = case.get("dur")
        if dur is not None:
            key = f"dur:{dur['class']}:{dur['shape']}"
            if dur["class"] != "grammar" and "error" in impl:
                # a text the documented grammar does not have (other component order / T placement, a month, a T that nothing follows), refused cleanly: a control
                res.bump(f"dur:control:{dur['class']}-text-refused-cleanly")
                continue
            if dur["class"] == "outside-grammar":
                res.bump("dur:control:outside-grammar-text-read-by-the-loader (nothing demanded): " + dur["text"])
                continue
        if c.get("declared") is not None:
            # the durations the loader read from the text against the durations the text denotes (own arithmetic: W=604800 s, D=86400 s, H=3600 s, M=60 s)
            wrong = {f: {"text": (case.get("durations") or {}).get(f) or fmt_duration(case["zsk"][f]), "denotes_us": case["zsk"][f], "parsed_us": c["declared"][f]}
                     for f in DUR_FIELDS if c["declared"][f] != case["zsk"][f]}
            if wrong:
                res.violation("loader: a duration the KSR declares (ISO 8601 text) is not read as the duration the text denotes", case,
                              key=("dur:parsed-duration:" + dur["class"]) if dur is not None else "tz:parsed-duration", wrong=wrong)
        if "tz" in case and c["parsed"] is not None:
            denoted = sorted(case["timeline"], key=lambda b: (b[1], b[0]))
            if [tuple(x) for x in c["parsed"]] != [tuple(x) for x in denoted]:
                got_flat, den_flat = [x for b in c["parsed"] for x in b], [x for b in denoted for x in b]
                within_a_second = len(got_flat) == len(den_flat) and all(abs(a - b) < SEC for a, b in zip(got_flat, den_flat))
                res.violation(
                    "loader: the instants parsed from the XML text are not the UTC instants the text denotes "
                    + ("(they differ by less than a second: the fraction digits of the text are not kept exactly)" if within_a_second else "(process time zone dependent)"),
                    case, key="tz:parsed-instants" + (":sub-second" if within_a_second else ""), parsed=c["parsed"], denoted=denoted,
                )
        if "error" in impl:
            res.violation("timing rules: implementation ends in a non-policy error", case, key=f"error:{key}", impl=impl)
        elif impl_accept != c["want"]:
            res.violation(
                "timing rules: implementation verdict differs from the documented region",
                case,
                key=f"{key}",
                impl=impl,
                documented_region_accepts=c["want"],
                clauses=c["region"],
            )
        if m is None:
            continue
        if lib.is_unsupported(m):
            res.unsupported += 1
        elif not same_outcome(impl, m):
            res.disagreement("validate_request: model != implementation", case, impl, m)
    return res


def replay(obj: dict[str, Any]) -> Any:
    from kskm.ksr.validate import validate_request

    v = obj.get("violation") or obj.get("disagreement") or {}
    case = v["case"]
    timeline = [tuple(x) for x in case["timeline"]]
    req, policy = build(timeline, case["zsk"], case["policy"], case["flags"])
    now = case["now"] if case["now"] != "real" else lib.dt_us(datetime.now(timezone.utc))
    if "tz" in case:
        zone = next(z for z in TZ_ZONES if z[0] == case["tz"])
        with ProcessTZ(*zone):
            got = run_tz_case(case, via_file=case.get("via_file", False))
        with ProcessTZ(*TZ_ZONES[0]):
            utc = run_tz_case(case, via_file=case.get("via_file", False))
        m = run_driver([{"op": "validate_request", "request": request_j(req), "policy": request_policy_j(policy), "now": now}])[0]
        return {"case": case, "xml": got["xml"], "implementation": got["impl"], "parsed_instants": got["parsed"], "denoted_instants": sorted(timeline, key=lambda b: (b[1], b[0])),
                "parsed_durations_us": got["declared"], "denoted_durations_us": {f: case["zsk"][f] for f in DUR_FIELDS}, "duration_texts": case.get("durations"),
                "implementation_under_UTC": utc["impl"], "parsed_instants_under_UTC": utc["parsed"], "model": m, "documented_region": region(timeline, case["zsk"], case["policy"], now)}
    with PinnedClock() as clock:
        clock.now_us = now
        impl = run_impl(lambda: validate_request(req, policy))
    m = run_driver([{"op": "validate_request", "request": request_j(req), "policy": request_policy_j(policy), "now": now}])[0]
    reg = region(timeline, case["zsk"], case["policy"], now)
    return {"case": case, "implementation": impl, "model": m, "documented_region": reg}
