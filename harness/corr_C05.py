"""C05 correspondence: KSR timing rules — implementation vs. Lean model vs. the documented region.

Requests are built directly as data objects (no XML, no cryptography).  For every rule, every bound,
every bundle position and every offset in {-1 d, -1 s, 0, +1 s, +1 d} a timeline is produced whose
decisive quantity sits exactly there; each is judged under several flag assignments (all on, only the
rule's own flag, everything but it, random subsets).  Three verdicts are compared:
  * validate_request() of /repo (clock pinned by replacing the module-level `datetime` name),
  * the model driver (`validate_request` op — same JSON, set iteration order preserved),
  * `region()` below: the documented region transliterated from the property text.
impl != region  -> failing input of the property (VIOLATION);  impl != model -> broken tie.
"""

from __future__ import annotations

import itertools
from datetime import datetime, timezone
from typing import Any

import lib
from lib import DAY_US, PinnedClock, Result, request_j, request_policy_j, run_driver, run_impl, same_outcome, us_dt, us_td

ASSUMPTIONS = [
    "the clock is the only external input of these rules; it is pinned (and, in a separate stream, the real clock is used with one-hour margins)",
    "non-timing rules are switched off or trivially satisfied in this run (they are C06/C07's subject)",
]
TRUSTED: list[str] = []

SEC = 10**6
TIMING_FLAGS = [
    "check_cycle_length",
    "check_bundle_overlap",
    "signature_validity_match_zsk_policy",
    "signature_check_expire_horizon",
    "check_bundle_intervals",
]
OFFSETS = [-DAY_US, -SEC, 0, SEC, DAY_US]


def region(bundles: list[tuple[int, int]], zp: dict[str, int], pol: dict[str, Any], now: int) -> dict[str, bool]:
    """The documented region, clause by clause (True = clause satisfied). Written from the property text."""
    out: dict[str, bool] = {}
    out["count"] = len(bundles) == pol["num_bundles"]
    out["check_cycle_length"] = (not bundles) or (pol["min_cycle"] <= bundles[-1][0] - bundles[0][0] <= pol["max_cycle"])
    ov = True
    iv = True
    for (pi, pe), (ti, te) in zip(bundles, bundles[1:]):
        if ti > pe:
            ov = False  # a gap
        if not (zp["min_overlap"] <= pe - ti <= zp["max_overlap"]):
            ov = False
        if not (pol["min_interval"] <= ti - pi <= pol["max_interval"]):
            iv = False
    out["check_bundle_overlap"] = ov
    out["check_bundle_intervals"] = iv
    out["signature_validity_match_zsk_policy"] = all(zp["min_validity"] <= e - i <= zp["max_validity"] for i, e in bundles)
    H = pol["horizon_days"]
    out["signature_check_expire_horizon"] = all(now <= e and (e - now) < (H + 1) * DAY_US for _, e in bundles)
    return out


def build(bundles: list[tuple[int, int]], zp: dict[str, int], pol: dict[str, Any], flags: dict[str, bool]) -> tuple[Any, Any]:
    from kskm.common.config_misc import RequestPolicy
    from kskm.common.data import SignaturePolicy
    from kskm.ksr.data import Request, RequestBundle

    rb = [
        RequestBundle(id=f"b{n}", inception=us_dt(i), expiration=us_dt(e), keys=set(), signatures=set(), signers=None)
        for n, (i, e) in enumerate(bundles)
    ]
    req = Request(
        id="req",
        serial=1,
        domain=".",
        timestamp=None,
        zsk_policy=SignaturePolicy(
            min_signature_validity=us_td(zp["min_validity"]),
            max_signature_validity=us_td(zp["max_validity"]),
            min_validity_overlap=us_td(zp["min_overlap"]),
            max_validity_overlap=us_td(zp["max_overlap"]),
        ),
        bundles=rb,
    )
    policy = RequestPolicy(
        num_bundles=pol["num_bundles"],
        validate_signatures=False,
        keys_match_zsk_policy=False,
        check_keys_match_ksk_operator_policy=False,
        min_cycle_inception_length=us_td(pol["min_cycle"]),
        max_cycle_inception_length=us_td(pol["max_cycle"]),
        min_bundle_interval=us_td(pol["min_interval"]),
        max_bundle_interval=us_td(pol["max_interval"]),
        signature_horizon_days=pol["horizon_days"],
        **flags,
    )
    return req, policy


def honest(n: int, start: int, interval: int = 10 * DAY_US, validity: int = 21 * DAY_US) -> list[tuple[int, int]]:
    return [(start + k * interval, start + k * interval + validity) for k in range(n)]


def profiles(n: int) -> list[tuple[dict[str, int], dict[str, Any]]]:
    cyc = (n - 1) * 10 * DAY_US
    tight_z = {"min_validity": 21 * DAY_US, "max_validity": 21 * DAY_US, "min_overlap": 11 * DAY_US, "max_overlap": 11 * DAY_US}
    wide_z = {"min_validity": 15 * DAY_US, "max_validity": 25 * DAY_US, "min_overlap": 9 * DAY_US, "max_overlap": 13 * DAY_US}
    tight_p = {"num_bundles": n, "min_cycle": cyc, "max_cycle": cyc, "min_interval": 10 * DAY_US, "max_interval": 10 * DAY_US, "horizon_days": 180}
    wide_p = {"num_bundles": n, "min_cycle": cyc - 2 * DAY_US, "max_cycle": cyc + 2 * DAY_US, "min_interval": 9 * DAY_US, "max_interval": 11 * DAY_US, "horizon_days": 180}
    return [(tight_z, tight_p), (wide_z, wide_p)]


def lattice(n: int, r: Any, tier: str) -> list[tuple[str, list[tuple[int, int]], dict[str, int], dict[str, Any], int]]:
    """(tag, timeline, declared zsk policy, operator policy, now) with one decisive quantity on the lattice."""
    out = []
    start = 1_500_000_000 * SEC
    now0 = start - 5 * DAY_US
    for zp, pol in profiles(n):
        base = honest(n, start)
        out.append(("honest", base, zp, pol, now0))
        positions = range(n) if (tier == "thorough" or n <= 4) else sorted({0, 1, n // 2, n - 2, n - 1} & set(range(n)))
        for pos in positions:
            for d in OFFSETS:
                # validity of bundle `pos` at each bound + d
                for bound in ("min_validity", "max_validity"):
                    t = list(base)
                    t[pos] = (t[pos][0], t[pos][0] + zp[bound] + d)
                    out.append((f"validity:{bound}:{pos}:{d}", t, zp, pol, now0))
                if pos + 1 < n:
                    # overlap of the pair (pos, pos+1) at each bound + d: move the later inception (and keep its validity)
                    for bound in ("min_overlap", "max_overlap"):
                        t = list(base)
                        inc = t[pos][1] - (zp[bound] + d)
                        t[pos + 1] = (inc, inc + 21 * DAY_US)
                        out.append((f"overlap:{bound}:{pos}:{d}", t, zp, pol, now0))
                    # the gap edge: later inception at previous expiration + d, declared overlap window made wide
                    t = list(base)
                    t[pos + 1] = (t[pos][1] + d, t[pos][1] + d + 21 * DAY_US)
                    zgap = dict(zp, min_overlap=-2 * DAY_US, max_overlap=30 * DAY_US)
                    out.append((f"gap:{pos}:{d}", t, zgap, pol, now0))
                    # interval of the pair at each bound + d: shift this and all later bundles
                    for bound in ("min_interval", "max_interval"):
                        t = list(base)
                        delta = (pol[bound] + d) - (t[pos + 1][0] - t[pos][0])
                        for k in range(pos + 1, n):
                            t[k] = (t[k][0] + delta, t[k][1] + delta)
                        out.append((f"interval:{bound}:{pos}:{d}", t, zp, pol, now0))
                # horizon: bundle `pos` expires exactly (H+1) days ahead + d / exactly now + d
                for H in (1, 180):
                    p2 = dict(pol, horizon_days=H)
                    out.append((f"horizon:far:{pos}:{H}:{d}", base, zp, p2, base[pos][1] - (H + 1) * DAY_US + d))
                    out.append((f"horizon:past:{pos}:{H}:{d}", base, zp, p2, base[pos][1] + d))
        for d in OFFSETS:
            cyc = base[-1][0] - base[0][0]
            out.append((f"cycle:min:{d}", base, zp, dict(pol, min_cycle=cyc + d, max_cycle=cyc + 5 * DAY_US), now0))
            out.append((f"cycle:max:{d}", base, zp, dict(pol, min_cycle=cyc - 5 * DAY_US, max_cycle=cyc + d), now0))
        for dn in (-1, 0, 1):
            out.append((f"count:{dn}", base, zp, dict(pol, num_bundles=n + dn), now0))
        # random timelines
        for k in range(6 if tier == "quick" else 40):
            t = []
            inc = start
            for _ in range(n):
                val = r.choice([zp["min_validity"], zp["max_validity"], r.randrange(10, 30) * DAY_US + r.choice([0, 1, -1]) * SEC])
                t.append((inc, inc + val))
                inc += r.choice([pol["min_interval"], pol["max_interval"], r.randrange(5, 15) * DAY_US + r.choice([0, SEC, -SEC])])
            if r.random() < 0.3:
                r.shuffle(t)
            out.append((f"random:{k}", t, zp, pol, r.choice([now0, start + r.randrange(-200, 200) * DAY_US])))
    return out


def flag_sets(tag: str, r: Any, tier: str) -> list[dict[str, bool]]:
    rule = tag.split(":")[0]
    own = {
        "validity": "signature_validity_match_zsk_policy",
        "overlap": "check_bundle_overlap",
        "gap": "check_bundle_overlap",
        "interval": "check_bundle_intervals",
        "horizon": "signature_check_expire_horizon",
        "cycle": "check_cycle_length",
    }.get(rule)
    all_on = {f: True for f in TIMING_FLAGS}
    sets = [all_on]
    if tier == "thorough":
        for bits in itertools.product([False, True], repeat=len(TIMING_FLAGS)):
            sets.append(dict(zip(TIMING_FLAGS, bits)))
        return sets
    if own:
        sets.append({f: (f == own) for f in TIMING_FLAGS})  # only the rule's own flag
        sets.append({f: (f != own) for f in TIMING_FLAGS})  # everything but it (must not reject on its account)
    # every single-flag-only assignment makes the full set of violated rules observable
    if rule in ("random", "honest"):
        for f in TIMING_FLAGS:
            sets.append({g: (g == f) for g in TIMING_FLAGS})
    sets.append({f: r.random() < 0.5 for f in TIMING_FLAGS})
    return sets


def run(tier: str, driver_ok: bool) -> Result:
    from kskm.ksr.validate import validate_request

    res = Result("C05")
    res.rule = (
        "lattice {bound-1d, bound-1s, bound, bound+1s, bound+1d} around every bound of every timing rule at every bundle position "
        "(quick: first/second/middle/last two positions for n>4), n = 1..9 bundles, min<max and min==max profiles, flag sets = "
        "all-on / own-flag-only / all-but-own / random (thorough: all 32), random timelines, real-clock stream; non-trivial = distinct "
        "(timeline, policy, flags, now) input"
    )
    r = lib.rng("C05")
    cases: list[dict[str, Any]] = []
    lines: list[dict[str, Any]] = []
    with PinnedClock() as clock:
        for n in range(1, 10):
            for tag, timeline, zp, pol, now in lattice(n, r, tier):
                for flags in flag_sets(tag, r, tier):
                    req, policy = build(timeline, zp, pol, flags)
                    clock.now_us = now
                    impl = run_impl(lambda: validate_request(req, policy))
                    reg = region(timeline, zp, pol, now)
                    want_accept = reg["count"] and all(reg[f] for f in TIMING_FLAGS if flags[f])
                    case = {"tag": tag, "n": n, "timeline": timeline, "zsk": zp, "policy": pol, "flags": flags, "now": now}
                    cases.append({"case": case, "impl": impl, "want": want_accept, "region": reg})
                    lines.append({"op": "validate_request", "request": request_j(req), "policy": request_policy_j(policy), "now": now})
    # real clock, one-hour margins
    real_now = lib.dt_us(datetime.now(timezone.utc))
    HOUR = 3600 * SEC
    for H in (1, 30, 180):
        for margin, edge in itertools.product((-HOUR, HOUR), ("far", "past")):
            exp = real_now + (H + 1) * DAY_US + margin if edge == "far" else real_now + margin
            timeline = [(exp - 21 * DAY_US, exp)]
            zp, pol = profiles(1)[1]
            pol = dict(pol, horizon_days=H)
            flags = {f: (f == "signature_check_expire_horizon") for f in TIMING_FLAGS}
            req, policy = build(timeline, zp, pol, flags)
            impl = run_impl(lambda: validate_request(req, policy))
            reg = region(timeline, zp, pol, real_now)
            case = {"tag": f"realclock:{edge}:{H}:{margin}", "n": 1, "timeline": timeline, "zsk": zp, "policy": pol, "flags": flags, "now": "real"}
            cases.append({"case": case, "impl": impl, "want": reg["count"] and reg["signature_check_expire_horizon"], "region": reg})
            lines.append({"op": "validate_request", "request": request_j(req), "policy": request_policy_j(policy), "now": real_now})

    model = run_driver(lines) if driver_ok else [None] * len(lines)
    for c, m in zip(cases, model):
        case, impl = c["case"], c["impl"]
        res.count(case)
        rule = case["tag"].split(":")[0]
        res.bump("rule:" + rule)
        res.bump("impl:" + ("accept" if "ok" in impl else next(iter(impl.values()))))
        if len(res.samples) < 4 and rule in ("validity", "horizon", "overlap", "random"):
            if not any(s["case"]["tag"].split(":")[0] == rule for s in res.samples):
                res.sample({"case": case, "impl": impl, "model": m, "documented_region_accepts": c["want"]})
        impl_accept = "ok" in impl
        if "error" in impl:
            res.violation("timing rules: implementation ends in a non-policy error", case, key=f"error:{rule}", impl=impl)
        elif impl_accept != c["want"]:
            res.violation(
                "timing rules: implementation verdict differs from the documented region",
                case,
                key=f"{rule}",
                impl=impl,
                documented_region_accepts=c["want"],
                clauses=c["region"],
            )
        if m is None:
            continue
        if lib.is_unsupported(m):
            res.unsupported += 1
        elif not same_outcome(impl, m):
            res.disagreement("validate_request: model != implementation", case, impl, m)
    return res


def replay(obj: dict[str, Any]) -> Any:
    from kskm.ksr.validate import validate_request

    v = obj.get("violation") or obj.get("disagreement") or {}
    case = v["case"]
    timeline = [tuple(x) for x in case["timeline"]]
    req, policy = build(timeline, case["zsk"], case["policy"], case["flags"])
    now = case["now"] if case["now"] != "real" else lib.dt_us(datetime.now(timezone.utc))
    with PinnedClock() as clock:
        clock.now_us = now
        impl = run_impl(lambda: validate_request(req, policy))
    m = run_driver([{"op": "validate_request", "request": request_j(req), "policy": request_policy_j(policy), "now": now}])[0]
    reg = region(timeline, case["zsk"], case["policy"], now)
    return {"case": case, "implementation": impl, "model": m, "documented_region": reg}
