"""C03 correspondence: all-or-nothing — a failed check, a token fault or a declined confirmation yields no SKR.

The real `ksrsigner()` (and `main()` for exit statuses) runs whole ceremonies with real files against the token
emulator.  Streams:
  (a) FAULTS: for a 1-bundle and a 3-bundle ceremony (quick; 9-bundle two-signer in thorough) EVERY position of the
      token-operation sequence x every applicable fault kind (error return at any op; object missing / duplicated at
      a search; attribute unreadable at a read; signature corrupted / truncated / made by another key / over another
      hash at a C_Sign), with and without a previous SKR;
  (b) GATES before signing: single-rule violations of C05..C09 in the KSR / chain, bad schema name, missing KSR file,
      unknown HSM name, declined confirmation (a dictionary of strings), configuration errors;
  (c) exit statuses through main().
Oracle (the property): the output path changes ONLY on a successful run, and then to exactly the SKR of the
fault-free ceremony (RSA signatures are deterministic); otherwise it keeps its previous bytes, the result is
False/exception and the exit status non-zero; when the failure precedes the signing stage no C_Sign is issued.
The Lean model (`ksrsigner` op) replays each run's token log and must predict result, exit status, events
(display / prompt / the single write and its content) and the complete token-operation sequence.
"""

from __future__ import annotations

from datetime import timedelta
from pathlib import Path
from typing import Any

import ceremony as C
import ceremony_run as R
import keys as K
import lib
import signer_scenarios as S
from lib import Result

DRIVER = C.DRIVER
ASSUMPTIONS = [
    "the write is one effect: open(...,'wb') followed by write() is not atomic in the OS; a crash between the two is not modelled here (its consequence, a truncated file, is C11's subject)",
    "parsing of KSR / previous SKR is outside the ceremony model: parse outcomes are inputs (C12/C13)",
    "the token emulator stands in for a PKCS#11 device",
]
TRUSTED = ["harness/p11emu.py token emulator", "harness/ceremony_run.py entry-point driver"]

FAULTS_BY_OP = {
    "findObjects": ["error", "missing", "duplicate"],
    "getAttributeValue": ["error", "unreadable"],
    "sign": ["error", "corrupt", "truncate", "wrong_key", "wrong_hash"],
}
CONFIRMATIONS = ["Yes", "Yes\n", "\nYes\n\n", "yes", "YES", "Yes ", " Yes", "Y", "", "\n", "Yes\r", "Yes\t", "No", "Yes Yes", "Yes\nNo", "yEs", "Yes.", "‘Yes’", "Ｙｅｓ"]


def ceremony_scenario(r: Any, n: int, signers: int) -> S.Scenario:
    sc = S.Scenario()
    sc.modules = [{"path": "emu0", "pin": "1234", "slots": [{"id": 0}]}]
    names = ["ka", "kb"][:signers]
    pool = K.rsa_keys(2048, 65537)
    for i, name in enumerate(names):
        tk = pool[i]
        k = {"label": "K" + name, "tk": tk, "alg": 8, "module": "emu0", "slot": 0, "priv_has_pub_attrs": True}
        k["entry"] = C.ksk_config_entry(k["label"], tk, 8, with_tag=(i == 0), with_ds=(i == 0), hash_using_hsm=bool(i))
        sc.ksks[name] = k
    for slot in range(1, n + 1):
        sc.schema[slot] = {"publish": list(names), "sign": list(names), "revoke": []}
    z = K.rsa_keys(1024, 65537)
    sc.zsks = [("Z0", z[0], 8), ("Z1", z[1], 8)]
    sc.layout = [[0, 1]] + [[1] for _ in range(n - 1)]
    sc.zsk_ttl = sc.ksk_ttl = 172800
    sc.meta = {"n": n, "signers": signers}
    return sc


def successor(sc: S.Scenario, n: int) -> S.Scenario:
    """The honest next-quarter ceremony after `sc` (same keys; chains to sc's SKR)."""
    import copy

    nx = copy.copy(sc)
    nx.schema = dict(sc.schema)
    nx.layout = [[1]] + [[1] for _ in range(n - 1)]
    nx.schema = {s: sc.schema[1] for s in range(1, n + 1)}
    nx.start = sc.start + timedelta(days=10 * len(sc.layout))
    nx.req_id = "req-2"
    nx.plan = {}
    return nx


def observe(res: Result, runs: list[dict[str, Any]], o: dict[str, Any], case: dict[str, Any], baseline: bytes | None, *, expect_no_sign: bool = False, expect_success: bool | None = None) -> None:
    res.count(case)
    out = o["outcome"]
    success = out == {"ok": True} or out == {"exit": 0} or out == {"ok": None}
    o["case"] = case
    runs.append(o)
    key = case.get("stream", "") + ":" + str(case.get("kind", case.get("gate", "")))
    if o["written"]:
        if not success:
            res.violation("output path was written although the run ended unsuccessfully", case, key="written-on-failure:" + key, outcome=out)
        if baseline is not None and o["file_after"] != baseline:
            res.violation("an SKR other than the fault-free one was written", case, key="wrong-skr:" + key, outcome=out)
    else:
        if success:
            res.violation("run reported success but nothing was written to the output path", case, key="success-no-write:" + key, outcome=out)
        if o["file_after"] != R.SENTINEL:
            res.violation("an existing output file was not left unchanged by an unsuccessful run", case, key="clobbered:" + key, outcome=out)
    if "exit" in o and ((o["exit"] == 0) != success or (not success and o["exit"] == 0)):
        res.violation("exit status 0 on an unsuccessful run (or non-zero on success)", case, key="exit:" + key, outcome=out, exit=o["exit"])
    if expect_no_sign and o["sign_ops"]:
        res.violation("private-key operation although the failure precedes the signing stage", case, key="early-sign:" + key, outcome=out, sign_ops=o["sign_ops"])
    if expect_success is True and not success:
        res.violation("honest ceremony did not succeed", case, key="honest:" + key, outcome=out)
    if expect_success is False and success:
        res.violation("run succeeded although a gate must have refused it", case, key="gate:" + key, outcome=out)
    res.bump("outcome:" + ("success" if success else str(next(iter(out.values())))))


def run(tier: str, driver_ok: bool) -> Result:
    res = Result("C03")
    res.rule = (
        "(a) every token-operation position x every applicable fault kind for 1- and 3-bundle ceremonies (thorough: 9 bundles, two signers), with and "
        "without previous SKR; (b) gate violations before signing (KSR timing/key/PoP rules, chain rules, schema/HSM/KSR-file errors), 19 confirmation "
        "strings, forced runs; (c) exit statuses via main(); non-trivial = distinct (ceremony, fault position, kind | gate | answer)"
    )
    r = lib.rng("C03")
    work = R.scratch_dir("C03")
    runs: list[dict[str, Any]] = []
    try:
        shapes = [(1, 1), (3, 2)] if tier == "quick" else [(1, 1), (3, 2), (9, 2)]
        for n, signers in shapes:
            sc = ceremony_scenario(r, n, signers)
            # ---- baseline (fault-free), first without then with a previous SKR ------------------------
            base = R.run_ceremony(sc, work, answer="Yes")
            observe(res, runs, base, {"stream": "honest", "n": n, "prev": False}, None, expect_success=True)
            baseline = base["file_after"] if base["written"] else None
            nx = successor(sc, n)
            base2 = R.run_ceremony(nx, work, answer="Yes", prev_xml=(baseline or b"").decode())
            observe(res, runs, base2, {"stream": "honest", "n": n, "prev": True}, None, expect_success=True)
            baseline2 = base2["file_after"] if base2["written"] else None
            if len(res.samples) < 1:
                res.sample({"ceremony": S.describe(sc), "token_ops": [x["op"] for x in base["log"]][:40], "outcome": base["outcome"]})
            other_key = K.rsa_keys(2048, 65537)[3]
            # ---- (a) faults -------------------------------------------------------------------------------
            for label, scen, prev, bl, ref in (("noprev", sc, None, baseline, base), ("prev", nx, baseline, baseline2, base2)):
                if prev is not None and tier == "quick" and n > 1:
                    positions = [i for i, rec in enumerate(ref["log"]) if rec["op"] in FAULTS_BY_OP][:: 3]
                else:
                    positions = list(range(len(ref["log"])))
                for pos in positions:
                    op = ref["log"][pos]["op"]
                    kinds = FAULTS_BY_OP.get(op, ["error"])
                    for kind in kinds:
                        f: dict[str, Any] = {"kind": kind}
                        if kind == "wrong_key":
                            f["key"] = other_key
                        if kind == "corrupt":
                            f["pos"] = r.randrange(256)
                            f["bit"] = r.randrange(8)
                        scen.plan = {pos: f}
                        o = R.run_ceremony(scen, work, answer="Yes", prev_xml=None if prev is None else prev.decode())
                        scen.plan = {}
                        case = {"stream": "fault", "n": n, "prev": prev is not None, "position": pos, "op": op, "kind": kind}
                        observe(res, runs, o, case, bl)
                        res.bump(f"fault:{op}:{kind}")
            # ---- (b) confirmation strings ------------------------------------------------------------------
            for ans in CONFIRMATIONS:
                o = R.run_ceremony(sc, work, answer=ans)
                want = ans.strip("\n") == "Yes"  # the documented rule: exactly 'Yes' (newlines aside)
                observe(res, runs, o, {"stream": "confirm", "n": n, "answer": ans}, baseline, expect_no_sign=not want, expect_success=want)
                if o["prompt"].calls != 1:
                    res.violation("confirmation prompt not shown exactly once", {"answer": ans}, key="prompt-count", calls=o["prompt"].calls)
            o = R.run_ceremony(sc, work, answer="no", force=True)
            observe(res, runs, o, {"stream": "confirm", "n": n, "answer": "(forced)"}, baseline, expect_success=True)
            if o["prompt"].calls != 0:
                res.violation("forced run still prompted", {"forced": True}, key="prompt-forced")
            # ---- (b) gates before signing ---------------------------------------------------------------------
            gates: list[tuple[str, dict[str, Any]]] = [
                ("schema-unknown", {"schema_arg": "nosuch"}),
                ("hsm-unknown", {"hsm_arg": "nosuch"}),
                ("bundle-count", {"rp_extra": {"num_bundles": n + 1}}),
                ("domain", {"rp_extra": {"acceptable_domains": ["example."]}}),
                ("keys-per-bundle", {"rp_extra": {"num_keys_per_bundle": [9] * n}}),
                ("rsa-size", {"rp_extra": {"rsa_approved_key_sizes": [2048]}}),
                ("horizon", {"now_us": lib.dt_us(sc.start) - 400 * lib.DAY_US}),
                ("expired", {"now_us": lib.dt_us(sc.start) + 400 * lib.DAY_US}),
                ("interval", {"rp_extra": {"min_bundle_interval": "P11D", "max_bundle_interval": "P12D"}} if n > 1 else {"rp_extra": {"num_bundles": 5}}),
                ("ksr-garbage", {"ksr_xml": "<KSR this is not a KSR"}),
                ("ksr-truncated", {"ksr_xml": C.request_to_xml(sc.request())[:-40]}),
            ]
            # a KSR whose proof of possession is broken (one signature bit)
            xml = C.request_to_xml(sc.request())
            i = xml.index("<SignatureData>") + 40
            bad = xml[:i] + ("A" if xml[i] != "A" else "B") + xml[i + 1 :]
            gates.append(("pop", {"ksr_xml": bad}))
            # everything passes and every signature is made, but the SKR cannot be serialised (the KSR's ZSK policy announces an
            # ECDSA algorithm next to the RSA one, which the operator policy accepts; the writer only knows RSA): the failure comes
            # AFTER the signing stage, so C_Sign operations are expected — but the output path must still be untouched
            from kskm.common.data import AlgorithmDNSSEC, AlgorithmPolicyECDSA

            rq = sc.request()
            rq = rq.replace(zsk_policy=rq.zsk_policy.replace(algorithms=set(rq.zsk_policy.algorithms) | {AlgorithmPolicyECDSA(bits=256, algorithm=AlgorithmDNSSEC.ECDSAP256SHA256)}))
            o = R.run_ceremony(sc, work, answer="Yes", ksr_xml=C.request_to_xml(rq), rp_extra={"approved_algorithms": ["RSASHA256", "ECDSAP256SHA256"]})
            observe(res, runs, o, {"stream": "gate", "n": n, "gate": "skr-not-serialisable"}, baseline, expect_success=False)
            if not o["sign_ops"]:
                res.notes.append("skr-not-serialisable gate did not reach the signing stage (generator problem)")
            for gate, kw in gates:
                o = R.run_ceremony(sc, work, answer="Yes", **kw)
                # zero token operations at all for a bad KSR (it is loaded before the HSM is initialised)
                case = {"stream": "gate", "n": n, "gate": gate}
                observe(res, runs, o, case, baseline, expect_no_sign=True, expect_success=False)
                if gate not in ("hsm-unknown",) and o["log"]:
                    res.violation("token operations although the KSR / schema was refused", case, key="gate-token-ops:" + gate, ops=len(o["log"]))
            # chain gates (with previous SKR)
            if baseline is not None:
                prevx = baseline.decode()
                chain: list[tuple[str, S.Scenario, dict[str, Any]]] = []
                replay = successor(sc, n)
                replay.req_id = "req-1"  # same request id as the previous SKR
                chain.append(("replayed-id", replay, {}))
                gap = successor(sc, n)
                gap.start = gap.start + timedelta(days=13)  # beyond the previous last expiration
                chain.append(("gap", gap, {}))
                early = successor(sc, n)
                early.start = early.start - timedelta(days=3)  # overlap above the declared maximum
                chain.append(("too-early", early, {}))
                rekey = successor(sc, n)
                rekey.zsks = [("Z0", K.rsa_keys(1024, 65537)[4], 8), ("Z1", K.rsa_keys(1024, 65537)[5], 8)]
                chain.append(("re-keyed", rekey, {}))
                samebundle = successor(sc, n)
                chain.append(("bundle-id-reuse", samebundle, {"ksr_xml": C.request_to_xml(samebundle.request()).replace('RequestBundle id="req-2-bundle-1"', f'RequestBundle id="req-1-bundle-{n}"', 1)}))
                foreign = successor(sc, n)
                foreign.token_edits = [lambda w: swap_key(w, "Kka", K.rsa_keys(2048, 65537)[4])]
                chain.append(("prev-signer-not-ours", foreign, {}))
                for gate, scen, kw in chain:
                    o = R.run_ceremony(scen, work, answer="Yes", prev_xml=prevx, **kw)
                    case = {"stream": "gate", "n": n, "gate": "chain:" + gate}
                    observe(res, runs, o, case, None, expect_no_sign=True, expect_success=False)
                # a forged previous SKR (one signature bit flipped) is refused by load_skr
                j = prevx.index("<SignatureData>") + 30
                forged = prevx[:j] + ("A" if prevx[j] != "A" else "B") + prevx[j + 1 :]
                o = R.run_ceremony(successor(sc, n), work, answer="Yes", prev_xml=forged)
                observe(res, runs, o, {"stream": "gate", "n": n, "gate": "chain:forged-prev"}, None, expect_no_sign=True, expect_success=False)
                if o["log"]:
                    res.violation("token operations although the previous SKR was refused", {"gate": "forged-prev"}, key="gate-token-ops:forged-prev")
            # ---- (c) exit statuses via main() ----------------------------------------------------------------
            for tag, kw, want in [
                ("success", {"answer": "Yes"}, 0),
                ("declined", {"answer": "no"}, 3),
                ("schema-unknown", {"answer": "Yes", "schema_arg": "nosuch"}, 3),
                ("config-error", {"answer": "Yes", "cfg_mutator": lambda d: dict(d, request_policy=dict(d["request_policy"], num_bundles=0))}, 2),
                ("bad-ksr", {"answer": "Yes", "rp_extra": {"num_bundles": n + 1}}, "nonzero"),
                ("token-fault", {"answer": "Yes", "_plan": True}, "nonzero"),
            ]:
                kw = dict(kw)
                if kw.pop("_plan", False):
                    sc.plan = {len(base["log"]) - 1: {"kind": "corrupt", "pos": 7, "bit": 1}}
                o = R.run_ceremony(sc, work, use_main=True, **kw)
                sc.plan = {}
                case = {"stream": "main", "n": n, "gate": tag}
                observe(res, runs, o, case, baseline)
                ok = (o["exit"] == want) if isinstance(want, int) else (o["exit"] != 0)
                if not ok:
                    res.violation("exit status differs from the documented mapping", case, key="exit-map:" + tag, exit=o["exit"], want=want, outcome=o["outcome"])
        # ---- model ---------------------------------------------------------------------------------------------
        if driver_ok:
            with_line = [x for x in runs if "line" in x]
            outs = lib.run_driver([x["line"] for x in with_line], exe=DRIVER)
            for x, m in zip(with_line, outs):
                if "driver_error" in m:
                    res.disagreement("ksrsigner: driver error", x["case"], x["outcome"], m)
                    continue
                if lib.is_unsupported(m["result"]):
                    # nothing here is outside the modelled domain: the model left the recorded run (replay / oracle miss)
                    res.disagreement("ksrsigner: the model could not follow the implementation's run (it expects other token operations / oracle questions)", x["case"], x["outcome"], m["result"], log_difference=C.first_log_difference(x["log"], m["log"]))
                    continue
                impl = x["outcome"]
                if "exit" in impl:  # main(): compare exit statuses
                    if m["exit"] != x["exit"]:
                        res.disagreement("ksrsigner: model exit status != implementation", x["case"], impl, m["result"], exits=[x["exit"], m["exit"]])
                elif not lib.same_outcome(impl, m["result"]):
                    res.disagreement("ksrsigner: model result != implementation", x["case"], impl, m["result"])
                d = C.first_log_difference(x["log"], m["log"])
                if d is not None:
                    res.disagreement("ksrsigner: model issues different token operations", x["case"], impl, m["result"], log_difference=d)
                writes = [e["write"] for e in m["events"] if isinstance(e, dict)]
                if bool(writes) != bool(x["written"]):
                    res.disagreement("ksrsigner: model and implementation disagree on whether an SKR is written", x["case"], impl, m["result"])
                elif writes and S.response_sorted_j(writes[0]) != R.canon_written(x["file_after"]):
                    res.disagreement("ksrsigner: model writes a different SKR", x["case"], impl, m["result"])
                if ("prompt" in m["events"]) != (x["prompt"].calls > 0):
                    res.disagreement("ksrsigner: model and implementation disagree on prompting", x["case"], impl, m["result"])
    finally:
        R.cleanup(work)
    return res


def swap_key(world: Any, label: str, tk: K.TestKey) -> None:
    """Replace the objects under `label` by a foreign key with the same label."""
    for m in world.modules.values():
        for s in m.slots:
            for h in [h for h, o in s.objects.items() if o.label == label]:
                del s.objects[h]
            s.add_rsa(label, tk)


def replay(obj: dict[str, Any]) -> Any:
    return {"recorded": obj, "note": "cases are (ceremony shape, fault position/kind | gate | answer); re-run ./check C03 with the same VERIF_SEED"}
