"""C03 correspondence: all-or-nothing — a failed check, a token fault or a declined confirmation yields no SKR.

The real `ksrsigner()` (and `main()` for exit statuses) runs whole ceremonies with real files against the token
emulator.  Streams:
  (a) FAULTS: for a 1-bundle and a 3-bundle ceremony (quick; 9-bundle two-signer in thorough) EVERY position of the
      token-operation sequence x every applicable fault kind (error return at any op; object missing / duplicated at
      a search; attribute unreadable at a read; signature corrupted / truncated / made by another key / over another
      hash at a C_Sign), with and without a previous SKR;
  (a') the same enumeration over REDUNDANT token set-ups, where a KSK label exists in more than one place: two modules
      (primary + backup HSM) or two slots of one module holding the same key material; a later module / slot holding
      OTHER key material under the same label; the key only in the later module (every search first visits the
      earlier one); thorough: two signers spread crosswise over two modules;
  (b) GATES before signing: single-rule violations of C05..C09 in the KSR / chain, bad schema name, missing KSR file,
      unknown HSM name, declined confirmation (a dictionary of strings), configuration errors; every chain gate with
      the previous SKR named in the configuration, on the command line, and both (another file in the configuration);
  (b') gates that only the RESPONSE side sees: identifier collisions in the request (a ZSK whose keyIdentifier is the
      label of a signing / of a merely published KSK, placed in the first, a middle and the last bundle; one identifier
      for two different ZSKs in different bundles / in one bundle) and publish- / retire-safety violations as the ONLY
      violation (a signer that was not pre-published, a previous signer dropped, the publish point outside the previous
      last bundle) — each with the previous SKR named in the configuration / on the command line / both, and in the
      "both" form also the other way round (the command line names an SKR under which nothing is violated);
  (b'') what lies at the output path before the run: nothing, a short file, a 300 kB file, an earlier SKR, an earlier SKR
      longer than the new one — under a successful, a declined, a faulted and a refused-after-signing run;
      a schema whose slots are LISTED out of order in the configuration (the slot number decides);
  (f) FILE-NAME FAULTS (`file_fault_stream`): for every file the entry point takes — previous SKR, KSR, output path, the
      configuration file — the name handed over by the configuration, by the command line, or by one of them while the
      other names nothing / the right file / a stale (other, valid) file, is a name that does not lead to a usable file: a
      typo beside the right file, a directory, an empty file, a file without read permission, a dangling symbolic link, a
      path through a regular file (output: an existing directory, a missing directory, a path through a regular file, a
      file without write permission), through ksrsigner() and through main().  The property: the file that is ASKED FOR
      (command line before configuration) and cannot be loaded ends the run before the signing stage — unsuccessful,
      no private-key operation, not one token operation, output path untouched; an output that cannot be written ends
      the run unsuccessfully and nothing is left at either output name; a broken name that the command line overrides
      either does not matter (same SKR as without it) or is refused as a bad configuration, never anything else.  The
      model's `pickFile` is compared with the precedence the harness applies (driver op `pick_file`);
  (h) the request id re-used ALONE (fresh bundle ids, timeline continued) and a bundle id re-used alone, each with the
      serial of the previous SKR, another serial and serial 0: single-rule chain violations whatever the other header
      fields say;
  (t) TEXT (`text_stream`): honest ceremonies, their honest successors (previous SKR = the file just written, named in
      the configuration / on the command line / via main()), a replayed request id, a declined and a faulted run, spelled
      with non-ASCII but legal text in everything that is copied into the SKR — KSK labels in the configuration and
      on the token (CKA_LABEL), ZSK key identifiers, request and bundle ids — in four profiles: Latin-1 letters, other
      scripts of the basic plane, characters beyond the basic plane, characters a normalising layer would change;
  (c) exit statuses through main(), file names from the configuration and from the command line.
Oracle (the property): the output path changes ONLY on a successful run, and then to exactly the SKR of the
fault-free ceremony, whole file (RSA signatures are deterministic); otherwise it keeps its previous bytes (or stays
absent), the result is False/exception and the exit status non-zero; when the failure precedes the signing stage no
C_Sign is issued.  An injected error return of a token operation (object search, attribute read, C_Sign, module
set-up) and every bad signature must end the run unsuccessfully wherever the key may also be found.  Every SKR a
successful run leaves behind must (1) be accepted by the repository's own `load_skr` (full validate_response) and
(2) by the independent judge `ceremony_run.skr_problems` (ElementTree + dnspython over exactly the published keys of
each bundle, schema roles by slot number, request echoed), and (3) read by the repository's loader as the very document
a standard XML parser reads (`ceremony_run.reader_mismatch`: what the next ceremony will see is what was written).
The Lean model (`ksrsigner` op) replays each run's token log and must predict result, exit status, events
(display / prompt / the single write and its content — compared with the whole file as ElementTree reads it) and the
complete token-operation sequence; the bytes at the output path must be EXACTLY the UTF-8 text the model's writer
(`skrToXml`, C11's model, driver kskm_driver_pkge) produces for the SKR the ceremony model writes (members of sets listed
in the file's order).  Where two keys share an identifier in one key set the model declines
(`KeysToSign.get` depends on set iteration order): those runs are judged by the oracle alone and counted as unsupported.
"""

from __future__ import annotations

import copy
import os
from datetime import timedelta
from pathlib import Path
from typing import Any

import ceremony as C
import ceremony_run as R
import keys as K
import lib
import signer_scenarios as S
from lib import Result

DRIVER = C.DRIVER
ASSUMPTIONS = [
    "the write is one effect: open(...,'wb') followed by write() is not atomic in the OS; a crash between the two is not modelled here (its consequence, a truncated file, is C11's subject)",
    "parsing of KSR / previous SKR is outside the ceremony model: parse outcomes are inputs (C12/C13)",
    "the token emulator stands in for a PKCS#11 device",
    "the property demands an unsuccessful run for every fault at a SIGNING call (error return, corrupted / truncated / wrong-key / wrong-hash signature); an error return at another token operation while the key is also present elsewhere is judged by 'only the fault-free SKR may result' and by the model (which propagates search / attribute-read errors as the unchanged code does) — a behaviour change there is reported as a model/implementation disagreement",
    "an error return of C_OpenSession / C_Login on one slot is not counted among the faults that must end the run: the code documents that such a slot is skipped ('not an error if one or more slots succeeded') and the model follows it; with the KSK also present in another slot the ceremony then completes with the fault-free SKR (counted in stats as session-setup-error:…)",
    "an object search that wrongly answers 'nothing here' (fault kind missing) cannot be told from a slot that does not hold the key: with a second copy elsewhere the search legitimately goes on; only the fault-free SKR may result",
    "file-name faults: the file that is asked for is the one the command line names, else the one the configuration names (documented precedence, the model's pickFile); a broken name in the configuration that the command line overrides may be refused as a bad configuration or ignored — both are judged all-or-nothing (the fault-free SKR or nothing); an output that cannot be written is judged by the property alone (the model's write cannot fail); faults by permission bits are not effective when the check runs as uid 0 (counted, not judged)",
    "the byte-for-byte comparison lists the members of sets (signatures of a bundle, keys of equal tag, algorithms of a policy) in the order the written file shows: the iteration order of a Python set is not part of the property",
]
TRUSTED = ["harness/p11emu.py token emulator (CKA_LABEL as a Python str, as PyKCS11 hands it over: UTF-8 on the wire)", "harness/ceremony_run.py entry-point driver and independent SKR judge (ElementTree, dnspython)", "lean/Kskm/SkrXml.lean (C11's writer model, driver kskm_driver_pkge) for the byte-for-byte comparison of written files"]

FAULTS_BY_OP = {
    "findObjects": ["error", "missing", "duplicate"],
    "getAttributeValue": ["error", "unreadable"],
    "sign": ["error", "corrupt", "truncate", "wrong_key", "wrong_hash"],
}
# fault kinds after which no SKR may appear wherever else the key might be found (see ASSUMPTIONS for the two exceptions)
MUST_FAIL_KINDS = {"error", "corrupt", "truncate", "wrong_key", "wrong_hash"}
SESSION_SETUP_OPS = {"openSession", "login"}
CONFIRMATIONS = ["Yes", "Yes\n", "\nYes\n\n", "yes", "YES", "Yes ", " Yes", "Y", "", "\n", "Yes\r", "Yes\t", "No", "Yes Yes", "Yes\nNo", "yEs", "Yes.", "‘Yes’", "Ｙｅｓ"]
REDUNDANT_QUICK = ["2mod-same-key", "2slot-same-key", "2mod-other-key-later", "2mod-key-in-later-only"]
REDUNDANT_THOROUGH = REDUNDANT_QUICK + ["2slot-other-key-later", "2mod-2slot-same-key", "2mod-two-signers-crosswise"]


def ceremony_scenario(r: Any, n: int, signers: int) -> S.Scenario:
    sc = S.Scenario()
    sc.modules = [{"path": "emu0", "pin": "1234", "slots": [{"id": 0}]}]
    names = ["ka", "kb"][:signers]
    pool = K.rsa_keys(2048, 65537)
    for i, name in enumerate(names):
        tk = pool[i]
        k = {"label": "K" + name, "tk": tk, "alg": 8, "module": "emu0", "slot": 0, "priv_has_pub_attrs": True}
        k["entry"] = C.ksk_config_entry(k["label"], tk, 8, with_tag=(i == 0), with_ds=(i == 0), hash_using_hsm=bool(i))
        sc.ksks[name] = k
    for slot in range(1, n + 1):
        sc.schema[slot] = {"publish": list(names), "sign": list(names), "revoke": []}
    z = K.rsa_keys(1024, 65537)
    sc.zsks = [("Z0", z[0], 8), ("Z1", z[1], 8)]
    sc.layout = [[0, 1]] + [[1] for _ in range(n - 1)]
    sc.zsk_ttl = sc.ksk_ttl = 172800
    sc.meta = {"n": n, "signers": signers}
    return sc


def add_copy(sc: S.Scenario, module: str, slot: int, label: str, tk: K.TestKey) -> None:
    """One more pair of objects under `label` (material `tk`) in another module / slot of the scenario's world."""
    sc.token_edits.append(lambda w, module=module, slot=slot, label=label, tk=tk: w.modules[module].slot(slot).add_rsa(label, tk))


def redundant_scenario(kind: str, n: int = 2) -> S.Scenario:
    """Ceremonies in which a KSK label can be found in more than one place (see the module docstring, stream a')."""
    sc = S.Scenario()
    pool = K.rsa_keys(2048, 65537)
    two_mod = kind.startswith("2mod")
    slots0 = [{"id": 0}, {"id": 1}] if ("2slot" in kind) else [{"id": 0}]
    sc.modules = [{"path": "emu0", "pin": "1234", "slots": [dict(s) for s in slots0]}]
    if two_mod:
        sc.modules.append({"path": "emu1", "pin": "1234", "slots": [dict(s) for s in slots0] if kind == "2mod-2slot-same-key" else [{"id": 0}]})
    names = ["ka", "kb"] if "two-signers" in kind else ["ka"]
    later = ("emu1", 0) if two_mod else ("emu0", 1)
    for i, name in enumerate(names):
        tk = pool[i]
        home = ("emu0", 0)
        if kind == "2mod-key-in-later-only" or (kind == "2mod-two-signers-crosswise" and i == 1):
            home = later
        k = {"label": "K" + name, "tk": tk, "alg": 8, "module": home[0], "slot": home[1], "priv_has_pub_attrs": True}
        # the key is pinned by tag and DS digest, as in the example configuration: OTHER material under the label can never be used
        k["entry"] = C.ksk_config_entry(k["label"], tk, 8, with_tag=True, with_ds=True, hash_using_hsm=bool(i) if "other-key" not in kind else True)
        sc.ksks[name] = k
        if kind in ("2mod-same-key", "2slot-same-key"):
            add_copy(sc, later[0], later[1], k["label"], tk)
        elif kind in ("2mod-other-key-later", "2slot-other-key-later"):
            add_copy(sc, later[0], later[1], k["label"], pool[4])
        elif kind == "2mod-2slot-same-key":
            for m, s in (("emu0", 1), ("emu1", 0), ("emu1", 1)):
                add_copy(sc, m, s, k["label"], tk)
        elif kind == "2mod-two-signers-crosswise":
            other = ("emu0", 0) if home == later else later
            add_copy(sc, other[0], other[1], k["label"], tk)
    for slot in range(1, n + 1):
        sc.schema[slot] = {"publish": list(names), "sign": list(names), "revoke": []}
    z = K.rsa_keys(1024, 65537)
    sc.zsks = [("Z0", z[0], 8), ("Z1", z[1], 8)]
    sc.layout = [[0, 1]] + [[1] for _ in range(n - 1)]
    sc.zsk_ttl = sc.ksk_ttl = 172800
    sc.meta = {"n": n, "signers": len(names), "redundant": kind}
    return sc


def successor(sc: S.Scenario, n: int) -> S.Scenario:
    """The honest next-quarter ceremony after `sc` (same keys; chains to sc's SKR)."""
    nx = copy.copy(sc)
    nx.schema = dict(sc.schema)
    nx.layout = [[1]] + [[1] for _ in range(n - 1)]
    nx.schema = {s: sc.schema[1] for s in range(1, n + 1)}
    nx.start = sc.start + timedelta(days=10 * len(sc.layout))
    nx.req_id = "req-2"
    nx.plan = {}
    return nx


def two_ksk_scenario(n: int, schema_of: Any, *, layout: list[list[int]] | None = None, zsks: list[tuple[str, K.TestKey, int]] | None = None) -> S.Scenario:
    """ka and kb on one token; the schema decides who is published / signs (collision and safety gates)."""
    sc = S.Scenario()
    sc.modules = [{"path": "emu0", "pin": "1234", "slots": [{"id": 0}]}]
    pool = K.rsa_keys(2048, 65537)
    for i, name in enumerate(["ka", "kb"]):
        k = {"label": "K" + name, "tk": pool[i], "alg": 8, "module": "emu0", "slot": 0, "priv_has_pub_attrs": True}
        k["entry"] = C.ksk_config_entry(k["label"], pool[i], 8, with_tag=True, with_ds=True, hash_using_hsm=bool(i))
        sc.ksks[name] = k
    for slot in range(1, n + 1):
        sc.schema[slot] = schema_of(slot)
    z = K.rsa_keys(1024, 65537)
    sc.zsks = zsks or [("Z0", z[0], 8), ("Z1", z[1], 8)]
    sc.layout = layout or ([[0, 1]] + [[1] for _ in range(n - 1)])
    sc.zsk_ttl = sc.ksk_ttl = 172800
    sc.meta = {"n": n, "signers": 2}
    return sc


class Judge:
    """The property oracle for one run (see the module docstring); collects the runs for the model comparison."""

    def __init__(self, res: Result, work: Path) -> None:
        self.res = res
        self.work = work
        self.runs: list[dict[str, Any]] = []

    def observe(
        self,
        o: dict[str, Any],
        case: dict[str, Any],
        baseline: bytes | None,
        *,
        sc: S.Scenario | None = None,
        ksr_xml: str | None = None,
        expect_no_sign: bool = False,
        expect_success: bool | None = None,
        model_may_decline: bool = False,
        refusal: str = "run succeeded although a gate must have refused it",
    ) -> bool:
        res = self.res
        res.count(case)
        out = o["outcome"]
        success = out == {"ok": True} or out == {"exit": 0} or out == {"ok": None}
        o["case"] = case
        o["model_may_decline"] = model_may_decline
        self.runs.append(o)
        key = case.get("stream", "") + ":" + str(case.get("kind", case.get("gate", "")))
        pre = o.get("preexisting", R.SENTINEL)
        if o["written"]:
            if not success:
                res.violation("output path was written although the run ended unsuccessfully", case, key="written-on-failure:" + key, outcome=out)
            if baseline is not None and o["file_after"] != baseline:
                res.violation("an SKR other than the fault-free one was written", case, key="wrong-skr:" + key, outcome=out, bytes_at_output_path=len(o["file_after"]), bytes_of_the_fault_free_skr=len(baseline))
        else:
            if success:
                res.violation("run reported success but nothing was written to the output path", case, key="success-no-write:" + key, outcome=out)
            if o["file_after"] != pre:
                res.violation("an existing output file was not left unchanged by an unsuccessful run", case, key="clobbered:" + key, outcome=out)
            st = o.get("output_state")
            if st is not None and st[0] != st[1]:
                res.violation("what the output name leads to was changed by an unsuccessful run", case, key="clobbered-state:" + key, outcome=out, before=st[0][0], after=st[1][0])
        if o.get("stray_output"):
            res.violation("something was written to the configured output path although the command line names another one", case, key="stray-output:" + key, outcome=out)
        if "exit" in o and ((o["exit"] == 0) != success or (not success and o["exit"] == 0)):
            res.violation("exit status 0 on an unsuccessful run (or non-zero on success)", case, key="exit:" + key, outcome=out, exit=o["exit"])
        if expect_no_sign and o["sign_ops"]:
            res.violation("private-key operation although the failure precedes the signing stage", case, key="early-sign:" + key, outcome=out, sign_ops=o["sign_ops"])
        if expect_success is True and not success:
            res.violation("honest ceremony did not succeed", case, key="honest:" + key, outcome=out)
        if expect_success is False and success:
            res.violation(refusal, case, key="gate:" + key, outcome=out)
        if success and o["file_after"] is not None and o["written"]:
            self.judge_file(o, case, key, sc, ksr_xml)
        res.bump("outcome:" + ("success" if success else str(next(iter(out.values())))))
        return success

    def judge_file(self, o: dict[str, Any], case: dict[str, Any], key: str, sc: S.Scenario | None, ksr_xml: str | None) -> None:
        """Every SKR a successful run leaves behind: the repository's own loader and the independent judge must accept it."""
        from kskm.common.config_misc import ResponsePolicy
        from kskm.skr.load import load_skr

        res = self.res
        n = len(sc.layout) if sc is not None else None
        p = self.work / "reload.xml"
        p.write_bytes(o["file_after"])
        doc = None
        try:
            doc = R.skr_document(o["file_after"])
        except Exception:  # noqa: BLE001  (reported by skr_problems below)
            pass
        nb = n if n is not None else (len(doc["bundles"]) if doc else 1)
        rl = lib.run_impl(lambda: load_skr(p, ResponsePolicy(num_bundles=nb)))
        if "ok" not in rl:
            res.violation("the SKR written by a successful run is refused by load_skr (validate_response)", case, key="reload:" + key, outcome=rl)
        bad = R.skr_problems(o["file_after"], num_bundles=n, roles=R.roles_of(sc) if sc is not None else None, request_xml=ksr_xml if ksr_xml is not None else (C.request_to_xml(sc.request()) if sc is not None else None))
        if bad:
            res.violation("the SKR written by a successful run is rejected by the independent validator", case, key="independent:" + key, problems=bad[:6])
        if "ok" in rl and not (bad and bad[0].startswith("not one well-formed")):
            d = R.reader_mismatch(o["file_after"], canon_or_none(o["file_after"]))
            if d:
                res.violation("the SKR written by a successful run reads differently with the repository's loader than with a standard XML parser (the next ceremony will not see what was written)", case, key="reader:" + key, first_difference=d)
        res.bump("written SKR judged (load_skr + ElementTree/dnspython + loader reading == XML reading)")


def fault_must_fail(op: str, kind: str) -> bool:
    """What the PROPERTY demands: "every requested signature came back from the token and verified in software" — so any
    fault at a signing call must end the run unsuccessfully.  An error return elsewhere (session set-up, object search,
    attribute read) with the key ALSO present in another slot / module is not excluded by the statement as long as every
    gate holds and exactly the fault-free SKR results; there the run is judged by that oracle and by the model (which
    propagates the error as the unchanged code does), so a change of behaviour shows up as a model/implementation
    disagreement rather than as a property violation.  (Unreadable public parts are C04's subject.)"""
    return kind in MUST_FAIL_KINDS and op == "sign"


def enumerate_faults(j: Judge, r: Any, work: Path, scen: S.Scenario, ref: dict[str, Any], prev: bytes | None, bl: bytes | None, positions: list[int], case0: dict[str, Any], **extra: Any) -> None:
    res = j.res
    other_key = K.rsa_keys(2048, 65537)[3]
    for pos in positions:
        op = ref["log"][pos]["op"]
        kinds = FAULTS_BY_OP.get(op, ["error"])
        for kind in kinds:
            f: dict[str, Any] = {"kind": kind}
            if kind == "wrong_key":
                f["key"] = other_key
            if kind == "corrupt":
                f["pos"] = r.randrange(256)
                f["bit"] = r.randrange(8)
            scen.plan = {pos: f}
            o = R.run_ceremony(scen, work, answer="Yes", prev_xml=None if prev is None else prev.decode(), **extra)
            scen.plan = {}
            case = dict(case0, stream="fault", prev=prev is not None, position=pos, op=op, kind=kind, module=ref["log"][pos].get("module"), slot=ref["log"][pos].get("slot"))
            must_fail = fault_must_fail(op, kind)
            ok = j.observe(o, case, bl, sc=scen, expect_success=False if must_fail else None, refusal="run succeeded although a token operation of the ceremony returned an error / a bad signature")
            res.bump(f"fault:{op}:{kind}")
            if ok and not must_fail:
                res.bump(("session-setup-error" if op in SESSION_SETUP_OPS else "fault") + f":{op}:{kind}: run completed with the fault-free SKR (key found elsewhere / slot skipped)")


def run(tier: str, driver_ok: bool) -> Result:
    res = Result("C03")
    res.rule = (
        "(a) every token-operation position x every applicable fault kind for 1- and 3-bundle ceremonies (thorough: 9 bundles, two signers), with and "
        "without previous SKR; (a') the same over redundant token set-ups (KSK label in two modules / two slots with the same or with other key material, "
        "key in the later module only; thorough: 2x2 slots, two signers crosswise); (b) gate violations before signing (KSR timing/key/PoP rules, chain "
        "rules, schema/HSM/KSR-file errors), 19 confirmation strings, forced runs; chain gates with the previous SKR named in the configuration / on the "
        "command line / both; (b') identifier collisions in the request (ZSK identifier = label of a signing / published KSK at the first, middle, last "
        "bundle; one identifier for two ZSKs across / within bundles) and publish-/retire-safety violations as the only violation x previous-SKR source "
        "(configuration, command line, both, both reversed); (b'') output path absent / short / 300 kB / earlier SKR / longer earlier SKR x successful, "
        "declined, faulted, refused-after-signing runs; schema slots listed out of order; (c) exit statuses via main() with file names from the "
        "configuration and from the command line; (f) file-name faults: previous SKR / KSR / output / configuration file x name from the command line / "
        "the configuration x the other source naming nothing / the right file / a stale file x {typo beside the right file, directory, empty file, no "
        "read permission, dangling symlink, path through a file | output: directory, missing directory, path through a file, no write permission} x "
        "ksrsigner() / main(); (h) request id re-used alone / bundle id re-used alone / replayed id x serial of the previous SKR, another, 0, 2^31; "
        "(t) honest ceremony, honest successors (previous SKR = the file just written; configuration / command line / main()), id re-use, declined, "
        "faulted in 4 non-ASCII spellings of KSK labels, ZSK identifiers, request and bundle ids; every written SKR re-loaded (load_skr), judged "
        "independently (ElementTree + dnspython), read alike by the repository's loader and a standard XML parser, and equal byte for byte to the model "
        "writer's UTF-8 text; non-trivial = distinct (ceremony, fault position, kind | gate | answer | output-path content | previous-SKR source | "
        "file-name fault | spelling)"
    )
    r = lib.rng("C03")
    work = R.scratch_dir("C03")
    j = Judge(res, work)
    runs = j.runs
    try:
        shapes = [(1, 1), (3, 2)] if tier == "quick" else [(1, 1), (3, 2), (9, 2)]
        for n, signers in shapes:
            sc = ceremony_scenario(r, n, signers)
            # ---- baseline (fault-free), first without then with a previous SKR ------------------------
            base = R.run_ceremony(sc, work, answer="Yes")
            j.observe(base, {"stream": "honest", "n": n, "prev": False}, None, sc=sc, expect_success=True)
            baseline = base["file_after"] if base["written"] else None
            nx = successor(sc, n)
            base2 = R.run_ceremony(nx, work, answer="Yes", prev_xml=(baseline or b"").decode())
            j.observe(base2, {"stream": "honest", "n": n, "prev": True}, None, sc=nx, expect_success=True)
            baseline2 = base2["file_after"] if base2["written"] else None
            if len(res.samples) < 1:
                res.sample({"ceremony": S.describe(sc), "token_ops": [x["op"] for x in base["log"]][:40], "outcome": base["outcome"]})
            # ---- (a) faults -------------------------------------------------------------------------------
            for label, scen, prev, bl, ref in (("noprev", sc, None, baseline, base), ("prev", nx, baseline, baseline2, base2)):
                if prev is not None and tier == "quick" and n > 1:
                    positions = [i for i, rec in enumerate(ref["log"]) if rec["op"] in FAULTS_BY_OP][:: 3]
                else:
                    positions = list(range(len(ref["log"])))
                enumerate_faults(j, r, work, scen, ref, prev, bl, positions, {"n": n})
            # ---- (a'') the same faults at the SIGNING calls with the validation switches of OTHER checks turned off: "every requested
            # signature … verified in software" is not one of the configurable checks (validate_signatures of the response policy
            # governs the validation of loaded / finished responses, of the request policy the KSR's proof of possession)
            sign_positions = [i for i, rec in enumerate(base["log"]) if rec["op"] == "sign"]
            for tag, extra in (("response-policy", {"response_policy_extra": {"validate_signatures": False}}), ("both-policies", {"response_policy_extra": {"validate_signatures": False}, "rp_extra": {"validate_signatures": False}})):
                ref_off = R.run_ceremony(sc, work, answer="Yes", **extra)
                j.observe(ref_off, {"stream": "honest", "n": n, "prev": False, "validation_switched_off": tag}, None, sc=sc, expect_success=True)
                enumerate_faults(j, r, work, sc, base, None, baseline, sign_positions if tier != "quick" else sign_positions[:2] + sign_positions[-1:], {"n": n, "validation_switched_off": tag}, **extra)
            # ---- (b) confirmation strings ------------------------------------------------------------------
            for ans in CONFIRMATIONS:
                o = R.run_ceremony(sc, work, answer=ans)
                want = ans.strip("\n") == "Yes"  # the documented rule: exactly 'Yes' (newlines aside)
                j.observe(o, {"stream": "confirm", "n": n, "answer": ans}, baseline, sc=sc, expect_no_sign=not want, expect_success=want)
                if o["prompt"].calls != 1:
                    res.violation("confirmation prompt not shown exactly once", {"answer": ans}, key="prompt-count", calls=o["prompt"].calls)
            o = R.run_ceremony(sc, work, answer="no", force=True)
            j.observe(o, {"stream": "confirm", "n": n, "answer": "(forced)"}, baseline, sc=sc, expect_success=True)
            if o["prompt"].calls != 0:
                res.violation("forced run still prompted", {"forced": True}, key="prompt-forced")
            # ---- (b) gates before signing ---------------------------------------------------------------------
            gates: list[tuple[str, dict[str, Any]]] = [
                ("schema-unknown", {"schema_arg": "nosuch"}),
                ("hsm-unknown", {"hsm_arg": "nosuch"}),
                ("bundle-count", {"rp_extra": {"num_bundles": n + 1}}),
                ("domain", {"rp_extra": {"acceptable_domains": ["example."]}}),
                ("keys-per-bundle", {"rp_extra": {"num_keys_per_bundle": [9] * n}}),
                ("rsa-size", {"rp_extra": {"rsa_approved_key_sizes": [2048]}}),
                ("horizon", {"now_us": lib.dt_us(sc.start) - 400 * lib.DAY_US}),
                ("expired", {"now_us": lib.dt_us(sc.start) + 400 * lib.DAY_US}),
                ("interval", {"rp_extra": {"min_bundle_interval": "P11D", "max_bundle_interval": "P12D"}} if n > 1 else {"rp_extra": {"num_bundles": 5}}),
                ("ksr-garbage", {"ksr_xml": "<KSR this is not a KSR"}),
                ("ksr-truncated", {"ksr_xml": C.request_to_xml(sc.request())[:-40]}),
            ]
            # a KSR whose proof of possession is broken (one signature bit)
            xml = C.request_to_xml(sc.request())
            i = xml.index("<SignatureData>") + 40
            bad = xml[:i] + ("A" if xml[i] != "A" else "B") + xml[i + 1 :]
            gates.append(("pop", {"ksr_xml": bad}))
            # everything passes and every signature is made, but the SKR cannot be serialised (the KSR's ZSK policy announces an
            # ECDSA algorithm next to the RSA one, which the operator policy accepts; the writer only knows RSA): the failure comes
            # AFTER the signing stage, so C_Sign operations are expected — but the output path must still be untouched
            from kskm.common.data import AlgorithmDNSSEC, AlgorithmPolicyECDSA

            rq = sc.request()
            rq = rq.replace(zsk_policy=rq.zsk_policy.replace(algorithms=set(rq.zsk_policy.algorithms) | {AlgorithmPolicyECDSA(bits=256, algorithm=AlgorithmDNSSEC.ECDSAP256SHA256)}))
            unserialisable = {"ksr_xml": C.request_to_xml(rq), "rp_extra": {"approved_algorithms": ["RSASHA256", "ECDSAP256SHA256"]}}
            o = R.run_ceremony(sc, work, answer="Yes", **unserialisable)
            j.observe(o, {"stream": "gate", "n": n, "gate": "skr-not-serialisable"}, baseline, sc=sc, expect_success=False)
            if not o["sign_ops"]:
                res.notes.append("skr-not-serialisable gate did not reach the signing stage (generator problem)")
            for gate, kw in gates:
                o = R.run_ceremony(sc, work, answer="Yes", **kw)
                # zero token operations at all for a bad KSR (it is loaded before the HSM is initialised)
                case = {"stream": "gate", "n": n, "gate": gate}
                j.observe(o, case, baseline, sc=sc, expect_no_sign=True, expect_success=False)
                if gate not in ("hsm-unknown",) and o["log"]:
                    res.violation("token operations although the KSR / schema was refused", case, key="gate-token-ops:" + gate, ops=len(o["log"]))
            # ---- (b'') what lies at the output path ------------------------------------------------------------
            if baseline is not None:
                last_sign = max(i for i, rec in enumerate(base["log"]) if rec["op"] == "sign")
                for tag, pre in R.output_files(earlier_skr=baseline2):
                    for what, kw, want in (
                        ("honest", {"answer": "Yes"}, True),
                        ("declined", {"answer": "no"}, False),
                        ("fault", {"answer": "Yes", "_plan": {last_sign: {"kind": "truncate"}}}, False),
                        ("refused-after-signing", dict(unserialisable, answer="Yes"), False),
                    ):
                        kw = dict(kw)
                        sc.plan = kw.pop("_plan", {})
                        o = R.run_ceremony(sc, work, preexisting=pre, **kw)
                        sc.plan = {}
                        case = {"stream": "output-path", "n": n, "gate": f"{what}:{tag}", "bytes_before": None if pre is None else len(pre)}
                        j.observe(o, case, baseline, sc=sc, expect_success=want, expect_no_sign=(what == "declined"))
                        res.bump(f"output-path:{tag}:{what}")
            # chain gates (with previous SKR)
            if baseline is not None:
                prevx = baseline.decode()
                chain: list[tuple[str, S.Scenario, dict[str, Any]]] = []
                replay = successor(sc, n)
                replay.req_id = "req-1"  # same request id as the previous SKR
                chain.append(("replayed-id", replay, {}))
                gap = successor(sc, n)
                gap.start = gap.start + timedelta(days=13)  # beyond the previous last expiration
                chain.append(("gap", gap, {}))
                early = successor(sc, n)
                early.start = early.start - timedelta(days=3)  # overlap above the declared maximum
                chain.append(("too-early", early, {}))
                rekey = successor(sc, n)
                rekey.zsks = [("Z0", K.rsa_keys(1024, 65537)[4], 8), ("Z1", K.rsa_keys(1024, 65537)[5], 8)]
                chain.append(("re-keyed", rekey, {}))
                samebundle = successor(sc, n)
                chain.append(("bundle-id-reuse", samebundle, {"ksr_xml": C.request_to_xml(samebundle.request()).replace('RequestBundle id="req-2-bundle-1"', f'RequestBundle id="req-1-bundle-{n}"', 1)}))
                foreign = successor(sc, n)
                foreign.token_edits = [lambda w: swap_key(w, "Kka", K.rsa_keys(2048, 65537)[4])]
                chain.append(("prev-signer-not-ours", foreign, {}))
                # (h) ONE thing of the previous ceremony re-used, every other header field varied: the request id alone (fresh
                # bundle ids, honest keys, timeline continued), a bundle id alone; serial as in the previous SKR (1), another, 0
                fresh = successor(sc, n)
                fresh_xml = C.request_to_xml(fresh.request())
                for tag, serial in (("serial-of-previous-skr", None), ("other-serial", 2), ("serial-0", 0), ("serial-2^31", 2**31)):
                    chain.append((f"request-id-reused-alone:{tag}", fresh, {"ksr_xml": R.rewrite_header(fresh_xml, id="req-1", serial=serial)}))
                    if serial is not None:
                        chain.append((f"bundle-id-reused-alone:{tag}", fresh, {"ksr_xml": R.rewrite_header(R.rewrite_bundle_id(fresh_xml, n - 1, "req-1-bundle-1"), serial=serial)}))
                        chain.append((f"replayed-id:{tag}", replay, {"ksr_xml": R.rewrite_header(C.request_to_xml(replay.request()), serial=serial)}))
                for gate, scen, kw in chain:
                    for mode in R.PREV_MODES:
                        # "both": the configuration names another (valid) SKR — the one of the NEXT quarter; the command line wins
                        src = {"config": {"prev_xml": prevx}, "cli": {"prev_cli_xml": prevx}, "both": {"prev_cli_xml": prevx, "prev_xml": (baseline2 or baseline).decode()}}[mode]
                        o = R.run_ceremony(scen, work, answer="Yes", **src, **kw)
                        case = {"stream": "gate", "n": n, "gate": "chain:" + gate, "previous_skr_named_in": mode}
                        j.observe(o, case, None, sc=scen, ksr_xml=kw.get("ksr_xml"), expect_no_sign=True, expect_success=False)
                        res.bump("previous-skr-source:" + mode)
                        if "-alone:" in gate or gate.startswith("replayed-id:"):
                            res.bump("header-variation:" + gate.split(":")[0])
                # a forged previous SKR (one signature bit flipped) is refused by load_skr
                jx = prevx.index("<SignatureData>") + 30
                forged = prevx[:jx] + ("A" if prevx[jx] != "A" else "B") + prevx[jx + 1 :]
                for mode in R.PREV_MODES:
                    src = {"config": {"prev_xml": forged}, "cli": {"prev_cli_xml": forged}, "both": {"prev_cli_xml": forged, "prev_xml": prevx}}[mode]
                    o = R.run_ceremony(successor(sc, n), work, answer="Yes", **src)
                    j.observe(o, {"stream": "gate", "n": n, "gate": "chain:forged-prev", "previous_skr_named_in": mode}, None, expect_no_sign=True, expect_success=False)
                    if o["log"]:
                        res.violation("token operations although the previous SKR was refused", {"gate": "forged-prev", "previous_skr_named_in": mode}, key="gate-token-ops:forged-prev")
                # the honest successor, previous SKR named on the command line only / in both places (configuration: the forged file)
                for mode, src in (("cli", {"prev_cli_xml": prevx}), ("both", {"prev_cli_xml": prevx, "prev_xml": forged})):
                    o = R.run_ceremony(nx, work, answer="Yes", **src)
                    j.observe(o, {"stream": "honest", "n": n, "prev": True, "previous_skr_named_in": mode}, baseline2, sc=nx, expect_success=True)
            # ---- (c) exit statuses via main() ----------------------------------------------------------------
            for tag, kw, want in [
                ("success", {"answer": "Yes"}, 0),
                ("success-files-on-command-line", {"answer": "Yes", "files_via": "cli"}, 0),
                ("declined", {"answer": "no"}, 3),
                ("declined-files-on-command-line", {"answer": "no", "files_via": "cli"}, 3),
                ("schema-unknown", {"answer": "Yes", "schema_arg": "nosuch"}, 3),
                ("config-error", {"answer": "Yes", "cfg_mutator": lambda d: dict(d, request_policy=dict(d["request_policy"], num_bundles=0))}, 2),
                ("bad-ksr", {"answer": "Yes", "rp_extra": {"num_bundles": n + 1}}, "nonzero"),
                ("token-fault", {"answer": "Yes", "_plan": True}, "nonzero"),
            ]:
                kw = dict(kw)
                if kw.pop("_plan", False):
                    sc.plan = {len(base["log"]) - 1: {"kind": "corrupt", "pos": 7, "bit": 1}}
                o = R.run_ceremony(sc, work, use_main=True, **kw)
                sc.plan = {}
                case = {"stream": "main", "n": n, "gate": tag}
                j.observe(o, case, baseline, sc=sc)
                ok = (o["exit"] == want) if isinstance(want, int) else (o["exit"] != 0)
                if not ok:
                    res.violation("exit status differs from the documented mapping", case, key="exit-map:" + tag, exit=o["exit"], want=want, outcome=o["outcome"])
            if baseline is not None and baseline2 is not None:
                # main() with a previous SKR: on the command line, in the configuration, both; honest and gapped
                gapm = successor(sc, n)
                gapm.start = gapm.start + timedelta(days=13)
                for mode in R.PREV_MODES:
                    src = {"config": {"prev_xml": baseline.decode()}, "cli": {"prev_cli_xml": baseline.decode()}, "both": {"prev_cli_xml": baseline.decode(), "prev_xml": baseline2.decode()}}[mode]
                    o = R.run_ceremony(nx, work, use_main=True, answer="Yes", **src)
                    case = {"stream": "main", "n": n, "gate": "success-with-previous-skr", "previous_skr_named_in": mode}
                    j.observe(o, case, baseline2, sc=nx, expect_success=True)
                    o = R.run_ceremony(gapm, work, use_main=True, answer="Yes", **src)
                    j.observe(o, {"stream": "main", "n": n, "gate": "chain:gap", "previous_skr_named_in": mode}, None, sc=gapm, expect_success=False, expect_no_sign=True)
        redundant_stream(j, r, work, tier)
        collision_stream(j, r, work, tier)
        safety_stream(j, r, work, tier)
        listing_stream(j, r, work, tier)
        file_fault_stream(j, r, work, tier)
        text_stream(j, r, work, tier)
        # ---- model ---------------------------------------------------------------------------------------------
        if driver_ok:
            compare_with_model(res, runs)
    finally:
        R.cleanup(work)
    return res


def compare_with_model(res: Result, runs: list[dict[str, Any]]) -> None:
    """Every recorded run against the Lean model (`ksrsigner` op), the written bytes against the model's writer, the
    precedence of file names against `pickFile`."""
    with_line = [x for x in runs if "line" in x]
    outs = lib.run_driver([x["line"] for x in with_line], exe=DRIVER)
    to_predict: list[tuple[dict[str, Any], dict[str, Any]]] = []
    for x, m in zip(with_line, outs):
        if "driver_error" in m:
            res.disagreement("ksrsigner: driver error", x["case"], x["outcome"], m)
            continue
        if lib.is_unsupported(m["result"]):
            if x.get("model_may_decline"):
                # two keys under one identifier in a key set: KeysToSign.get depends on set iteration order (Kskm.ktsGet declines)
                res.unsupported += 1
                continue
            # nothing here is outside the modelled domain: the model left the recorded run (replay / oracle miss)
            res.disagreement("ksrsigner: the model could not follow the implementation's run (it expects other token operations / oracle questions)", x["case"], x["outcome"], m["result"], log_difference=C.first_log_difference(x["log"], m["log"]))
            continue
        impl = x["outcome"]
        if "exit" in impl:  # main(): compare exit statuses
            if m["exit"] != x["exit"]:
                res.disagreement("ksrsigner: model exit status != implementation", x["case"], impl, m["result"], exits=[x["exit"], m["exit"]])
        elif not lib.same_outcome(impl, m["result"]):
            res.disagreement("ksrsigner: model result != implementation", x["case"], impl, m["result"])
        d = C.first_log_difference(x["log"], m["log"])
        if d is not None:
            res.disagreement("ksrsigner: model issues different token operations", x["case"], impl, m["result"], log_difference=d)
        writes = [e["write"] for e in m["events"] if isinstance(e, dict)]
        if bool(writes) != bool(x["written"]):
            res.disagreement("ksrsigner: model and implementation disagree on whether an SKR is written", x["case"], impl, m["result"])
        elif writes and S.response_sorted_j(writes[0]) != canon_or_none(x["file_after"]):
            res.disagreement("ksrsigner: model writes a different SKR", x["case"], impl, m["result"])
        elif writes:
            # the WHOLE file as an independent XML parser reads it, bundles in document order (not a prefix of the file)
            try:
                whole = S.response_sorted_j(R.skr_document(x["file_after"]))
            except Exception as exc:  # noqa: BLE001
                whole = {"unreadable": f"{type(exc).__name__}: {exc}"[:200]}
            if S.response_sorted_j(writes[0]) != whole:
                res.disagreement("ksrsigner: the file at the output path is not (exactly) the SKR the model writes", x["case"], impl, m["result"], file=whole if "unreadable" in whole else "differs")
        if ("prompt" in m["events"]) != (x["prompt"].calls > 0):
            res.disagreement("ksrsigner: model and implementation disagree on prompting", x["case"], impl, m["result"])
        if writes and x["written"]:
            to_predict.append((x, writes[0]))
    # the bytes at the output path against the model's WRITER (C11's skrToXml) applied to the SKR the ceremony model writes
    R.compare_written_bytes(res, [(x["case"], x["outcome"], w, x["file_after"]) for x, w in to_predict])
    # the precedence of file names the harness applied (and told the model the outcome of) against the model's pickFile
    pairs = sorted({(nm[a], nm[b]) for x in runs if (nm := x.get("names")) for a, b in (("prev_cli", "prev_cfg"), ("ksr_cli", "ksr_cfg"), ("out_cli", "out_cfg"))}, key=str)
    for (cli, cfg), m in zip(pairs, lib.run_driver([{"op": "pick_file", "cli": cli, "cfg": cfg} for cli, cfg in pairs], exe=DRIVER)):
        res.bump("pick_file: harness precedence == model pickFile")
        if m != R.picked(cli, cfg):
            res.disagreement("pickFile: the model picks another file name than the documented precedence", {"cli": cli, "cfg": cfg}, R.picked(cli, cfg), m)


def redundant_stream(j: Judge, r: Any, work: Path, tier: str) -> None:
    """(a') fault enumeration over token set-ups in which a KSK label is found in more than one module / slot."""
    res = j.res
    kinds = REDUNDANT_QUICK if tier == "quick" else REDUNDANT_THOROUGH
    for kind in kinds:
        n = 2 if tier == "quick" else 3
        sc = redundant_scenario(kind, n)
        case0 = {"n": n, "tokens": kind}
        base = R.run_ceremony(sc, work, answer="Yes")
        j.observe(base, dict(case0, stream="honest", prev=False), None, sc=sc, expect_success=True)
        if not base["written"]:
            continue
        baseline = base["file_after"]
        nx = successor(sc, n)
        base2 = R.run_ceremony(nx, work, answer="Yes", prev_xml=baseline.decode())
        j.observe(base2, dict(case0, stream="honest", prev=True), None, sc=nx, expect_success=True)
        res.bump("redundant-tokens:" + kind)
        if len(res.samples) < 3:
            res.sample({"redundant_token_setup": kind, "modules": sc.modules, "token_ops": [f"{x['op']}@{x.get('module')}/{x.get('slot', '')}" for x in base["log"]][:48]})
        enumerate_faults(j, r, work, sc, base, None, baseline, list(range(len(base["log"]))), case0)
        if base2["written"]:
            # with a previous SKR (its signers are looked up on the token as well): every position in thorough, every other
            # search / read / signing position in quick
            positions = list(range(len(base2["log"])))
            if tier == "quick":
                positions = [i for i in positions if base2["log"][i]["op"] in FAULTS_BY_OP][::2]
            enumerate_faults(j, r, work, nx, base2, baseline, base2["file_after"], positions, case0)


def collision_stream(j: Judge, r: Any, work: Path, tier: str) -> None:
    """(b') identifier collisions in the request: only the re-validation of the RESPONSE bundle sees them (the software check of
    each token signature compares octets with the token's public key and is content)."""
    res = j.res
    n = 3
    z = K.rsa_keys(1024, 65537)
    schema = lambda slot: {"publish": ["ka", "kb"], "sign": ["ka"], "revoke": []}  # noqa: E731  (ka signs, kb is published only)
    where = {"first": 0, "middle": 1, "last": 2}
    for label, role in (("Kka", "signing-ksk"), ("Kkb", "published-ksk")):
        for pos_name, p in where.items():
            layout = [[0, 1], [1], [1]]
            layout[p] = layout[p] + [2]
            sc = two_ksk_scenario(n, schema, layout=layout, zsks=[("Z0", z[0], 8), ("Z1", z[1], 8), (label, z[2], 8)])
            o = R.run_ceremony(sc, work, answer="Yes")
            case = {"stream": "gate", "n": n, "gate": f"collision:zsk-identifier-is-label-of-{role}:{pos_name}-bundle"}
            # two different keys under one identifier in the response bundle: no relying party can attribute the signature
            j.observe(o, case, None, sc=sc, expect_success=False, model_may_decline=(role == "signing-ksk"))
            res.bump(f"collision:{role}:{pos_name}")
    # the colliding name belongs to a KSK the schema does not use at all: nothing collides, the ceremony is an ordinary one
    sc = two_ksk_scenario(n, lambda slot: {"publish": ["ka"], "sign": ["ka"], "revoke": []}, layout=[[0, 1, 2], [1], [1]], zsks=[("Z0", z[0], 8), ("Z1", z[1], 8), ("Kkb", z[2], 8)])
    o = R.run_ceremony(sc, work, answer="Yes")
    j.observe(o, {"stream": "gate", "n": n, "gate": "collision:zsk-identifier-is-label-of-unused-ksk"}, None, sc=sc, expect_success=True)
    # one identifier, two different ZSKs: in different bundles (each bundle on its own is unambiguous) …
    for pos_name, p in (("middle", 1), ("last", 2)):
        layout = [[0, 1], [1], [1]]
        layout[p] = layout[p] + [2]
        sc = two_ksk_scenario(n, schema, layout=layout, zsks=[("Z0", z[0], 8), ("Z1", z[1], 8), ("Z0", z[2], 8)])
        o = R.run_ceremony(sc, work, answer="Yes")
        j.observe(o, {"stream": "gate", "n": n, "gate": f"collision:one-identifier-two-zsks-across-bundles:{pos_name}"}, None, sc=sc)
        res.bump("collision:across-bundles:" + ("accepted" if o["written"] else "refused"))
    # … and in ONE bundle: the request itself is ambiguous and must be refused before anything is signed
    for pos_name, p in where.items():
        layout = [[0, 1], [1], [1]]
        layout[p] = sorted(set(layout[p] + [1, 2]))
        sc = two_ksk_scenario(n, schema, layout=layout, zsks=[("Z0", z[0], 8), ("Z1", z[1], 8), ("Z1", z[2], 8)])
        o = R.run_ceremony(sc, work, answer="Yes")
        j.observe(o, {"stream": "gate", "n": n, "gate": f"collision:one-identifier-two-zsks-in-one-bundle:{pos_name}"}, None, sc=sc, expect_success=False, expect_no_sign=True)
        res.bump("collision:within-bundle:" + pos_name)


def safety_stream(j: Judge, r: Any, work: Path, tier: str) -> None:
    """(b') a publish- / retire-safety violation as the ONLY violation x where the previous SKR's name comes from.  The checks
    sit AFTER the signing stage: signing operations are expected, an SKR is not."""
    res = j.res
    n = 2
    only_a = lambda slot: {"publish": ["ka"], "sign": ["ka"], "revoke": []}  # noqa: E731
    a_signs_b_published = lambda slot: {"publish": ["ka", "kb"], "sign": ["ka"], "revoke": []}  # noqa: E731
    both_sign = lambda slot: {"publish": ["ka", "kb"], "sign": ["ka", "kb"], "revoke": []}  # noqa: E731
    only_b = lambda slot: {"publish": ["kb"], "sign": ["kb"], "revoke": []}  # noqa: E731
    prevs: dict[str, bytes] = {}
    for name, schema in (("only-a", only_a), ("a-signs-b-published", a_signs_b_published), ("only-b", only_b)):
        sc = two_ksk_scenario(n, schema)
        o = R.run_ceremony(sc, work, answer="Yes")
        j.observe(o, {"stream": "honest", "n": n, "schema": name, "prev": False}, None, sc=sc, expect_success=True)
        if not o["written"]:
            return
        prevs[name] = o["file_after"]
    # (gate, schema of the new ceremony, previous SKR under which it is violated, previous SKR under which nothing is violated, extra)
    gates = [
        ("publish-safety:signer-not-pre-published", both_sign, "only-a", "a-signs-b-published", {}),
        ("retire-safety:previous-signer-dropped", only_b, "a-signs-b-published", "only-b", {}),
        ("publish-safety:publish-point-before-previous-last-bundle", only_a, "only-a", None, {"ksk_policy_extra": {"publish_safety": "P10DT1S"}}),
        ("publish-safety:publish-point-on-the-bound", only_a, None, "only-a", {"ksk_policy_extra": {"publish_safety": "P10D"}}),
    ]
    for gate, schema, bad_prev, good_prev, kw in gates:
        sc = successor(two_ksk_scenario(n, schema), n)
        sc.schema = {s: schema(s) for s in range(1, n + 1)}
        runs: list[tuple[str, dict[str, Any], bool]] = []
        if bad_prev is not None:
            b = prevs[bad_prev].decode()
            other = prevs[good_prev].decode() if good_prev else prevs["only-b"].decode()
            runs += [("config", {"prev_xml": b}, False), ("cli", {"prev_cli_xml": b}, False), ("both", {"prev_cli_xml": b, "prev_xml": other}, False)]
        if good_prev is not None:
            g = prevs[good_prev].decode()
            other = prevs[bad_prev].decode() if bad_prev else prevs["only-b"].decode()
            runs += [("config", {"prev_xml": g}, True), ("cli", {"prev_cli_xml": g}, True), ("both", {"prev_cli_xml": g, "prev_xml": other}, True)]
        for mode, src, want in runs:
            for use_main in (False, True) if mode != "cli" or tier != "quick" else (False,):
                o = R.run_ceremony(sc, work, answer="Yes", use_main=use_main, **src, **kw)
                case = {"stream": "main" if use_main else "gate", "n": n, "gate": gate + ("" if not want else ":not-violated"), "previous_skr_named_in": mode}
                j.observe(o, case, None, sc=sc, expect_success=want)
                if not want and not o["sign_ops"]:
                    res.notes.append(f"{gate}: the run stopped before the signing stage (another rule fired first — generator problem)")
                res.bump(f"safety-only:{gate.split(':')[0]}:{mode}:" + ("must-pass" if want else "must-refuse"))
                res.bump("previous-skr-source:" + mode)


def listing_stream(j: Judge, r: Any, work: Path, tier: str) -> None:
    """(b'') the schema's slots are listed out of order in the configuration and differ from each other (kb is revoked in slot 2
    only): bundle i follows the slot NUMBERED i."""
    res = j.res
    n = 3

    def schema(slot: int) -> dict[str, list[str]]:
        if slot == 1:
            return {"publish": ["ka", "kb"], "sign": ["ka"], "revoke": []}
        if slot == 2:
            return {"publish": ["ka"], "sign": ["ka", "kb"], "revoke": ["kb"]}
        return {"publish": ["ka"], "sign": ["ka"], "revoke": []}

    ref = None
    for listing in ([1, 2, 3], [3, 1, 2], [2, 3, 1], [3, 2, 1]):
        for use_main in (False, True):
            sc = two_ksk_scenario(n, schema)
            sc.schema_listing = list(listing)
            o = R.run_ceremony(sc, work, answer="Yes", use_main=use_main)
            case = {"stream": "listing", "n": n, "gate": "slots-listed-" + "-".join(map(str, listing)), "main": use_main}
            j.observe(o, case, ref, sc=sc, expect_success=True)
            if ref is None and o["written"]:
                ref = o["file_after"]  # the order of listing must not show in the SKR at all
            res.bump("schema-listing:" + ("ascending" if listing == sorted(listing) else "out-of-order"))


def file_fault_stream(j: Judge, r: Any, work: Path, tier: str) -> None:
    """(f) names that do not lead to a usable file, for every file the entry point takes x every source of the name x what
    the other source names (see the module docstring)."""
    res = j.res
    n = 2
    q1 = ceremony_scenario(r, n, 1)
    q2 = successor(q1, n)
    q3 = successor(q2, n)
    q3.req_id = "req-3"
    skr: list[bytes] = []
    for q, scen in enumerate((q1, q2, q3)):
        o = R.run_ceremony(scen, work, answer="Yes", prev_xml=skr[-1].decode() if skr else None)
        j.observe(o, {"stream": "honest", "n": n, "quarter": q + 1, "prev": bool(skr)}, None, sc=scen, expect_success=True)
        if not o["written"]:
            return
        skr.append(o["file_after"])
    p1, p2, p3 = (x.decode() for x in skr)
    entry_points = (False, True)

    def go(scen: S.Scenario, case: dict[str, Any], baseline: bytes | None, want: bool | None, *, early: bool, dead: bool = False, model: bool = True, **kw: Any) -> None:
        """want: must succeed / must be refused / None = either the SKR `baseline` or a refusal; early: a refusal precedes the signing
        stage (no private-key operation); dead: the file ASKED FOR is the unusable one (not one token operation)."""
        for use_main in entry_points:
            o = R.run_ceremony(scen, work, answer="Yes", use_main=use_main, **kw)
            c = dict(case, stream="file-name", n=n, main=use_main)
            if not o["fault_effective"]:
                # uid 0 reads and writes whatever the permission bits say: the name is usable after all, nothing to judge
                res.bump(f"file-name:{case['file']}:{case['name_fault']}: NOT JUDGED — this process (uid {os.geteuid()}) may use a file whatever its permission bits say")
                note = f"file-name faults by permission bits (unreadable / unwritable) are not effective for uid {os.geteuid()}: those cases were run but not judged"
                if note not in res.notes:
                    res.notes.append(note)
                continue
            if not model:
                o.pop("line", None)  # the model has no failing write: judged by the property alone
            j.observe(o, c, baseline, sc=scen, expect_success=want, expect_no_sign=early, refusal="run succeeded although a file it was asked to use cannot be used")
            if dead and o["log"]:
                res.violation("token operations although a file the run was asked to use cannot be loaded", c, key="gate-token-ops:file-name:" + case["gate"], ops=len(o["log"]))
            res.bump("file-name:" + case["file"] + ":" + case["name_fault"])
            res.bump("file-name:asked-for-file-is-" + ("unusable: must refuse" if want is False else "usable: must succeed" if want else "usable, configuration names an unusable one: same SKR or bad configuration"))

    # ---- previous SKR (target: the third quarter; right file = SKR 2, stale file = SKR 1) -----------------------------------
    others = (("nothing", None), ("the-right-file", p2), ("a-stale-file", p1))
    for kind in R.FILE_FAULTS_IN:
        for other_tag, other in others:
            # the command line hands over the broken name; it is the one asked for
            kw: dict[str, Any] = {"prev_cli_xml": p2, "file_faults": {"prev_cli": kind}}
            if other is not None:
                kw["prev_xml"] = other
            go(q3, {"gate": f"previous-skr:command-line-{kind}:configuration-names-{other_tag}", "file": "previous-skr", "name_fault": kind}, None, False, early=True, dead=True, **kw)
            # the configuration hands over the broken name; the command line names nothing / the right file / a stale file
            kw = {"prev_xml": p2, "file_faults": {"prev_cfg": kind}}
            if other is not None:
                kw["prev_cli_xml"] = other
            want: bool | None = False if other_tag != "the-right-file" else (None if kind in R.NOT_A_FILE else True)
            go(q3, {"gate": f"previous-skr:configuration-{kind}:command-line-names-{other_tag}", "file": "previous-skr", "name_fault": kind}, skr[2], want, early=want is False, dead=other is None, **kw)
    # an empty string on the command line is no name at all: the configured file is used (the model's pickFile)
    for other_tag, other in others[1:]:
        go(q3, {"gate": f"previous-skr:command-line-empty-string:configuration-names-{other_tag}", "file": "previous-skr", "name_fault": "empty-string"}, skr[2], other_tag == "the-right-file", early=other_tag != "the-right-file", prev_cli_xml=p2, prev_xml=other, file_faults={"prev_cli": "empty-string"})
    # ---- KSR (target: the first quarter; another valid KSR = that of the second quarter) -------------------------------------
    right, another = C.request_to_xml(q1.request()), C.request_to_xml(q2.request())
    for kind in R.FILE_FAULTS_IN:
        for other_tag, kw in (("nothing", {"files_via": "cli-only"}), ("the-right-file", {"files_via": "cli", "cfg_ksr_xml": right}), ("another-ksr", {"files_via": "cli", "cfg_ksr_xml": another})):
            go(q1, {"gate": f"ksr:command-line-{kind}:configuration-names-{other_tag}", "file": "ksr", "name_fault": kind}, None, False, early=True, dead=True, file_faults={"ksr_cli": kind}, **kw)
        go(q1, {"gate": f"ksr:configuration-{kind}:command-line-names-nothing", "file": "ksr", "name_fault": kind}, None, False, early=True, dead=True, file_faults={"ksr_cfg": kind})
        want = None if kind in R.NOT_A_FILE else True
        go(q1, {"gate": f"ksr:configuration-{kind}:command-line-names-the-right-file", "file": "ksr", "name_fault": kind}, skr[0], want, early=False, files_via="cli", file_faults={"ksr_cfg": kind})
    # no KSR named anywhere
    o = R.run_ceremony(q1, work, answer="Yes", files_via="cli-only", file_faults={"ksr_cli": "empty-string"})
    j.observe(o, {"stream": "file-name", "n": n, "gate": "ksr:named-nowhere", "file": "ksr", "name_fault": "empty-string"}, None, sc=q1, expect_success=False, expect_no_sign=True)
    # ---- output path: the failure comes AFTER the signing stage (signing operations are expected), nothing may be left anywhere ----
    for kind in R.FILE_FAULTS_OUT:
        go(q1, {"gate": f"output:configuration-{kind}:command-line-names-nothing", "file": "output", "name_fault": kind}, None, False, early=False, model=False, file_faults={"out_cfg": kind})
        go(q1, {"gate": f"output:command-line-{kind}:configuration-names-nothing", "file": "output", "name_fault": kind}, None, False, early=False, model=False, files_via="cli-only", file_faults={"out_cli": kind})
        go(q1, {"gate": f"output:command-line-{kind}:configuration-names-another-path", "file": "output", "name_fault": kind}, None, False, early=False, model=False, files_via="cli", file_faults={"out_cli": kind})
        # the command line names a usable path: what the configuration names is not used at all
        go(q1, {"gate": f"output:configuration-{kind}:command-line-names-a-usable-path", "file": "output", "name_fault": kind}, skr[0], True, early=False, files_via="cli", file_faults={"out_cfg": kind})
    # ---- the configuration file itself (main() only: ksrsigner() is handed a loaded configuration) ------------------------------
    entry_points = (True,)
    for kind in R.FILE_FAULTS_IN:
        go(q1, {"gate": f"configuration-file:{kind}", "file": "configuration", "name_fault": kind}, None, False, early=True, dead=True, file_faults={"config": kind})


def text_stream(j: Judge, r: Any, work: Path, tier: str) -> None:
    """(t) ceremonies spelled with non-ASCII but legal text in everything that is copied into the SKR."""
    res = j.res
    n = 3 if tier == "quick" else 9
    for name, text in R.TEXT_PROFILES.items():
        sc = R.apply_text(ceremony_scenario(r, n, 2), text)
        case0 = {"n": n, "text": name, "ksk_labels": [k["label"] for k in sc.ksks.values()], "zsk_identifiers": [z[0] for z in sc.zsks], "request_id": sc.req_id}
        base = R.run_ceremony(sc, work, answer="Yes")
        j.observe(base, dict(case0, stream="text", gate="honest", prev=False), None, sc=sc, expect_success=True)
        res.bump("text:" + name)
        if not base["written"]:
            continue
        first = base["file_after"]
        if not any(isinstance(x, dict) and "text" in x for x in res.samples):
            res.sample({"text": name, "ceremony": case0, "bytes_written": len(first), "non_ascii_bytes": sum(1 for b in first if b > 127)}, limit=8)
        nx = successor(sc, n)
        nx.req_id = text.rid("req-2")
        second = None
        # the honest successor: the previous SKR is the file just written, named in the configuration / on the command line / both
        for mode, src, use_main in (("config", {"prev_xml": first.decode()}, False), ("cli", {"prev_cli_xml": first.decode()}, False), ("cli", {"prev_cli_xml": first.decode()}, True), ("config", {"prev_xml": first.decode()}, True)):
            o = R.run_ceremony(nx, work, answer="Yes", use_main=use_main, **src)
            j.observe(o, dict(case0, stream="text", gate="honest-successor", prev=True, previous_skr_named_in=mode, main=use_main, request_id=nx.req_id), second, sc=nx, expect_success=True)
            if o["written"] and second is None:
                second = o["file_after"]
        # … and once more: an SKR written by a ceremony that itself read a non-ASCII previous SKR
        if second is not None:
            nx2 = successor(nx, n)
            nx2.req_id = text.rid("req-3")
            o = R.run_ceremony(nx2, work, answer="Yes", prev_cli_xml=second.decode(), prev_xml=first.decode())
            j.observe(o, dict(case0, stream="text", gate="honest-successor-of-successor", prev=True, previous_skr_named_in="both", request_id=nx2.req_id), None, sc=nx2, expect_success=True)
        # the request id of the previous SKR again (fresh bundle ids, timeline continued): the comparison is on the text itself
        fresh_xml = C.request_to_xml(nx.request())
        for tag, serial in (("serial-of-previous-skr", None), ("other-serial", 2)):
            xml = R.rewrite_header(fresh_xml, id=sc.req_id, serial=serial)
            o = R.run_ceremony(nx, work, answer="Yes", prev_xml=first.decode(), ksr_xml=xml)
            j.observe(o, dict(case0, stream="text", gate="chain:request-id-reused-alone:" + tag, prev=True), None, sc=nx, ksr_xml=xml, expect_success=False, expect_no_sign=True)
        # all-or-nothing does not depend on the spelling: a declined and a faulted run
        o = R.run_ceremony(sc, work, answer="Ja")
        j.observe(o, dict(case0, stream="text", gate="declined"), first, sc=sc, expect_success=False, expect_no_sign=True)
        last_sign = max(i for i, rec in enumerate(base["log"]) if rec["op"] == "sign")
        sc.plan = {last_sign: {"kind": "truncate"}}
        o = R.run_ceremony(sc, work, answer="Yes")
        sc.plan = {}
        j.observe(o, dict(case0, stream="text", gate="fault:last-signature-truncated"), first, sc=sc, expect_success=False)


def canon_or_none(xml_bytes: bytes) -> Any:
    """The written file as the repository's reader sees it; None when it cannot be read back (never equal to a model SKR)."""
    try:
        return R.canon_written(xml_bytes)
    except Exception:  # noqa: BLE001
        return None


def swap_key(world: Any, label: str, tk: K.TestKey) -> None:
    """Replace the objects under `label` by a foreign key with the same label."""
    for m in world.modules.values():
        for s in m.slots:
            for h in [h for h, o in s.objects.items() if o.label == label]:
                del s.objects[h]
            s.add_rsa(label, tk)


def replay(obj: dict[str, Any]) -> Any:
    return {"recorded": obj, "note": "cases are (ceremony shape / token set-up, fault position/kind | gate | answer | output-path content | previous-SKR source); re-run ./check C03 with the same VERIF_SEED"}
