"""Environment independence, the process time zone (helper of corr_C01 / corr_C07 / corr_C14).

The tools' verdicts and octets must depend on the documents only, never on the time zone of the process that runs them.
The sandbox, CI and the unit tests all run in UTC, where every local-time API (`time.mktime`, `datetime.timetuple` of a
naive value, `datetime.fromtimestamp` without tz, `astimezone()` without argument ...) happens to agree with UTC.  The
correspondence modules therefore re-run a deterministic sub-sample of every stream that involves an instant with the process
zone switched (`lib.ProcessTZ`) to each of `lib.non_utc_zones()`.  This module supplies the INSTANTS worth probing in a zone:

  * mid-January and mid-July (one of them lies inside the zone's daylight-saving period, the other outside, whichever
    hemisphere the zone is in; a zone without DST still has a non-zero offset);
  * around every change of the zone's UTC offset in the chosen year (both DST switches): T, T +- 1 s, T +- 30 min, T +- 1 h,
    and the same lattice around T + offset-before / T + offset-after and T - offset-before / T - offset-after -- the instants whose *UTC*
    calendar fields, (mis)read as local wall-clock time, land in the gap or in the repeated hour (and vice versa).

Everything here is integer arithmetic on epoch seconds: `calendar.timegm` (pure arithmetic, zone independent) and libc's
`localtime` consulted UNDER the switched zone -- the same rules `mktime` would apply -- to find the offset changes.  No naive
datetime is ever built.
"""

from __future__ import annotations

import calendar
import contextlib
import time
from functools import lru_cache
from typing import Any, Iterator

import lib

YEARS = (2017, 2024, 2030, 2037)  # RRSIG times are unsigned 32-bit seconds; these are plausible ceremony years


def zone_named(name: str) -> tuple[str, str, int]:
    for z in lib.TZ_ZONES:
        if z[0] == name:
            return z
    raise KeyError(name)


@contextlib.contextmanager
def zone(name: str | None) -> Iterator[None]:
    """`with zone("Europe/Berlin"):` runs the body with the process zone switched; `zone(None)` leaves the process alone."""
    if name is None:
        yield
        return
    with lib.ProcessTZ(*zone_named(name)):
        yield


def _offset(t: int) -> int:
    return int(time.localtime(t).tm_gmtoff)


@lru_cache(maxsize=None)
def offset_changes(name: str, year: int) -> tuple[tuple[int, int, int], ...]:
    """(T, offset before, offset after) for every change of the UTC offset of zone `name` during `year`; T = first second with
    the new offset.  Found by scanning libc's localtime under the switched zone and bisecting to the second."""
    out = []
    with zone(name):
        t0 = calendar.timegm((year, 1, 1, 0, 0, 0))
        t1 = calendar.timegm((year + 1, 1, 1, 0, 0, 0))
        step = 6 * 3600
        a = t0
        while a < t1:
            b = min(a + step, t1)
            if _offset(a) != _offset(b):
                lo, hi = a, b  # offset(lo) == before, offset(hi) == after
                before, after = _offset(lo), _offset(hi)
                while hi - lo > 1:
                    mid = (lo + hi) // 2
                    if _offset(mid) == before:
                        lo = mid
                    else:
                        hi = mid
                out.append((hi, before, after))
            a = b
    return tuple(out)


@lru_cache(maxsize=None)
def instants(name: str, year: int) -> tuple[dict[str, Any], ...]:
    """The probe instants of zone `name` in `year`: {"t": epoch seconds, "label": ..., "offset": UTC offset in force at t,
    "dst": daylight saving time in force at t (libc's tm_isdst under the zone)}."""
    pts: list[tuple[int, str]] = [
        (calendar.timegm((year, 1, 16, 12, 0, 5)), "january"),
        (calendar.timegm((year, 7, 16, 12, 30, 5)), "july"),
        (calendar.timegm((year, 7, 1, 0, 0, 0)), "july-midnight"),
    ]
    for i, (T, before, after) in enumerate(offset_changes(name, year)):
        anchors = [(T, "switch")]
        # UTC fields read as local time (and local fields read as UTC) hit the switch's wall-clock time at T -+ offset
        for off, oname in ((before, "offset-before"), (after, "offset-after")):
            anchors.append((T + off, f"switch+{oname}"))
            anchors.append((T - off, f"switch-{oname}"))
        for base, aname in anchors:
            for d in (-3600, -1800, -1, 0, 1, 1800, 3600):
                pts.append((base + d, f"{aname}#{i}{d:+d}s"))
    out = []
    seen = set()
    with zone(name):
        for t, label in pts:
            if t in seen or not 0 <= t < 2**32:
                continue
            seen.add(t)
            lt = time.localtime(t)
            out.append({"t": t, "label": label, "offset": int(lt.tm_gmtoff), "dst": lt.tm_isdst > 0})
    return tuple(out)


def sample(name: str, year: int, r: Any, n: int) -> list[dict[str, Any]]:
    """A deterministic sub-sample of `instants`: january, july, the four instants T-1h / T+1h of both switches, then `r`'s choice up to n."""
    pts = list(instants(name, year))
    must = [p for p in pts if p["label"] in ("january", "july") or (p["label"].startswith("switch#") and p["label"].endswith(("-3600s", "+3600s", "+0s")))]
    rest = [p for p in pts if p not in must]
    r.shuffle(rest)
    return (must + rest)[: max(n, len(must))]
