"""C17 correspondence: the digest and PGP words shown to the operator are of the bytes actually used.

Streams (each compares the REAL implementation, the Lean model driver and an independent oracle
written here from the property text):

  words     all 512 table entries (every octet at an even and at an odd position) + random octet
            strings of length 0..64 (32 included) + long ones: `pgp_wordlist`, `sha2wordlist`,
            `checksum_bytes2str`, `_format_digest` vs the model (hash passed as oracle) vs an
            independent even/odd rendering over the REFERENCE list parsed from
            lean/KskmProofs/Lemmas/C17Reference.lean; decode-back and pairwise distinctness.
  tool      `kskm.tools.sha2wordlist.words()` in file and stdin mode prints the same hex / words as
            `kskm.common.integrity` for the same bytes (sizes of /repo/testing/sha2wordlist/regression.sh).
  tool-main the tool through its REAL ENTRY POINT `main()` (sys.argv as argparse reads it; in this process, and in a fresh
            interpreter the way the console script starts it) with 0 (stdin), 1, 2, 3.. file names in ONE invocation: the
            same file twice, an empty file, a file that is the concatenation of two others, every order of three files,
            a missing file first / in the middle / last, random lists of 2..6 names.  One block per readable argument in
            argument order, each the digest and words of THAT file's octets (hashlib + reference list) whatever was
            named before it; the same file is shown with one digest over all invocations; a missing file stops the
            tool with an error after correct blocks for the files before it.  Model: the per-file tool once per argument.
  schedule  `load_ksr` / `load_skr` / `request_from_xml_file` over a fake file whose content differs on
            EVERY open, fstat and read (patched `open` / `os` names of the loader modules, with
            counters): one open, one read, logged digest = sha256 of exactly the bytes served on that
            read = `Request.xml_hash`, parsed id = the id inside those bytes; the size gate before
            any read.
  entry     the real `ksrsigner()` run up to its prompt (answer "no"): printed FILENAME / SHA-256 HEX /
            SHA-256 WORDS are those of the bytes parsed while the file changes between operations.
  output    `output_skr_xml`, `output_trustanchor_xml` on the REAL file system (scratch directory inside /verif,
            removed afterwards): to stdout (this is the document D) and to a path that BEFOREHAND does not exist /
            is empty / holds a file 1 octet shorter / equally long / 1 octet longer / an earlier larger document of
            the same kind / 300 kB of filler / the writer's own earlier output of a larger document (rehearsal, then
            the real run).  The path is read back with the plain builtin open: logged digest and words = those of the
            octets REALLY on disk afterwards, and those octets = D (no stale tail); nothing logged or written
            without a file name.  The model (one truncating open, one write of D) is given D, not the file.
  config    `get_config`: logs the digest of a first read, parses a second read of the same descriptor
            (modelled as it is; what is / is not guaranteed is in C17.getConfig_*).
  table     `format_bundles_for_humans` on generated bundles vs the model vs an independent extraction.
  tz        ENVIRONMENT INDEPENDENCE, every run: a sub-sample of table / entry / schedule / output runs again with the
            time zone of the PROCESS switched (lib.ProcessTZ) to UTC, America/New_York, Australia/Lord_Howe,
            Asia/Kolkata, Europe/Berlin; bundle times run through harness/tzenv.lattice() (January / July, turn of the
            year, leap day, +-1 h / 30 min / 1 s around each zone's DST switches of 2025); KSR and SKR files with those
            times in the three lexical forms the loader takes for UTC (`+00:00`, `Z`, no designator) go through
            load_ksr / load_skr; `fmt_timestamp` / `fmt_bundle` (KSR-POLICY log lines); ksrsigner() to its prompt (stdout,
            bundle table and EVERY log record); both writers.  Judged by integer calendar arithmetic on the file's own
            text (ElementTree), compared with the UTC run and with the model (which only sees integers).

impl violates the oracle -> failing input (VIOLATION); impl != model -> broken tie (disagreement).
"""

from __future__ import annotations

import contextlib
import hashlib
import io
import logging
import os
import re
import sys
import tempfile
from datetime import datetime, timedelta, timezone
from pathlib import Path
from typing import Any, Iterator

import lib
from lib import LEAN, REPO, Result, hexs, run_driver, run_impl, same_outcome

DRIVER = "kskm_driver_pkgc"

ASSUMPTIONS = [
    "SHA-256 is not modelled: the hash is a parameter of every theorem; the harness passes hashlib's digests as oracle answers",
    "file-system adversary = content as a function of the operation index (open, fstat, read each consume one tick); "
    "chunked reads that continue at a non-zero position are served from the snapshot taken when the read started",
    "the XML parser is a parameter of the loader theorems (its own correctness is C12/C13); its answers are passed as oracle",
    "get_config reads its file twice through one descriptor; robustness against replacement is claimed (and proved) for KSR/SKR only",
    "the loaders return bundles in the order (expiration, inception, id) (ksr/skr parse_utils); the file reader of stream 'tz' orders the file's bundles the same way on integers",
    "the process time zone is switched with TZ + tzset (lib.ProcessTZ, which verifies that localtime follows); zones and DST switch instants from the system tz database, cross-checked against the published 2025 rules in harness/tzenv.py",
]
TRUSTED = [
    "hashlib.sha256 as the hash oracle; the reference PGP word list in lean/KskmProofs/Lemmas/C17Reference.lean (read against the published table)",
]

MAX = 1024 * 1024


# --------------------------------------------------------------------------------------
# independent oracle: the published list and the even/odd rendering
# --------------------------------------------------------------------------------------


def reference_table() -> list[tuple[str, str]]:
    text = (LEAN / "KskmProofs" / "Lemmas" / "C17Reference.lean").read_text()
    body = text.split("def pgpWordListReference", 1)[1].split("]", 1)[0]
    rows = re.findall(r'\("([^"]+)",\s*"([^"]+)"\)', body)
    assert len(rows) == 256, len(rows)
    return [(a, b) for a, b in rows]


def ref_words(ref: list[tuple[str, str]], data: bytes) -> list[str]:
    """position counts from 0: even positions -> first column, odd positions -> second column"""
    return [ref[b][i % 2] for i, b in enumerate(data)]


def ref_decode(ref: list[tuple[str, str]], words: list[str]) -> bytes | None:
    out = bytearray()
    for i, w in enumerate(words):
        col = [r[i % 2] for r in ref]
        if w not in col:
            return None
        out.append(col.index(w))
    return bytes(out)


def ref_hex(b: bytes) -> str:
    return "".join("%02x" % x for x in b)


# --------------------------------------------------------------------------------------
# log capture (lib.py disables logging globally)
# --------------------------------------------------------------------------------------


class _Collect(logging.Handler):
    def __init__(self) -> None:
        super().__init__(level=logging.DEBUG)
        self.records: list[logging.LogRecord] = []

    def emit(self, record: logging.LogRecord) -> None:
        self.records.append(record)


@contextlib.contextmanager
def capture_logs(*names: str) -> Iterator[_Collect]:
    h = _Collect()
    saved = []
    prev_disable = logging.root.manager.disable
    logging.disable(logging.NOTSET)
    null = logging.NullHandler()
    logging.root.addHandler(null)  # keeps records of other loggers away from logging.lastResort (stderr)
    for n in names:
        lg = logging.getLogger(n)
        saved.append((lg, lg.level, lg.propagate))
        lg.setLevel(logging.DEBUG)
        lg.propagate = False
        lg.addHandler(h)
    try:
        yield h
    finally:
        for lg, lvl, prop in saved:
            lg.removeHandler(h)
            lg.setLevel(lvl)
            lg.propagate = prop
        logging.root.removeHandler(null)
        logging.disable(prev_disable)


DIGEST_RE = re.compile(r"SHA-256 ([0-9a-f]+) WORDS ((?:[A-Za-z]+ ?)*)")


def shown_digests(h: _Collect) -> list[tuple[str, list[str]]]:
    out = []
    for r in h.records:
        try:
            msg = r.getMessage()
        except Exception:  # noqa: BLE001
            continue
        for m in DIGEST_RE.finditer(msg):
            out.append((m.group(1), m.group(2).split()))
    return out


# --------------------------------------------------------------------------------------
# the adversarial file: content is a function of the operation index
# --------------------------------------------------------------------------------------


class World:
    """Every open / fstat / read-from-position-0 consumes one tick and observes contents[tick]."""

    def __init__(self, path: str, contents: list[bytes]) -> None:
        self.path = str(path)
        self.contents = contents
        self.tick = 0
        self.ops: list[tuple[Any, ...]] = []
        self.fds: dict[int, "FakeFile"] = {}
        self.next_fd = 1000

    def now(self) -> bytes:
        t = self.tick
        self.tick += 1
        return self.contents[min(t, len(self.contents) - 1)]

    def fake_open(self, file: Any, mode: str = "r", *a: Any, **kw: Any) -> Any:
        if str(file) != self.path:
            return open(file, mode, *a, **kw)
        if "w" in mode or "a" in mode or "+" in mode:
            self.ops.append(("openWrite", self.tick))
            raise PermissionError("verification world: the watched file is read-only")
        t = self.tick
        self.now()
        self.ops.append(("open", t, mode))
        f = FakeFile(self, binary="b" in mode)
        self.fds[f.fd] = f
        return f

    class _Stat:
        def __init__(self, size: int) -> None:
            self.st_size = size

    def fake_fstat(self, fd: int) -> Any:
        if fd not in self.fds:
            return os.fstat(fd)
        t = self.tick
        size = len(self.now())
        self.ops.append(("fstat", t, size))
        return World._Stat(size)

    def fake_os(self) -> Any:
        world = self

        class _Os:
            def __getattr__(self, name: str) -> Any:
                return getattr(os, name)

            @staticmethod
            def fstat(fd: int) -> Any:
                return world.fake_fstat(fd)

            @staticmethod
            def stat(p: Any, *a: Any, **kw: Any) -> Any:
                if str(p) == world.path:
                    t = world.tick
                    size = len(world.now())
                    world.ops.append(("stat", t, size))
                    return World._Stat(size)
                return os.stat(p, *a, **kw)

        return _Os()

    # summaries
    def opens(self) -> int:
        return sum(1 for o in self.ops if o[0] == "open")

    def reads(self) -> list[tuple[int, bytes]]:
        """(tick, bytes served) per logical read"""
        return [(o[1], o[2]) for o in self.ops if o[0] == "read"]


class FakeFile:
    def __init__(self, world: World, binary: bool) -> None:
        self.world = world
        self.binary = binary
        self.fd = world.next_fd
        world.next_fd += 1
        self.pos = 0
        self.snapshot: bytes | None = None
        self.served = bytearray()
        self.closed = False

    def __enter__(self) -> "FakeFile":
        return self

    def __exit__(self, *a: Any) -> None:
        self.close()

    def close(self) -> None:
        self.closed = True

    def fileno(self) -> int:
        return self.fd

    def readable(self) -> bool:
        return True

    def seek(self, pos: int, whence: int = 0) -> int:
        assert whence == 0
        self.pos = pos
        self.world.ops.append(("seek", pos))
        return pos

    def tell(self) -> int:
        return self.pos

    def read(self, n: int | None = -1) -> Any:
        if self.pos == 0 or self.snapshot is None:
            t = self.world.tick
            self.snapshot = self.world.now()
            self._entry: list[Any] = ["read", t, b""]
            self.world.ops.append(self._entry)  # type: ignore[arg-type]
            self.pos = 0
        if n is None or n < 0:
            chunk = self.snapshot[self.pos :]
        else:
            chunk = self.snapshot[self.pos : self.pos + n]
        self.pos += len(chunk)
        self._entry[2] = self._entry[2] + chunk
        return chunk if self.binary else chunk.decode()


@contextlib.contextmanager
def patched_module(mod: Any, world: World) -> Iterator[None]:
    """Replace the names `open` and `os` AS SEEN BY one repo module (nothing else is affected)."""
    had_open = "open" in mod.__dict__
    old_open = mod.__dict__.get("open")
    had_os = "os" in mod.__dict__
    old_os = mod.__dict__.get("os")
    mod.open = world.fake_open
    if had_os:
        mod.os = world.fake_os()
    try:
        yield
    finally:
        if had_open:
            mod.open = old_open
        else:
            del mod.open
        if had_os:
            mod.os = old_os


# --------------------------------------------------------------------------------------
# documents
# --------------------------------------------------------------------------------------

KSR_FILE = REPO / "src/kskm/ksr/tests/data/ksr-root-2018-q1-0-d_to_e.xml"
SKR_FILE = REPO / "src/kskm/skr/tests/data/skr-root-2018-q1-0-d_to_e.xml"
ID_RE = re.compile(rb'(<KSR\b[^>]*?\bid=")([^"]*)(")')


def with_id(xml: bytes, ident: str) -> bytes:
    out, n = ID_RE.subn(lambda m: m.group(1) + ident.encode() + m.group(3), xml, count=1)
    assert n == 1
    return out


def doc_id(xml: bytes) -> str | None:
    m = ID_RE.search(xml)
    return m.group(2).decode() if m else None


def trivial_request_policy() -> Any:
    from kskm.common.config_misc import RequestPolicy

    return RequestPolicy(
        num_bundles=9,
        validate_signatures=False,
        keys_match_zsk_policy=False,
        check_cycle_length=False,
        check_bundle_overlap=False,
        signature_algorithms_match_zsk_policy=False,
        signature_validity_match_zsk_policy=False,
        check_keys_match_ksk_operator_policy=False,
        signature_check_expire_horizon=False,
        check_bundle_intervals=False,
        enable_unsupported_ecdsa=True,
        enable_unsupported_edwards_dsa=True,
    )


def sha(b: bytes) -> bytes:
    return hashlib.sha256(b).digest()


# --------------------------------------------------------------------------------------
# streams
# --------------------------------------------------------------------------------------


def stream_words(res: Result, tier: str, driver_ok: bool, ref: list[tuple[str, str]]) -> None:
    from kskm.common import integrity
    from kskm.common.wordlist import WORDS, pgp_wordlist

    r = lib.rng("C17:words")
    inputs: list[tuple[str, bytes]] = []
    for b in range(256):
        inputs.append((f"even:{b}", bytes([b])))
        inputs.append((f"odd:{b}", bytes([0xA5, b])))
    for ln in range(0, 65):
        for k in range(2 if tier == "quick" else 12):
            inputs.append((f"rand:{ln}:{k}", r.randbytes(ln)))
    for ln in (31, 32, 33, 48, 64, 65, 127, 128, 255, 256, 1000):
        inputs.append((f"long:{ln}", r.randbytes(ln)))
        inputs.append((f"same:{ln}", bytes([r.randrange(256)]) * ln))
    inputs.append(("all-bytes", bytes(range(256))))
    inputs.append(("all-bytes-shifted", b"\x00" + bytes(range(256))))

    # table-level facts on the implementation's own table (exhaustive)
    ev = [a for a, _ in WORDS]
    od = [b for _, b in WORDS]
    if len(WORDS) != 256:
        res.violation("word table does not have 256 rows", {"rows": len(WORDS)}, key="table-rows")
    for name, colw in (("even", ev), ("odd", od)):
        seen: dict[str, int] = {}
        for i, w in enumerate(colw):
            if w in seen:
                a, b = seen[w], i
                pre = b"" if name == "even" else b"\x00"
                res.violation(
                    "two different digests render as the same words",
                    {"column": name, "word": w, "digest_a": hexs(pre + bytes([a])), "digest_b": hexs(pre + bytes([b]))},
                    key="table-duplicate",
                )
            seen[w] = i
    both = set(ev) & set(od)
    if both:
        res.violation("a word occurs in both columns", {"words": sorted(both)}, key="table-overlap")
    res.bump("table:entries-checked", 512)

    cases = []
    lines = []
    for tag, data in inputs:
        impl_words = run_impl(lambda: pgp_wordlist(data), lambda x: list(x))
        msg = data  # also used as a *message* for the hashing helpers
        dg = sha(msg)
        impl_s2w = run_impl(lambda: integrity.sha2wordlist(msg), lambda x: [x[0], list(x[1])])
        impl_cs = run_impl(lambda: integrity.checksum_bytes2str(msg), lambda x: x)
        impl_fd = run_impl(lambda: integrity._format_digest(data), lambda x: x)
        cases.append({"tag": tag, "data": hexs(data), "impl": [impl_words, impl_s2w, impl_cs, impl_fd], "dg": dg})
        lines.append({"op": "pgp_wordlist", "data": hexs(data)})
        lines.append({"op": "sha2wordlist", "message": hexs(msg), "digest": hexs(dg)})
        lines.append({"op": "checksum_bytes2str", "message": hexs(msg), "digest": hexs(dg)})
        lines.append({"op": "format_digest", "digest": hexs(data)})
    model = run_driver(lines, exe=DRIVER) if driver_ok else [None] * len(lines)
    dec_lines = []
    for i, c in enumerate(cases):
        data = bytes.fromhex(c["data"])
        dg = c["dg"]
        impl_words, impl_s2w, impl_cs, impl_fd = c["impl"]
        case = {"stream": "words", "tag": c["tag"], "data": c["data"]}
        res.count(case)
        res.bump("words:" + c["tag"].split(":")[0])
        want_words = ref_words(ref, data)
        want = [
            {"ok": want_words},
            {"ok": [ref_hex(dg), ref_words(ref, dg)]},
            {"ok": f"SHA-256 {ref_hex(dg)} WORDS {' '.join(ref_words(ref, dg))}"},
            {"ok": f"SHA-256 {ref_hex(data)} WORDS {' '.join(want_words)}"},
        ]
        names = ["pgp_wordlist", "sha2wordlist", "checksum_bytes2str", "_format_digest"]
        for k in range(4):
            if c["impl"][k] != want[k]:
                res.violation(
                    f"{names[k]}: rendering differs from the standard even/odd list",
                    case,
                    key=f"words:{names[k]}",
                    impl=c["impl"][k],
                    expected=want[k],
                )
            m = model[4 * i + k]
            if m is None:
                continue
            mm = {"ok": m}
            if mm != c["impl"][k]:
                res.disagreement(f"{names[k]}: model != implementation", case, c["impl"][k], mm)
        # every rendering decodes to the one digest
        if "ok" in impl_words:
            back = ref_decode(ref, impl_words["ok"])
            if back != data:
                res.violation("rendering does not decode to the digest it was made from", case, key="words:decode", decoded=None if back is None else hexs(back))
            dec_lines.append((case, {"op": "unwords", "words": impl_words["ok"]}, c["data"]))
        if len(res.samples) < 2 and c["tag"] in ("rand:32:0", "odd:255"):
            res.sample({"case": case, "impl": impl_words, "model": model[4 * i], "standard": want_words})
    if driver_ok and dec_lines:
        outs = run_driver([x[1] for x in dec_lines], exe=DRIVER)
        for (case, _, want_hex), o in zip(dec_lines, outs):
            if o != want_hex:
                res.disagreement("unwords(pgp_wordlist(d)) != d in the model driver", case, want_hex, o)
    # pairwise distinctness on the sampled renderings (injectivity seen from outside)
    seen_r: dict[tuple[str, ...], str] = {}
    for c in cases:
        w = c["impl"][0].get("ok")
        if w is None:
            continue
        k = tuple(w)
        if k in seen_r and seen_r[k] != c["data"]:
            res.violation("two different digests render as the same words", {"digest_a": seen_r[k], "digest_b": c["data"], "words": w}, key="words:collision")
        seen_r[k] = c["data"]


def stream_tool(res: Result, tier: str, driver_ok: bool, ref: list[tuple[str, str]]) -> None:
    from kskm.common import integrity
    from kskm.tools import sha2wordlist as tool

    r = lib.rng("C17:tool")
    # the stand-alone tool has NO size limit (unlike the KSR/SKR loaders): sizes around the buffer / cap values a "bounded read"
    # would use (64 KiB, the loaders' 1 MiB) are part of every run
    sizes = [0, 1, 31, 32, 33, 128, 256, 1024, 4096, 65535, 65536, 65537, (1 << 20) - 1, 1 << 20, (1 << 20) + 1, (2 << 20) + 3] + ([(8 << 20) + 1] if tier == "thorough" else [])
    lines = []
    cases = []
    with tempfile.TemporaryDirectory(prefix="kskm_c17_") as d:
        datas = [r.randbytes(size) for size in sizes]
        # text-like inputs: a tool that normalises its input (newlines, whitespace, NULs, encodings) shows another digest
        datas += [b"\n", b"hello\n", b"hello\n\n", b"hello\r\n", b"  padded  ", b"\thello", b"\x00" * 32, b"a\x00b\x00", b"\xff\xfe\x00",
                  "d\u00e9j\u00e0 vu\n".encode(), b"\xef\xbb\xbfbom\n", KSR_FILE.read_bytes(), SKR_FILE.read_bytes().rstrip() + b"\n\n"]
        for n, data in enumerate(datas):
            size = len(data)
            for mode in ("file", "stdin"):
                buf = io.StringIO()
                if mode == "file":
                    fn = str(Path(d) / f"random-{n}-{size}.tmp")
                    Path(fn).write_bytes(data)
                    with contextlib.redirect_stdout(buf):
                        out = run_impl(lambda: tool.words(fn))
                else:
                    fn = None

                    class _Stdin:
                        buffer = io.BytesIO(data)

                    old = sys.stdin
                    sys.stdin = _Stdin()  # type: ignore[assignment]
                    try:
                        with contextlib.redirect_stdout(buf):
                            out = run_impl(lambda: tool.words())
                    finally:
                        sys.stdin = old
                printed = buf.getvalue().split("\n")
                if printed and printed[-1] == "":
                    printed = printed[:-1]
                lib_hex, lib_words = integrity.sha2wordlist(data)
                cases.append({"case": {"stream": "tool", "mode": mode, "size": size, "data": hexs(data) if size <= 64 else f"sha256:{hashlib.sha256(data).hexdigest()}"}, "printed": printed, "out": out, "lib": (lib_hex, lib_words), "data": data, "fn": fn})
                lines.append({"op": "sha2wordlist_tool", "message": "", "digest": hexs(sha(data)), "filename": fn})
    model = run_driver(lines, exe=DRIVER) if driver_ok else [None] * len(lines)
    for c, m in zip(cases, model):
        case = c["case"]
        res.count(case)
        res.bump("tool:" + case["mode"])
        data = c["data"]
        want_hex = ref_hex(sha(data))
        want_words = " ".join(ref_words(ref, sha(data)))
        printed = c["printed"]
        hex_lines = [x for x in printed if x.startswith("SHA-256:")]
        word_lines = [x for x in printed if x.startswith("PGP Words:")]
        ok = "ok" in c["out"] and len(hex_lines) == 1 and len(word_lines) == 1 and hex_lines[0].split(":", 1)[1].strip() == want_hex and word_lines[0].split(":", 1)[1].strip() == want_words
        same_as_lib = ok and hex_lines[0].split(":", 1)[1].strip() == c["lib"][0] and word_lines[0].split(":", 1)[1].strip().split() == list(c["lib"][1])
        if not ok:
            res.violation("sha2wordlist tool: printed hex / words are not those of the input bytes", case, key="tool:values", printed=printed, expected=[want_hex, want_words])
        elif not same_as_lib:
            res.violation("sha2wordlist tool and kskm.common.integrity disagree on the same bytes", case, key="tool:vs-lib", printed=printed, lib=c["lib"])
        if m is not None and m != printed:
            res.disagreement("sha2wordlist tool: model lines != printed lines", case, printed, m)
        if len(res.samples) < 3 and case["size"] == 32 and case["mode"] == "stdin":
            res.sample({"case": case, "printed": printed, "model": m})


# ---- the tool through its real entry point: main() with an argument list ----------------------------------------


def _tool_blocks(printed: list[str]) -> list[dict[str, Any]]:
    """The printed lines cut into one block per `Filename:` / `SHA-256:` / `PGP Words:` group, in the order printed."""
    blocks: list[dict[str, Any]] = []
    cur: dict[str, Any] = {}
    for line in printed:
        if line.startswith("Filename:"):
            if cur:
                blocks.append(cur)
            cur = {"filename": line[len("Filename:") :].strip()}
        elif line.startswith("SHA-256:"):
            if "hex" in cur:
                blocks.append(cur)
                cur = {}
            cur["hex"] = line.split(":", 1)[1].strip()
        elif line.startswith("PGP Words:"):
            cur["words"] = line.split(":", 1)[1].strip()
            blocks.append(cur)
            cur = {}
    if cur:
        blocks.append(cur)
    return blocks


def _tool_main_inprocess(argv: list[str], stdin: bytes | None) -> tuple[list[str], Any]:
    """`kskm.tools.sha2wordlist.main()` in this process with sys.argv = [prog] + argv (argparse reads it) and the given stdin."""
    from kskm.tools import sha2wordlist as tool

    class _Stdin:
        buffer = io.BytesIO(stdin or b"")

    buf = io.StringIO()
    old_argv, old_stdin = sys.argv, sys.stdin
    sys.argv = ["kskm-sha2wordlist", *argv]
    sys.stdin = _Stdin()  # type: ignore[assignment]
    try:
        with contextlib.redirect_stdout(buf), contextlib.redirect_stderr(io.StringIO()):
            try:
                out = run_impl(tool.main)
            except SystemExit as exc:  # argparse
                out = {"error": f"SystemExit({exc.code})"}
    finally:
        sys.argv, sys.stdin = old_argv, old_stdin
    printed = buf.getvalue().split("\n")
    if printed and printed[-1] == "":
        printed = printed[:-1]
    return printed, out


def _tool_main_subprocess(argv: list[str], stdin: bytes | None) -> tuple[list[str], Any]:
    """The same in a fresh interpreter, the way the console script `kskm-sha2wordlist` starts it."""
    import subprocess

    code = "import sys; sys.path.insert(0, sys.argv.pop(1)); from kskm.tools.sha2wordlist import main; main()"
    p = subprocess.run([sys.executable, "-c", code, str(REPO / "src"), *argv], input=stdin or b"", capture_output=True, timeout=120)
    printed = p.stdout.decode("utf-8", "replace").split("\n")
    if printed and printed[-1] == "":
        printed = printed[:-1]
    return printed, ({"ok": None} if p.returncode == 0 else {"error": f"exit status {p.returncode}"})


def stream_tool_main(res: Result, tier: str, driver_ok: bool, ref: list[tuple[str, str]]) -> None:
    """The stand-alone tool through `main()` with 0 (stdin), 1, 2, 3.. file names in ONE invocation: the same file twice, an
    empty file, a file that is the concatenation of two others, a missing file first / in the middle / last, every order of
    three files, random lists.  Oracle from the property text: the block printed for a file is the digest and the words of
    THAT file's octets (hashlib + the reference list) — one block per argument, in argument order, whatever else was named
    before or after it in this or in an earlier invocation; nothing is printed for a file that cannot be read and every
    block printed before it is right."""
    r = lib.rng("C17:tool-main")
    quick = tier == "quick"
    with tempfile.TemporaryDirectory(prefix="kskm_c17_main_") as d:
        a, b = r.randbytes(32), r.randbytes(1024)
        pool: dict[str, bytes] = {
            "a.bin": a, "b.bin": b, "empty.bin": b"", "a+b.bin": a + b, "ksr.xml": KSR_FILE.read_bytes(), "skr.xml": SKR_FILE.read_bytes(),
            "hello.txt": b"hello\n", "block.bin": r.randbytes(64), "with space.bin": r.randbytes(55), "big.bin": r.randbytes((1 << 20) + 4097),
        }
        for name, data in pool.items():
            (Path(d) / name).write_bytes(data)
        missing = "missing.xml"
        names = list(pool)
        argvs: list[tuple[str, list[str]]] = [("stdin", [])]
        argvs += [("one-file", [n]) for n in names]
        argvs += [("two-files", x) for x in (["a.bin", "b.bin"], ["b.bin", "a.bin"], ["ksr.xml", "skr.xml"], ["empty.bin", "a.bin"], ["a.bin", "empty.bin"], ["a.bin", "a+b.bin"], ["big.bin", "hello.txt"])]
        argvs += [("same-file-twice", x) for x in (["a.bin", "a.bin"], ["empty.bin", "empty.bin"], ["ksr.xml", "skr.xml", "ksr.xml"], ["a.bin", "b.bin", "a.bin", "b.bin"], ["b.bin", "b.bin", "b.bin"])]
        import itertools

        argvs += [("three-files-every-order", list(p)) for p in itertools.permutations(["a.bin", "b.bin", "empty.bin"])]
        argvs += [("three-files-every-order", list(p)) for p in itertools.permutations(["a.bin", "b.bin", "a+b.bin"])]
        argvs += [("missing-file", x) for x in ([missing], [missing, "a.bin"], ["a.bin", missing, "b.bin"], ["a.bin", "b.bin", missing], ["a.bin", "a.bin", missing, "a.bin"])]
        for _ in range(25 if quick else 300):
            argvs.append(("random-list", [r.choice(names) for _ in range(r.randint(2, 6))]))
        stdin_datas = [b"", a, pool["ksr.xml"]]
        runs: list[dict[str, Any]] = []
        for shape, names_ in argvs:
            for stdin in (stdin_datas if not names_ else [None]):
                argv = [str(Path(d) / n) for n in names_]
                printed, out = _tool_main_inprocess(argv, stdin)
                runs.append({"shape": shape, "names": names_, "argv": argv, "stdin": stdin, "printed": printed, "out": out, "how": "main() in-process"})
        # the console-script way: a fresh interpreter per invocation
        for shape, names_, stdin in [("same-file-twice", ["ksr.xml", "skr.xml", "ksr.xml"], None), ("stdin", [], pool["skr.xml"])] + ([("three-files-every-order", ["a+b.bin", "b.bin", "a.bin"], None), ("missing-file", ["a.bin", missing, "b.bin"], None)] if not quick else []):
            argv = [str(Path(d) / n) for n in names_]
            printed, out = _tool_main_subprocess(argv, stdin)
            runs.append({"shape": shape, "names": names_, "argv": argv, "stdin": stdin, "printed": printed, "out": out, "how": "fresh interpreter"})
        # model: main() is the per-file tool, once per argument in argument order (once on stdin without arguments)
        lines: list[dict[str, Any]] = []
        for run_ in runs:
            run_["first_line"] = len(lines)
            if not run_["names"]:
                lines.append({"op": "sha2wordlist_tool", "message": "", "digest": hexs(sha(run_["stdin"] or b"")), "filename": None})
            for n, fn in zip(run_["names"], run_["argv"]):
                if n == missing:
                    break
                lines.append({"op": "sha2wordlist_tool", "message": "", "digest": hexs(sha(pool[n])), "filename": fn})
            run_["n_lines"] = len(lines) - run_["first_line"]
        model = run_driver(lines, exe=DRIVER) if driver_ok else None
        shown: dict[str, set[tuple[Any, Any]]] = {}
        for run_ in runs:
            names_, printed, out = run_["names"], run_["printed"], run_["out"]
            case = {"stream": "tool-main", "how": run_["how"], "shape": run_["shape"], "files": names_, "stdin": None if run_["stdin"] is None else f"sha256:{hashlib.sha256(run_['stdin']).hexdigest()}"}
            res.count(case)
            res.bump("tool-main:" + run_["shape"])
            res.bump("tool-main:" + run_["how"])
            res.bump(f"tool-main:files:{min(len(names_), 4)}{'+' if len(names_) >= 4 else ''}")
            blocks = _tool_blocks(printed)
            # what the property text says must be on stdout
            n_ok = names_.index(missing) if missing in names_ else len(names_)
            want: list[dict[str, Any]] = []
            if not names_:
                dg = sha(run_["stdin"] or b"")
                want.append({"hex": ref_hex(dg), "words": " ".join(ref_words(ref, dg))})
            for n, fn in list(zip(names_, run_["argv"]))[:n_ok]:
                dg = sha(pool[n])
                want.append({"filename": fn, "hex": ref_hex(dg), "words": " ".join(ref_words(ref, dg))})
            got = [bl for bl in blocks if "hex" in bl or "words" in bl]
            for pos, bl in enumerate(got):
                if "filename" in bl:
                    shown.setdefault(bl["filename"], set()).add((bl.get("hex"), bl.get("words")))
                w = want[pos] if pos < len(want) else None
                if w is None or bl != w:
                    res.violation(
                        "sha2wordlist tool (main): the digest / words printed for a file are not those of that file's octets", case, key=f"tool-main:values:{run_['shape']}",
                        position=pos + 1, file=names_[pos] if pos < len(names_) else None, printed=bl, expected=w, files_named_before=names_[:pos],
                    )
                    break
            else:
                if len(got) != len(want):
                    res.violation("sha2wordlist tool (main): not one result per readable file named", case, key=f"tool-main:count:{run_['shape']}", printed=got, expected=want)
            if missing in names_:
                if "ok" in out:
                    res.violation("sha2wordlist tool (main): a file that does not exist did not stop the tool with an error", case, key="tool-main:missing", out=out, printed=printed)
            elif "ok" not in out:
                res.violation("sha2wordlist tool (main): failed on readable files", case, key=f"tool-main:failed:{run_['shape']}", out=out, printed=printed[-4:])
            # the tie with the model
            if model is not None:
                m_lines = [x for m in model[run_["first_line"] : run_["first_line"] + run_["n_lines"]] for x in m]
                if missing in names_:
                    m_lines.append(f"Filename:   {run_['argv'][n_ok]}")
                if m_lines != printed:
                    res.disagreement("sha2wordlist tool (main): model lines (the per-file tool once per argument) != printed lines", case, printed, m_lines)
            if res.stats.get("tool-main:sampled", 0) < 1 and run_["shape"] == "same-file-twice" and len(names_) == 3:
                res.stats["tool-main:sampled"] = 1
                res.sample({"case": case, "printed": printed}, limit=8)
        # one file, one digest: over all invocations and positions
        for fn, vals in shown.items():
            if len(vals) > 1:
                res.violation("sha2wordlist tool (main): the same file was shown with different digests depending on the other arguments", {"stream": "tool-main", "file": os.path.basename(fn)}, key="tool-main:same-file", shown=sorted(map(list, vals), key=str))


def _loader_case(kind: str, contents: list[bytes], tag: str) -> dict[str, Any]:
    """Run load_ksr / load_skr over the schedule; return everything observable."""
    import kskm.ksr.load as kl
    import kskm.skr.load as sl
    from kskm.common.config_misc import ResponsePolicy

    path = "/verif-world/ksr.xml" if kind == "ksr" else "/verif-world/skr.xml"
    world = World(path, contents)
    mod = kl if kind == "ksr" else sl
    log_contents = tag.startswith("log-contents")
    with capture_logs(mod.__name__) as logs, patched_module(mod, world):
        if kind == "ksr":
            pol = trivial_request_policy()
            out = run_impl(
                lambda: kl.load_ksr(Path(path), pol, raise_original=True, log_contents=log_contents),
                lambda q: {"tag": q.id, "xmlFilename": q.xml_filename, "xmlHash": None if q.xml_hash is None else hexs(q.xml_hash)},
            )
        else:
            rp = ResponsePolicy(num_bundles=9, validate_signatures=False)
            out = run_impl(lambda: sl.load_skr(Path(path), rp, log_contents=log_contents), lambda q: {"tag": q.id})
    content_lines = None
    if log_contents:
        # records of the child logger ("…load.ksr" / "…load.skr"): "<filename> <lineno>: <line>"
        content_lines = [r.getMessage().split(": ", 1)[1] if ": " in r.getMessage() else r.getMessage() for r in logs.records if r.name == f"{mod.__name__}.{kind}"]
    return {"kind": kind, "tag": tag, "world": world, "out": out, "shown": shown_digests(logs), "path": path, "content_lines": content_lines}


def _parse_oracle(kind: str, buf: bytes) -> str:
    """What the real parser makes of a buffer, independently of any file: the id, or '!error'."""
    from kskm.ksr.load import request_from_xml
    from kskm.skr.load import response_from_xml

    try:
        txt = buf.decode()
        obj = request_from_xml(txt) if kind == "ksr" else response_from_xml(txt)
        return obj.id
    except Exception:  # noqa: BLE001
        return "!error"


def octet_variants(doc: bytes) -> list[tuple[str, bytes]]:
    """The same document with other OCTETS around / inside it that the reader tolerates (it starts at `<KSR`): a UTF-8 byte
    order mark, CR LF line ends, leading blank line / comment / declaration, trailing blank lines.  The digest shown is of the
    octets of the FILE, whatever a reader skips."""
    bom = b"\xef\xbb\xbf"
    return [("bom", bom + doc), ("bom-crlf", bom + doc.replace(b"\n", b"\r\n")), ("crlf", doc.replace(b"\n", b"\r\n")), ("leading-newline", b"\n" + doc),
            ("leading-comment", b"<!-- generated -->\n" + doc), ("leading-declaration", b'<?xml version="1.0" encoding="UTF-8"?>\n' + doc), ("trailing-blank-lines", doc + b"\n\n\n")]


def stream_schedule(res: Result, tier: str, driver_ok: bool, ref: list[tuple[str, str]]) -> None:
    r = lib.rng("C17:schedule")
    base = {"ksr": KSR_FILE.read_bytes(), "skr": SKR_FILE.read_bytes()}
    cases: list[dict[str, Any]] = []
    lines: list[dict[str, Any]] = []
    parse_cache: dict[tuple[str, bytes], str] = {}

    def version(kind: str, k: Any) -> bytes:
        return with_id(base[kind], f"version-{k}")

    for kind in ("ksr", "skr"):
        scheds: list[tuple[str, list[bytes]]] = []
        v = [version(kind, i) for i in range(6)]
        scheds.append(("stable", [v[0]]))
        scheds.append(("every-op-differs", [v[0], v[1], v[2], v[3], v[4]]))
        scheds.append(("replaced-after-open", [v[0], v[1], v[1], v[1]]))
        scheds.append(("replaced-after-fstat", [v[0], v[0], v[1], v[1]]))
        scheds.append(("replaced-after-read", [v[0], v[0], v[0], v[1], v[2]]))
        scheds.append(("different-length", [v[0], v[0] + b"\n" * 7, v[2][:-1] + b"\n\n", v[3]]))
        big = v[1] + b" " * (MAX + 1 - len(v[1]))
        exact = v[1] + b" " * (MAX - len(v[1]))
        scheds.append(("oversize-at-fstat", [v[0], big, v[2]]))
        scheds.append(("exactly-max-at-fstat", [v[0], exact, v[2]]))
        scheds.append(("exactly-max-at-read", [v[0], v[0], exact, v[2]]))
        scheds.append(("grown-after-fstat", [v[0], v[0], big, v[2]]))  # the read is capped at MAX octets
        scheds.append(("oversize-only-at-open", [big, v[1], v[2]]))
        scheds.append(("malformed-at-read", [v[0], v[0], b"<KSR id=\"x\"", v[1]]))
        scheds.append(("not-utf8-at-read", [v[0], v[0], b"\xff\xfe" + v[1], v[1]]))
        scheds.append(("empty-at-read", [v[0], v[0], b"", v[1]]))
        scheds.append(("malformed-except-read", [b"garbage", b"x", v[5], b"garbage"]))
        scheds.append(("trailing-whitespace", [v[0], v[0], b"\n \n" + v[1] + b"\n\n  ", v[2]]))
        scheds += [("stable-octets:" + vt, [data]) for vt, data in octet_variants(v[0])]
        scheds.append(("log-contents:every-op-differs", [v[0], v[1], v[2], v[3], v[4]]))
        scheds.append(("log-contents:replaced-after-read", [v[0], v[0], v[0], v[1], v[2]]))
        for k in range(6 if tier == "quick" else 40):
            n = r.randrange(1, 7)
            pool = v + [big, b"", b"<KSR", v[0] + b"\n"]
            scheds.append((f"random:{k}", [r.choice(pool if r.random() < 0.3 else v) for _ in range(n)]))
        for tag, contents in scheds:
            c = _loader_case(kind, contents, tag)
            cases.append(c)
            bufs = {b for b in contents} | {b[:MAX] for b in contents}
            ptab = []
            for b in sorted(bufs):
                if (kind, b) not in parse_cache:
                    parse_cache[(kind, b)] = _parse_oracle(kind, b)
                ptab.append([hexs(b), parse_cache[(kind, b)]])
            lines.append(
                {
                    "op": "load_ksr" if kind == "ksr" else "load_skr",
                    "path": c["path"],
                    "contents": [hexs(b) for b in contents],
                    "hash": [[hexs(b), hexs(sha(b))] for b in sorted(bufs)],
                    "parse": ptab,
                }
            )
    model = run_driver(lines, exe=DRIVER) if driver_ok else [None] * len(lines)
    for c, m in zip(cases, model):
        world: World = c["world"]
        kind = c["kind"]
        case = {"stream": "schedule", "loader": kind, "schedule": c["tag"], "contents_sha256": [hashlib.sha256(b).hexdigest()[:16] + f":{len(b)}" for b in world.contents]}
        res.count(case)
        res.bump(f"schedule:{kind}:" + c["tag"].split(":")[0])
        out = c["out"]
        res.bump(f"schedule:outcome:" + ("loaded" if "ok" in out else "refused"))
        reads = world.reads()
        opens = world.opens()
        shown = c["shown"]
        obs = {"opens": opens, "reads": [(t, len(b)) for t, b in reads], "shown": [s[0] for s in shown], "ops": [tuple(o[:2]) for o in world.ops], "out": out}
        # ---- the property, on what the implementation did
        if opens != 1:
            res.violation(f"load_{kind}: the file was opened {opens} times in one load (digest and parse can come from different files)", case, key=f"schedule:{kind}:opens", observed=obs)
        if len(reads) > 1:
            res.violation(f"load_{kind}: {len(reads)} reads in one load", case, key=f"schedule:{kind}:reads", observed=obs)
        fst = [o for o in world.ops if o[0] == "fstat"]
        if fst and fst[0][2] > MAX:
            if reads or "ok" in out:
                res.violation(f"load_{kind}: over-size file was read / accepted", case, key=f"schedule:{kind}:gate", observed=obs)
        served = reads[0][1] if reads else None
        for hx, words in shown:
            if served is None or hx != ref_hex(sha(served)):
                res.violation(f"load_{kind}: the logged digest is not that of the bytes read", case, key=f"schedule:{kind}:shown", observed=obs, served_sha256=None if served is None else ref_hex(sha(served)))
            elif words != ref_words(ref, sha(served)):
                res.violation(f"load_{kind}: the logged words are not those of the bytes read", case, key=f"schedule:{kind}:shown-words", observed=obs)
        if "ok" in out:
            if served is None:
                res.violation(f"load_{kind}: object returned without a read", case, key=f"schedule:{kind}:noread", observed=obs)
            else:
                if out["ok"]["tag"] != doc_id(served):
                    res.violation(f"load_{kind}: the parsed object is not that of the bytes whose digest was shown", case, key=f"schedule:{kind}:parsed", observed=obs, id_in_bytes_read=doc_id(served))
                if len(shown) != 1:
                    res.violation(f"load_{kind}: {len(shown)} digests logged for one load", case, key=f"schedule:{kind}:shown-count", observed=obs)
                if kind == "ksr":
                    if out["ok"]["xmlHash"] != ref_hex(sha(served)):
                        res.violation("load_ksr: Request.xml_hash is not the hash of the bytes parsed", case, key="schedule:ksr:xml_hash", observed=obs, served_sha256=ref_hex(sha(served)))
                    if out["ok"]["xmlFilename"] != c["path"]:
                        res.violation("load_ksr: Request.xml_filename is not the file loaded", case, key="schedule:ksr:xml_filename", observed=obs)
        if c["content_lines"] is not None and "ok" in out and served is not None:
            # --log-ksr / --log-previous-skr: the contents logged are those of the bytes parsed (checked on the implementation only)
            if c["content_lines"] != served.decode().splitlines():
                res.violation(f"load_{kind}: the file contents logged are not the bytes parsed", case, key=f"schedule:{kind}:log-contents", observed=obs, logged_lines=len(c["content_lines"]))
        # ---- the tie to the model
        if m is not None:
            mres = m["result"]
            same = same_outcome(out, mres)
            if not same and "ok" in out and isinstance(mres, dict) and "ok" in mres:
                same = out["ok"] == mres["ok"]
            ok_counts = m["opens"] == opens and m["reads"] == len(reads) and m["readTicks"] == [t for t, _ in reads] and m["shown"] == [s[0] for s in shown]
            if not (same and ok_counts):
                res.disagreement(f"load_{kind}: model != implementation", case, obs, {k: m[k] for k in ("result", "opens", "reads", "readTicks", "shown")})
        if len(res.samples) < 4 and c["tag"] == "every-op-differs":
            res.sample({"case": case, "observed": obs, "model": None if m is None else {k: m[k] for k in ("result", "opens", "reads", "readTicks", "shown")}})

    # request_from_xml_file directly: hash and parse of the SAME argument
    from kskm.ksr.load import request_from_xml_file

    for k in range(4):
        b = with_id(base["ksr"], f"direct-{k}") + b"\n" * k
        out = run_impl(lambda: request_from_xml_file(Path("some/file.xml"), b), lambda q: (q.id, q.xml_filename, None if q.xml_hash is None else hexs(q.xml_hash)))
        case = {"stream": "schedule", "loader": "request_from_xml_file", "k": k}
        res.count(case)
        if out != {"ok": (f"direct-{k}", "some/file.xml", ref_hex(sha(b)))}:
            res.violation("request_from_xml_file: id / file name / hash are not those of its argument", case, key="schedule:rfxf", observed=out, expected_sha256=ref_hex(sha(b)))


def _entry_config() -> Any:
    from kskm.common.config import KSKMConfig

    return KSKMConfig.from_dict(
        {
            "hsm": {},
            "schemas": {"normal": {i: {"publish": [], "sign": "ksk_current"} for i in range(1, 10)}},
            "keys": {"ksk_current": {"description": "x", "label": "Kx", "key_tag": 1, "algorithm": "RSASHA256", "rsa_size": 2048, "rsa_exponent": 65537, "valid_from": "2010-07-15T00:00:00+00:00"}},
            "request_policy": {"signature_check_expire_horizon": False},
        }
    )


def _entry_run(tag: str, contents: list[bytes], config: Any) -> dict[str, Any]:
    """The real ksrsigner() up to its confirmation prompt (answer "no") over the schedule `contents`; everything observable."""
    import argparse
    import builtins

    import kskm.ksr.load as kl
    from kskm.tools import ksrsigner as ks

    path = "/verif-world/entry-ksr.xml"
    world = World(path, contents)
    args = argparse.Namespace(
        config=None, schema="normal", previous_skr=None, ksr=path, skr=None, log_ksr_contents=False, log_skr_contents=False,
        log_previous_skr_contents=False, force=False, hsm=None, debug=False, syslog=False,
    )
    buf = io.StringIO()
    prompts: list[str] = []

    def fake_input(prompt: str = "") -> str:
        prompts.append(prompt)
        return "no"

    old_input = builtins.input
    builtins.input = fake_input
    try:
        with capture_logs("kskm", "verif.entry") as logs, patched_module(kl, world), contextlib.redirect_stdout(buf):
            out = run_impl(lambda: ks.ksrsigner(logging.getLogger("verif.entry"), args, config), lambda x: x)
    finally:
        builtins.input = old_input
    printed = buf.getvalue().split("\n")
    reads = world.reads()
    served = reads[0][1] if reads else None
    messages = []
    for rec in logs.records:
        try:
            messages.append([rec.name, rec.levelname, rec.getMessage()])
        except Exception:  # noqa: BLE001
            messages.append([rec.name, rec.levelname, "<unformattable>"])
    return {"tag": tag, "world": world, "out": out, "printed": printed, "served": served, "prompts": prompts, "shown": shown_digests(logs), "path": path,
            "table": [r.getMessage() for r in logs.records if r.name == "verif.entry"], "messages": messages}


def _entry_line(c: dict[str, Any]) -> dict[str, Any]:
    return {"op": "ksrsigner_display", "filename": c["path"], "xmlHash": None if c["served"] is None else hexs(sha(c["served"]))}


def _entry_judge(res: Result, ref: list[tuple[str, str]], case: dict[str, Any], c: dict[str, Any], m: Any, keyp: str = "") -> dict[str, Any]:
    """The property on one run of the entry point (+ the tie to the model's display block).  Returns the observation."""
    world = c["world"]
    served = c["served"]
    printed = c["printed"]
    obs = {"out": c["out"], "printed": printed[:8], "opens": world.opens(), "reads": [(t, len(b)) for t, b in world.reads()], "prompts": len(c["prompts"]), "shown": [s[0] for s in c["shown"]]}
    if c["out"] != {"ok": False} or len(c["prompts"]) != 1:
        if "error" in c["out"] and not c["prompts"]:
            # the KSR exists only behind the names the loader uses (one open, one read): an error before the prompt on a
            # loadable KSR means the file was reached for again by another route - not "the bytes actually used"
            res.violation("ksrsigner: a loadable KSR was accessed again outside its single read before the prompt (the run ended in an error)", case, key=keyp + "entry:second-access", observed=obs)
        else:
            res.violation("ksrsigner entry point did not stop at its confirmation prompt as expected (harness expectation)", case, key=keyp + "entry:flow", observed=obs)
        return obs
    hexl = [x for x in printed if x.startswith("SHA-256 HEX:")]
    wordl = [x for x in printed if x.startswith("SHA-256 WORDS:")]
    fnl = [x for x in printed if x.startswith("FILENAME:")]
    want_hex = ref_hex(sha(served)) if served is not None else None
    if world.opens() != 1 or len(world.reads()) != 1:
        res.violation("ksrsigner: the KSR was opened / read more than once before the prompt", case, key=keyp + "entry:reads", observed=obs)
    if len(hexl) != 1 or hexl[0].split(":", 1)[1].strip() != want_hex:
        res.violation("ksrsigner: SHA-256 HEX shown before the prompt is not that of the bytes parsed", case, key=keyp + "entry:hex", observed=obs, served_sha256=want_hex)
    elif len(wordl) != 1 or wordl[0].split(":", 1)[1].split() != ref_words(ref, sha(served)):
        res.violation("ksrsigner: SHA-256 WORDS shown before the prompt are not those of the bytes parsed", case, key=keyp + "entry:words", observed=obs)
    if len(fnl) != 1 or fnl[0].split(":", 1)[1].strip() != c["path"]:
        res.violation("ksrsigner: FILENAME shown is not the file loaded", case, key=keyp + "entry:filename", observed=obs)
    if [s[0] for s in c["shown"]] != [want_hex]:
        res.violation("ksrsigner: the digest logged at load time is not the one shown at the prompt", case, key=keyp + "entry:log-vs-display", observed=obs)
    # the bundle table logged ("Request:" then header + 9 rows) is of the bytes parsed
    tbl = c["table"]
    if served is not None:
        from kskm.ksr.load import request_from_xml

        req = request_from_xml(served.decode())
        want_tbl = ["Request:"] + independent_table(req.bundles)
        if tbl[: len(want_tbl)] != want_tbl:
            res.violation("ksrsigner: the bundle table logged is not that of the bytes parsed", case, key=keyp + "entry:table", observed=tbl[:4], expected=want_tbl[:4])
        # ... and of the file itself, read with a standards XML parser (times as integers: no datetime, no process zone)
        want_file = file_table_times(served)
        got_times = [tuple(x.split()[1:3]) for x in tbl[2 : 2 + len(want_file)]]
        if got_times != want_file:
            bad = next((i for i in range(len(want_file)) if i >= len(got_times) or got_times[i] != want_file[i]), None)
            res.violation(
                "ksrsigner: the inception / expiration shown in the bundle table are not those written in the file parsed", case, key=keyp + "entry:table-times",
                row=None if bad is None else bad + 1, shown=None if bad is None or bad >= len(got_times) else got_times[bad], in_file=None if bad is None else want_file[bad],
            )
    if m is not None:
        start = next((i for i, x in enumerate(printed) if x.startswith("FILENAME:")), None)
        block = printed[start - 1 : start + 4] if start else None
        if block != m:
            res.disagreement("ksrsigner display block: model != printed", case, block, m)
    return obs


def stream_entry(res: Result, tier: str, driver_ok: bool, ref: list[tuple[str, str]]) -> None:
    """The real ksrsigner() up to its confirmation prompt, over a changing file."""
    base = KSR_FILE.read_bytes()
    v = [with_id(base, f"entry-{i}") for i in range(5)]
    config = _entry_config()
    scheds = [("stable", [v[0]]), ("every-op-differs", v), ("replaced-after-read", [v[0], v[0], v[0], v[1], v[2], v[3]]), ("replaced-before-read", [v[0], v[1], v[2], v[2]])]
    scheds += [("stable-octets:" + vt, [data]) for vt, data in octet_variants(v[0])]
    cases = [_entry_run(tag, contents, config) for tag, contents in scheds]
    lines = [_entry_line(c) for c in cases]
    model = run_driver(lines, exe=DRIVER) if driver_ok else [None] * len(lines)
    for c, m in zip(cases, model):
        case = {"stream": "entry", "schedule": c["tag"]}
        res.count(case)
        res.bump("entry:" + c["tag"])
        obs = _entry_judge(res, ref, case, c, m)
        if len(res.samples) < 5 and c["tag"] == "every-op-differs":
            res.sample({"case": case, "observed": obs, "model": m})


# ---- the writers: what is on disk afterwards, whatever was at the path before

FILLER = 300_000
PRE_STATES = ["absent", "empty", "shorter-by-1", "equal-length", "longer-by-1", "earlier-larger-document", "filler-300k", "own-earlier-output"]


def _scratch_dir() -> Path:
    """A directory on the REAL file system inside /verif (.scratch_* is git-ignored); the caller removes it."""
    d = lib.VERIF / f".scratch_c17_{os.getpid()}"
    d.mkdir(parents=True, exist_ok=True)
    return d


def _pre_content(state: str, doc: bytes, larger: bytes | None) -> bytes | None:
    """What the output path holds BEFORE the writer runs (None: the path does not exist / state not applicable)."""
    n = len(doc)
    if state == "empty":
        return b""
    if state == "shorter-by-1":
        return b"S" * (n - 1) if n > 1 else None
    if state == "equal-length":
        return b"E" * n
    if state == "longer-by-1":
        return b"L" * (n + 1)
    if state == "earlier-larger-document":
        return larger if larger is not None and len(larger) > n else None
    if state == "filler-300k":
        return b"#" * max(FILLER, n + 1)
    return None


def _output_objects(tier: str, r: Any) -> tuple[list[tuple[str, Any]], list[tuple[str, Any]]]:
    import tzenv
    from kskm.common.data import AlgorithmDNSSEC
    from kskm.skr.load import response_from_xml
    from kskm.ta.data import DigestDNSSEC, KeyDigest, TrustAnchor

    skrs = []
    for f in [SKR_FILE] + sorted((REPO / "src/kskm/signer/tests/data").glob("skr-*.xml")):
        skrs.append((f.name, response_from_xml(f.read_text())))
    # a short SKR (one bundle of the archived one): the document an earlier, larger rehearsal output is replaced by
    full = skrs[0][1]
    skrs.append(("one-bundle-of-" + skrs[0][0], full.replace(bundles=full.bundles[:1])))
    tas = []
    for k in range(3 if tier == "quick" else 10):
        kds = {
            KeyDigest(
                id=f"K{k}{j}", key_tag=r.randrange(65536), algorithm=AlgorithmDNSSEC.RSASHA256, digest_type=DigestDNSSEC.SHA256,
                digest=r.randbytes(32), valid_from=datetime(2010 + j, 7, 15, tzinfo=timezone.utc),
                valid_until=None if j % 2 else datetime(2030, 1, 1, tzinfo=timezone.utc),
            )
            for j in range(r.randrange(0, 4))
        }
        tas.append((f"ta{k}", TrustAnchor(id=f"id-{k}", source="http://example/", zone=".", key_digests=kds)))
    # a trust anchor with many entries (larger than the others) and one whose validity is written with non-UTC offsets
    lat = tzenv.lattice()
    kds = {
        KeyDigest(id=f"L{j}", key_tag=j, algorithm=AlgorithmDNSSEC.RSASHA256, digest_type=DigestDNSSEC.SHA256, digest=bytes([j]) * 32,
                  valid_from=tzenv.aware(s).astimezone(timezone(timedelta(minutes=(120, -330, 0)[j % 3]))), valid_until=tzenv.aware(s + 86400 * 365) if j % 2 else None)
        for j, (_label, s) in enumerate(lat[:: max(1, len(lat) // 12)])
    }
    tas.append(("ta-lattice", TrustAnchor(id="id-lattice", source="http://example/", zone=".", key_digests=kds)))
    return skrs, tas


def _write_once(what: str, obj: Any, fn: Path | None) -> dict[str, Any]:
    """One call of the real writer; the log records and stdout it produced."""
    import kskm.signer as signer
    from kskm.tools import trustanchor as tat

    buf = io.StringIO()
    lg = logging.getLogger("verif.output")
    with capture_logs("kskm.signer", "verif.output") as logs, contextlib.redirect_stdout(buf):
        if what == "skr":
            out = run_impl(lambda: signer.output_skr_xml(obj, fn))
        else:
            out = run_impl(lambda: tat.output_trustanchor_xml(obj, fn, lg))
    return {"out": out, "shown": shown_digests(logs), "printed": buf.getvalue()}


def _on_disk(fn: Path) -> bytes | None:
    """The bytes REALLY at the path now: plain builtin open of the real file, nothing patched."""
    try:
        with open(fn, "rb") as fd:
            return fd.read()
    except FileNotFoundError:
        return None


def stream_output(res: Result, tier: str, driver_ok: bool, ref: list[tuple[str, str]]) -> None:
    """`output_skr_xml` / `output_trustanchor_xml` on the REAL file system (scratch directory inside /verif).  For every
    document: to stdout (this gives the document D itself) and to a path that beforehand (PRE_STATES) does not exist / is
    empty / holds a file 1 octet shorter / equally long / 1 octet longer / an earlier LARGER document of the same kind /
    300 kB of filler / the writer's own earlier output of a larger document (written by the implementation itself: a
    rehearsal followed by the real run).  Afterwards the path is read back with the plain builtin open:
    the digest and words logged are those of the octets on disk, and those octets are exactly D."""
    import shutil

    r = lib.rng("C17:output")
    skrs, tas = _output_objects(tier, r)
    cases = []
    lines = []
    root = _scratch_dir()
    try:
        n = 0
        for what, objs in (("skr", skrs), ("ta", tas)):
            docs: dict[str, bytes] = {}
            for name, obj in objs:
                # to stdout: the document itself (print() adds the newline)
                n += 1
                sub = root / f"out{n}"
                sub.mkdir()
                w = _write_once(what, obj, None)
                printed = w["printed"]
                doc = printed[:-1].encode() if printed.endswith("\n") else printed.encode()
                docs[name] = doc
                cases.append({"what": what, "name": name, "to_file": False, "pre": "-", "out": w["out"], "files": sorted(p.name for p in sub.iterdir()), "written": None, "shown": w["shown"], "fn": None, "doc": doc, "pre_len": None})
                lines.append({"op": "output_xml", "what": what, "xmlBytes": hexs(doc), "digest": hexs(sha(doc)), "filename": None})
            largest = max(docs.values(), key=len)
            largest_name = max(docs, key=lambda k: len(docs[k]))
            for name, obj in objs:
                doc = docs[name]
                for state in PRE_STATES:
                    n += 1
                    sub = root / f"out{n}"
                    sub.mkdir()
                    fn = sub / f"{name}.out.xml"
                    if state == "own-earlier-output":
                        # history: the implementation itself wrote a larger document to this path before
                        if len(largest) <= len(doc):
                            res.bump(f"output:{what}:pre:{state}:not-applicable")
                            continue
                        _write_once(what, dict(objs)[largest_name], fn)
                        pre = _on_disk(fn)
                    elif state == "absent":
                        pre = None
                    else:
                        pre = _pre_content(state, doc, largest)
                        if pre is None:
                            res.bump(f"output:{what}:pre:{state}:not-applicable")
                            continue
                        with open(fn, "wb") as fd:
                            fd.write(pre)
                    w = _write_once(what, obj, fn)
                    cases.append({"what": what, "name": name, "to_file": True, "pre": state, "out": w["out"], "files": sorted(p.name for p in sub.iterdir()), "written": _on_disk(fn), "shown": w["shown"], "printed": w["printed"], "fn": str(fn), "doc": doc, "pre_len": None if pre is None else len(pre)})
                    lines.append({"op": "output_xml", "what": what, "xmlBytes": hexs(doc), "digest": hexs(sha(doc)), "filename": str(fn)})
    finally:
        shutil.rmtree(root, ignore_errors=True)
    model = run_driver(lines, exe=DRIVER) if driver_ok else [None] * len(lines)
    for c, m in zip(cases, model):
        case = {"stream": "output", "what": c["what"], "doc": c["name"], "to_file": c["to_file"], "path_before": c["pre"], "bytes_before": c["pre_len"], "document_bytes": len(c["doc"])}
        res.count(case)
        res.bump(f"output:{c['what']}:{'file' if c['to_file'] else 'stdout'}")
        if c["to_file"]:
            res.bump(f"output:{c['what']}:pre:{c['pre']}")
        written = c["written"]
        obs = {"out": c["out"], "files": c["files"], "shown": [s[0] for s in c["shown"]], "on_disk_sha256": None if written is None else ref_hex(sha(written)), "on_disk_bytes": None if written is None else len(written),
               "document_sha256": ref_hex(sha(c["doc"]))}
        if "ok" not in c["out"]:
            res.violation("output function failed on a well-formed document (harness expectation)", case, key="output:flow", observed=obs)
            continue
        if c["to_file"]:
            if written is None or len(c["files"]) != 1:
                res.violation("output: expected exactly one file written", case, key="output:files", observed=obs)
            elif [s[0] for s in c["shown"]] != [ref_hex(sha(written))]:
                res.violation("output: the logged digest is not that of the bytes written", case, key=f"output:{c['what']}:digest", observed=obs,
                              on_disk_tail=written[-60:].decode("utf-8", "replace"))
            elif c["shown"][0][1] != ref_words(ref, sha(written)):
                res.violation("output: the logged words are not those of the bytes written", case, key=f"output:{c['what']}:words", observed=obs)
            if written is not None and written != c["doc"]:
                res.violation("output: the file on disk is not the document (the text the same call prints without a file name)", case, key=f"output:{c['what']}:content", observed=obs,
                              on_disk_tail=written[-60:].decode("utf-8", "replace"))
            if c.get("printed"):
                res.violation("output to a file also printed to stdout", case, key="output:both", observed=obs)
        else:
            if c["files"] or c["shown"]:
                res.violation("output without a file name wrote a file or logged a digest", case, key="output:stdout", observed=obs)
        if m is not None:
            # the model: one open-for-write (truncating), one write of the document, the digest of the document logged
            m_written = [(w["path"], w["data"]) for w in m["written"]]
            i_written = [] if written is None else [(c["fn"], hexs(written))]
            if m_written != i_written or m["shown"] != [s[0] and hexs(bytes.fromhex(s[0])) for s in c["shown"]]:
                res.disagreement("output_xml: model != implementation", case, obs, {"written": [(p, hashlib.sha256(bytes.fromhex(x)).hexdigest()) for p, x in m_written], "shown": m["shown"]})
        if len(res.samples) < 6 and c["to_file"] and c["what"] == "ta" and c["pre"] == "filler-300k":
            res.sample({"case": case, "observed": obs})


def stream_config(res: Result, tier: str, driver_ok: bool, ref: list[tuple[str, str]]) -> None:
    import kskm.common.config as cfgmod

    def doc(k: int) -> bytes:
        return f"---\nrequest_policy:\n  num_bundles: {k}\n".encode()

    scheds = [("stable", [doc(3)]), ("every-op-differs", [doc(1), doc(2), doc(3), doc(4)]), ("modified-between-reads", [doc(5), doc(5), doc(6)]), ("replaced-before-first-read", [doc(5), doc(6), doc(6)])]
    cases = []
    lines = []
    for tag, contents in scheds:
        path = "/verif-world/ksrsigner.yaml"
        world = World(path, contents)
        with capture_logs(cfgmod.__name__) as logs, patched_module(cfgmod, world):
            out = run_impl(lambda: cfgmod.get_config(Path(path)), lambda c: {"tag": str(c.request_policy.num_bundles)})
        cases.append({"tag": tag, "world": world, "out": out, "shown": shown_digests(logs)})
        bufs = sorted(set(contents))
        lines.append({"op": "get_config", "path": path, "contents": [hexs(b) for b in contents], "hash": [[hexs(b), hexs(sha(b))] for b in bufs],
                      "parse": [[hexs(b), re.search(rb"num_bundles: (\d+)", b).group(1).decode()] for b in bufs]})
    # no file name: defaults, no file touched
    out0 = run_impl(lambda: cfgmod.get_config(None), lambda c: {"tag": "!default"})
    cases.append({"tag": "no-filename", "world": None, "out": out0, "shown": []})
    lines.append({"op": "get_config", "path": None, "contents": [""], "hash": [], "parse": []})
    model = run_driver(lines, exe=DRIVER) if driver_ok else [None] * len(lines)
    for c, m in zip(cases, model):
        case = {"stream": "config", "schedule": c["tag"]}
        res.count(case)
        res.bump("config:" + c["tag"])
        world = c["world"]
        reads = world.reads() if world else []
        obs = {"out": c["out"], "opens": world.opens() if world else 0, "reads": [(t, len(b)) for t, b in reads], "shown": [s[0] for s in c["shown"]]}
        if world is not None:
            # what IS guaranteed: one open; the digest logged is that of bytes read from that descriptor
            if world.opens() != 1:
                res.violation("get_config: the configuration file was opened more than once", case, key="config:opens", observed=obs)
            if not reads or [s[0] for s in c["shown"]] != [ref_hex(sha(reads[0][1]))]:
                res.violation("get_config: the logged digest is not that of the bytes first read", case, key="config:shown", observed=obs)
            parsed_from = reads[-1][1] if reads else None
            if "ok" in c["out"] and parsed_from is not None:
                if c["out"]["ok"]["tag"] != re.search(rb"num_bundles: (\d+)", parsed_from).group(1).decode():
                    res.violation("get_config: configuration not parsed from the bytes last read", case, key="config:parsed", observed=obs)
                if len(reads) == 2 and reads[0][1] != reads[1][1]:
                    res.bump("config:digest-of-other-bytes-than-parsed (two reads; not claimed by the property)")
        if m is not None:
            same = same_outcome(c["out"], m["result"]) or c["out"] == m["result"]
            if not (same and m["opens"] == obs["opens"] and m["reads"] == len(reads) and m["shown"] == obs["shown"]):
                res.disagreement("get_config: model != implementation", case, obs, {k: m[k] for k in ("result", "opens", "reads", "readTicks", "shown")})
    res.notes.append(
        "get_config reads the configuration twice through one descriptor (read(), seek(0), yaml.safe_load(fd)): with an in-place modification "
        "between the two reads the logged digest is of other bytes than those parsed (exhibited in stream 'config', schedule "
        "'modified-between-reads'; C17.getConfig_not_schedule_robust). The property claims replacement-robustness for KSR and SKR only; "
        "a rename-style replacement does not affect an open descriptor."
    )


# ---- the bundle table


def iso_no_offset(dt: datetime) -> str:
    """isoformat without the UTC offset, written independently of datetime.isoformat"""
    s = "%04d-%02d-%02dT%02d:%02d:%02d" % (dt.year, dt.month, dt.day, dt.hour, dt.minute, dt.second)
    if dt.microsecond:
        s += ".%06d" % dt.microsecond
    return s


def independent_row(num: int, b: Any) -> tuple[str, dict[str, Any]]:
    """From the property text and the layout documented in display.py's docstring."""
    zsk = [str(k.key_tag) for k in b.keys if not (k.flags & 1)]
    ksk = []
    signed_ids = {s.key_identifier for s in b.signatures}
    for k in b.keys:
        if k.flags & 1:
            usage = ("R" if k.flags & 128 else "") + ("S" if k.key_identifier in signed_ids else "P")
            ksk.append(f"{k.key_tag}({k.key_identifier})/{usage}")
    line = "%-2s %-19s %-20s %-13s %s" % (num, iso_no_offset(b.inception), iso_no_offset(b.expiration), ",".join(zsk), ",".join(ksk))
    return line, {"zsk": zsk, "ksk": ksk}


def independent_table(bundles: Any) -> list[str]:
    out = ["%-2s %-19s %-20s %-13s %s" % ("#", "Inception", "Expiration", "ZSK Tags", "KSK(CKA_LABEL)")]
    for n, b in enumerate(bundles, 1):
        out.append(independent_row(n, b)[0])
    return out


def stream_table(res: Result, tier: str, driver_ok: bool, ref: list[tuple[str, str]]) -> None:
    from kskm.common.data import AlgorithmDNSSEC, Key, Signature, TypeDNSSEC
    from kskm.common.display import format_bundles_for_humans
    from kskm.ksr.data import RequestBundle
    from kskm.ksr.load import request_from_xml
    from kskm.skr.data import ResponseBundle
    from kskm.skr.load import response_from_xml

    r = lib.rng("C17:table")

    def mk_key(ident: str, tag: int, flags: int) -> Any:
        return Key.model_construct(key_identifier=ident, key_tag=tag, ttl=172800, flags=flags, protocol=3, algorithm=AlgorithmDNSSEC.RSASHA256, public_key=b"AQAB")

    def mk_sig(ident: str, tag: int) -> Any:
        t = datetime(2020, 1, 1, tzinfo=timezone.utc)
        return Signature(key_identifier=ident, ttl=172800, type_covered=TypeDNSSEC.DNSKEY, algorithm=AlgorithmDNSSEC.RSASHA256, labels=0, original_ttl=172800,
                         signature_expiration=t, signature_inception=t, key_tag=tag, signers_name=".", signature_data=b"AAAA")

    sets: list[tuple[str, list[Any]]] = []
    sets.append(("archived-ksr", list(request_from_xml(KSR_FILE.read_text()).bundles)))
    sets.append(("archived-skr", list(response_from_xml(SKR_FILE.read_text()).bundles)))
    for f in sorted((REPO / "src/kskm/signer/tests/data").glob("skr-*.xml")):
        sets.append((f"archived:{f.name}", list(response_from_xml(f.read_text()).bundles)))
    sets.append(("empty", []))
    flag_pool = [256, 257, 385, 256, 257, 0, 1, 128, 129, 384, 65535, 65534, -1, -2]
    for k in range(30 if tier == "quick" else 300):
        bundles = []
        for n in range(r.randrange(0, 12)):
            keys = []
            for j in range(r.randrange(0, 5)):
                keys.append(mk_key(r.choice(["Kjqmt7v", "Klajeyz", "K(x)", "a,b", "", f"id{j}", "Ж"]) + (str(j) if r.random() < 0.7 else ""), r.choice([0, 1, 5, 19036, 20326, 65535, r.randrange(65536)]), r.choice(flag_pool)))
            sigs = [mk_sig(kk.key_identifier, kk.key_tag) for kk in keys if r.random() < 0.5]
            if r.random() < 0.2:
                sigs.append(mk_sig("unrelated", 7))
            inc = datetime(r.choice([1, 999, 1969, 1970, 2017, 2038, 9999]), r.randrange(1, 13), r.randrange(1, 29), r.randrange(24), r.randrange(60), r.randrange(60), r.choice([0, 0, 1, 999999, r.randrange(10**6)]), tzinfo=timezone.utc)
            try:
                exp = inc + timedelta(days=r.randrange(0, 30), seconds=r.randrange(86400))
            except OverflowError:
                exp = inc
            cls = r.choice([RequestBundle, ResponseBundle])
            kw: dict[str, Any] = {"id": f"b{n}", "inception": inc, "expiration": exp, "keys": set(keys), "signatures": set(sigs)}
            if cls is RequestBundle:
                kw["signers"] = None
            bundles.append(cls.model_construct(**kw))
        sets.append((f"random:{k}", bundles))
    cases = []
    lines = []
    for tag, bundles in sets:
        out = run_impl(lambda: format_bundles_for_humans(bundles), lambda x: list(x))
        cases.append({"tag": tag, "bundles": bundles, "out": out})
        lines.append({"op": "format_bundles", "bundles": [lib.bundle_j(b) for b in bundles]})
    model = run_driver(lines, exe=DRIVER) if driver_ok else [None] * len(lines)
    for c, m in zip(cases, model):
        bundles = c["bundles"]
        case = {"stream": "table", "tag": c["tag"], "bundles": [lib.bundle_j(b) for b in bundles] if len(bundles) <= 3 else f"{len(bundles)} bundles"}
        res.count(case)
        res.bump("table:" + c["tag"].split(":")[0])
        out = c["out"]
        want = independent_table(bundles)
        if out != {"ok": want}:
            lines_out = out.get("ok") or []
            bad = next((i for i in range(max(len(want), len(lines_out))) if i >= len(want) or i >= len(lines_out) or want[i] != lines_out[i]), None)
            res.violation(
                "format_bundles_for_humans: a row does not list the inception / expiration / key tags of exactly the bundle's keys",
                case, key="table:row", row=bad, impl=lines_out[bad] if bad is not None and bad < len(lines_out) else None,
                expected=want[bad] if bad is not None and bad < len(want) else None,
            )
        elif "ok" in out:
            # token-level: the numbers in the tag columns are exactly the keys' tags
            for n, b in enumerate(bundles, 1):
                line = out["ok"][n]
                fields = line.split()  # num, inception, expiration, then the (possibly empty) tag columns
                got = sorted(t.split("(")[0] for f in fields[3:] for t in f.split(",") if t)
                _, cols = independent_row(n, b)
                exp = sorted([*cols["zsk"], *[e.split("(")[0] for e in cols["ksk"]]])
                if all(re.fullmatch(r"[A-Za-z0-9]*", k.key_identifier) for k in b.keys) and got != exp:
                    res.violation("bundle table: the tags shown are not exactly the tags of the bundle's keys", case, key="table:tags", row=n, shown=got, expected=exp)
        if m is not None and {"ok": m["lines"]} != out:
            res.disagreement("format_bundles_for_humans: model != implementation", case, out, m["lines"])
        if len(res.samples) < 7 and c["tag"] == "archived-skr":
            res.sample({"case": c["tag"], "impl": out["ok"][:3] if "ok" in out else out, "model": None if m is None else m["lines"][:3]})


# ---- the file itself, read with a standards XML parser; instants as integers (no datetime object, no process zone)

_STAMP = re.compile(r"^(\d{4})-(\d\d)-(\d\d)T(\d\d):(\d\d):(\d\d)(?:Z|\+00:00)?$")


def file_stamp(text: str) -> int:
    """xsd:dateTime of a KSR/SKR (UTC: `+00:00`, `Z` or no designator, which the loader documents as UTC) -> seconds since the epoch."""
    import tzenv

    m = _STAMP.match(text.strip())
    if not m:
        raise ValueError(f"file reader: timestamp {text!r}")
    return tzenv.ts(*(int(x) for x in m.groups()))


def file_bundles(xml: bytes) -> list[dict[str, Any]]:
    """Request / response bundles of the document in the loader's documented order (expiration, inception, id)."""
    import xml.etree.ElementTree as ET

    root = ET.fromstring(xml)
    out = []
    for b in list(root.iter("RequestBundle")) + list(root.iter("ResponseBundle")):
        keys = [(k.attrib["keyIdentifier"], int(k.attrib["keyTag"]), int(k.findtext("Flags") or "0")) for k in b.findall("Key")]
        signers = {sg.attrib["keyIdentifier"] for sg in b.findall("Signature")}
        out.append({"id": b.attrib["id"], "inception": file_stamp(b.findtext("Inception") or ""), "expiration": file_stamp(b.findtext("Expiration") or ""), "keys": keys, "signers": signers})
    out.sort(key=lambda x: (x["expiration"], x["inception"], x["id"]))
    return out


def file_table_times(xml: bytes) -> list[tuple[str, str]]:
    """(Inception, Expiration) columns the bundle table of this file has to show, row by row."""
    import tzenv

    return [(tzenv.iso_utc(b["inception"]), tzenv.iso_utc(b["expiration"])) for b in file_bundles(xml)]


def file_table_rows(xml: bytes) -> list[dict[str, Any]]:
    """Per row: the two time columns and the MULTISET of tag entries (the order inside a row is a set's iteration order)."""
    import tzenv

    rows = []
    for b in file_bundles(xml):
        entries = []
        for ident, tag, flags in b["keys"]:
            if not flags & 1:
                entries.append(str(tag))
            else:
                entries.append(f"{tag}({ident})/" + ("R" if flags & 128 else "") + ("S" if ident in b["signers"] else "P"))
        rows.append({"inception": tzenv.iso_utc(b["inception"]), "expiration": tzenv.iso_utc(b["expiration"]), "entries": sorted(entries)})
    return rows


def table_row_fields(line: str) -> dict[str, Any]:
    f = line.split()
    return {"inception": f[1], "expiration": f[2], "entries": sorted(t for col in f[3:] for t in col.split(",") if t)}


_TIME_EL = re.compile(rb"(<(Inception|Expiration)>)([^<]*)(</(?:Inception|Expiration)>)")


def restamp(xml: bytes, stamps: list[tuple[int, int]], form: str) -> bytes:
    """The archived document with the i-th bundle's Inception / Expiration replaced by the given instants, written as
    `form`: "+00:00", "Z" or "" (no designator).  Signature times are left alone (the loaders run with signature and
    policy checks off here; what is looked at is which instants are parsed and shown)."""
    import tzenv

    seen = {"Inception": 0, "Expiration": 0}

    def sub(m: re.Match[bytes]) -> bytes:
        which = m.group(2).decode()
        i = seen[which]
        seen[which] += 1
        if i >= len(stamps):
            return m.group(0)
        s = stamps[i][0 if which == "Inception" else 1]
        return m.group(1) + (tzenv.iso_utc(s) + form).encode() + m.group(4)

    return _TIME_EL.sub(sub, xml)


def _tz_documents() -> list[dict[str, Any]]:
    """KSR and SKR files whose bundle times run through tzenv.lattice() (ascending, so that the loader's order is the
    document order), each in the three lexical forms the loader accepts for UTC."""
    import tzenv

    lat = [s for _l, s in tzenv.lattice()]
    docs = []
    for kind, base in (("ksr", KSR_FILE.read_bytes()), ("skr", SKR_FILE.read_bytes())):
        n = len(re.findall(rb"<Inception>", base))
        per_doc = 2 * n
        for d, start in enumerate(range(0, len(lat), per_doc)):
            chunk = lat[start : start + per_doc]
            stamps = [(chunk[i], chunk[i + 1]) for i in range(0, len(chunk) - 1, 2)]
            for form in ("+00:00", "Z", ""):
                xml = with_id(restamp(base, stamps, form), f"tz-{kind}-{d}-{form or 'none'}")
                docs.append({"name": f"{kind}:lattice-{d}:{form or 'no-designator'}", "kind": kind, "xml": xml, "form": {"+00:00": "plus-zero", "Z": "Z", "": "no-designator"}[form]})
    return docs


def _tz_bundle_sets() -> list[tuple[str, list[Any]]]:
    import tzenv
    from kskm.common.data import AlgorithmDNSSEC, Key, Signature, TypeDNSSEC
    from kskm.ksr.data import RequestBundle
    from kskm.ksr.load import request_from_xml
    from kskm.skr.data import ResponseBundle
    from kskm.skr.load import response_from_xml

    def mk_key(ident: str, tag: int, flags: int) -> Any:
        return Key.model_construct(key_identifier=ident, key_tag=tag, ttl=172800, flags=flags, protocol=3, algorithm=AlgorithmDNSSEC.RSASHA256, public_key=b"AQAB")

    def mk_sig(ident: str, tag: int, t: datetime) -> Any:
        return Signature(key_identifier=ident, ttl=172800, type_covered=TypeDNSSEC.DNSKEY, algorithm=AlgorithmDNSSEC.RSASHA256, labels=0, original_ttl=172800,
                         signature_expiration=t, signature_inception=t, key_tag=tag, signers_name=".", signature_data=b"AAAA")

    lat = tzenv.lattice()
    sets: list[tuple[str, list[Any]]] = [
        ("archived-ksr", list(request_from_xml(KSR_FILE.read_text()).bundles)),
        ("archived-skr", list(response_from_xml(SKR_FILE.read_text()).bundles)),
    ]
    bundles = []
    for i, (label, s) in enumerate(lat):
        nxt = lat[(i + 1) % len(lat)][1]
        inc = tzenv.aware(s) + timedelta(microseconds=(0, 0, 0, 1, 999999)[i % 5])
        keys = {mk_key(f"Z{i}", 1000 + i, 256), mk_key("Kjqmt7v", 20326, 257), mk_key("Klajeyz", 19036, 385)}
        cls = RequestBundle if i % 2 else ResponseBundle
        kw: dict[str, Any] = {"id": f"lattice-{label}", "inception": inc, "expiration": tzenv.aware(nxt), "keys": keys, "signatures": {mk_sig("Kjqmt7v", 20326, inc)}}
        if cls is RequestBundle:
            kw["signers"] = None
        bundles.append(cls.model_construct(**kw))
    sets.append(("lattice", bundles))
    return sets


def _tz_observe(ref: list[tuple[str, str]], sets: list[tuple[str, list[Any]]], docs: list[dict[str, Any]], entry_scheds: list[tuple[str, list[bytes]]], config: Any, outputs: list[tuple[str, str, Any]], root: Path, zname: str) -> dict[str, Any]:
    """Everything the stream looks at, produced by the REAL code under the CURRENT process zone."""
    import kskm.ksr.load as kl
    import kskm.skr.load as sl
    import tzenv
    from kskm.common.config_misc import ResponsePolicy
    from kskm.common.display import fmt_bundle, fmt_timestamp, format_bundles_for_humans

    obs: dict[str, Any] = {}
    for name, bundles in sets:
        obs[f"table:{name}"] = run_impl(lambda: format_bundles_for_humans(bundles), lambda x: list(x))
    lat = tzenv.lattice()
    obs["stamps"] = [run_impl(lambda: fmt_timestamp(tzenv.aware(s)), lambda x: x) for _l, s in lat]
    obs["fmt_bundle"] = [run_impl(lambda: fmt_bundle(b), lambda x: x) for b in dict(sets)["lattice"]]
    for tag, contents in entry_scheds:
        obs[f"entry:{tag}"] = _entry_run(tag, contents, config)
    for d in docs:
        kind = d["kind"]
        path = f"/verif-world/tz-{kind}.xml"
        world = World(path, [d["xml"]])
        mod = kl if kind == "ksr" else sl

        def conv(q: Any) -> Any:
            return {"id": q.id, "times": [[lib.dt_us(b.inception), lib.dt_us(b.expiration)] for b in q.bundles], "bundles": [lib.bundle_j(b) for b in q.bundles],
                    "table": list(format_bundles_for_humans(q.bundles))}

        with capture_logs(mod.__name__) as logs, patched_module(mod, world):
            if kind == "ksr":
                out = run_impl(lambda: kl.load_ksr(Path(path), trivial_request_policy(), raise_original=True), conv)
            else:
                out = run_impl(lambda: sl.load_skr(Path(path), ResponsePolicy(num_bundles=9, validate_signatures=False)), conv)
        obs[f"load:{d['name']}"] = {"out": out, "shown": [x[0] for x in shown_digests(logs)]}
    for what, name, obj in outputs:
        sub = root / f"tz-{zname.replace('/', '_')}-{what}-{name}"
        sub.mkdir(parents=True, exist_ok=True)
        fn = sub / "out.xml"
        w = _write_once(what, obj, fn)
        obs[f"output:{what}:{name}"] = {"out": w["out"], "shown": w["shown"], "written": _on_disk(fn)}
    return obs


def stream_tz(res: Result, tier: str, driver_ok: bool, ref: list[tuple[str, str]]) -> None:
    """ENVIRONMENT INDEPENDENCE (every run, both tiers): what is shown to the operator is a function of the bytes parsed,
    not of the time zone of the process.  A sub-sample of the table / entry / schedule / output streams runs with the
    process zone switched (lib.ProcessTZ) to UTC and to each of lib.non_utc_zones(); bundle times run through
    tzenv.lattice() (January / July, turn of the year, +-1 h around every zone's DST switches).  Each observation is judged
    by the independent oracle (integer calendar arithmetic on the file's own text read with ElementTree), compared with
    the UTC run and with the Lean model (which only sees integers)."""
    import shutil

    import tzenv

    sets = _tz_bundle_sets()
    docs = _tz_documents()
    base = KSR_FILE.read_bytes()
    v = [with_id(base, f"tz-entry-{i}") for i in range(5)]
    entry_scheds = [("stable", [v[0]]), ("every-op-differs", v)]
    config = _entry_config()
    skrs, tas = _output_objects("quick", lib.rng("C17:tz:output"))
    outputs = [("skr", skrs[0][0], skrs[0][1]), ("ta", tas[-1][0], tas[-1][1])]
    lat = tzenv.lattice()
    root = _scratch_dir()
    runs: dict[str, dict[str, Any]] = {}
    try:
        for z in tzenv.all_zones():
            with tzenv.zone(z) as zname:
                if not tzenv.local_shift_visible(z):
                    raise RuntimeError(f"process zone {zname} not in effect")
                runs[zname] = _tz_observe(ref, sets, docs, entry_scheds, config, outputs, root, zname)
    finally:
        shutil.rmtree(root, ignore_errors=True)
    utc = runs["UTC"]

    # the model's answers (zone-free by construction), asked once
    lines: list[dict[str, Any]] = []
    idx: dict[str, int] = {}
    for name, bundles in sets:
        idx[f"table:{name}"] = len(lines)
        lines.append({"op": "format_bundles", "bundles": [lib.bundle_j(b) for b in bundles]})
    idx["stamps"] = len(lines)
    lines += [{"op": "iso_utc", "us": s * 10**6} for _l, s in lat]
    for tag, _c in entry_scheds:
        idx[f"entry:{tag}"] = len(lines)
        lines.append(_entry_line(utc[f"entry:{tag}"]))
    for d in docs:
        o = utc[f"load:{d['name']}"]["out"]
        if "ok" in o:
            idx[f"load:{d['name']}"] = len(lines)
            lines.append({"op": "format_bundles", "bundles": o["ok"]["bundles"]})
    for what, name, _obj in outputs:
        w = utc[f"output:{what}:{name}"]
        idx[f"output:{what}:{name}"] = len(lines)
        lines.append({"op": "output_xml", "what": what, "xmlBytes": hexs(w["written"] or b""), "digest": hexs(sha(w["written"] or b"")), "filename": "out.xml"})
    model = run_driver(lines, exe=DRIVER) if driver_ok else None

    def mdl(item: str, k: int = 0) -> Any:
        return None if model is None or item not in idx else model[idx[item] + k]

    def differs(case: dict[str, Any], item: str, a: Any, b: Any) -> None:
        if a != b:
            res.violation("what is shown to the operator depends on the time zone of the process (same input, run under UTC and under the zone)", case, key=f"tz:{item.split(':')[0]}:differs-from-utc",
                          first_difference=tzenv.first_difference(a, b))

    for zname, run_ in runs.items():
        res.bump(f"tz:zone:{zname}")
        # ---- tables of bundle objects
        for name, bundles in sets:
            item = f"table:{name}"
            case = {"stream": "tz", "zone": zname, "item": item, "bundles": len(bundles)}
            res.count(case)
            res.bump("tz:table")
            out = run_[item]
            want = independent_table(bundles)
            if out != {"ok": want}:
                got = out.get("ok") or []
                bad = next((i for i in range(max(len(want), len(got))) if i >= len(want) or i >= len(got) or want[i] != got[i]), None)
                res.violation("format_bundles_for_humans: a row does not list the inception / expiration / key tags of exactly the bundle's keys", case, key="tz:table:row", row=bad,
                              impl=got[bad] if bad is not None and bad < len(got) else None, expected=want[bad] if bad is not None and bad < len(want) else None,
                              bundle=None if bad in (None, 0) or bad > len(bundles) else lib.bundle_j(bundles[bad - 1]))
            differs(case, item, utc[item], out)
            m = mdl(item)
            if m is not None and {"ok": m["lines"]} != out:
                res.disagreement("format_bundles_for_humans: model != implementation", case, out, m["lines"])
        # ---- single time stamps (KSR-POLICY messages) and the bundle summary of the overlap messages
        for k, (label, s) in enumerate(lat):
            case = {"stream": "tz", "zone": zname, "item": "stamp", "instant": label, "seconds": s}
            res.count(case)
            res.bump("tz:stamp")
            got = run_["stamps"][k]
            if got != {"ok": tzenv.iso_utc(s)}:
                res.violation("fmt_timestamp: the time shown is not the instant given", case, key="tz:stamp", impl=got, expected=tzenv.iso_utc(s))
            m = mdl("stamps", k)
            if m is not None and {"ok": m} != got:
                res.disagreement("fmt_timestamp: model (isoUtc) != implementation", case, got, m)
        for k, b in enumerate(dict(sets)["lattice"]):
            case = {"stream": "tz", "zone": zname, "item": "fmt_bundle", "bundle": b.id}
            res.count(case)
            want_fb = "id={} {}->{}".format(b.id[:8], tzenv.iso_utc(lib.dt_us(b.inception) // 10**6)[:10], tzenv.iso_utc(lib.dt_us(b.expiration) // 10**6)[:10])
            if run_["fmt_bundle"][k] != {"ok": want_fb}:
                res.violation("fmt_bundle: the dates shown are not those of the bundle", case, key="tz:fmt_bundle", impl=run_["fmt_bundle"][k], expected=want_fb)
        # ---- the entry point
        for tag, _c in entry_scheds:
            item = f"entry:{tag}"
            case = {"stream": "tz", "zone": zname, "item": item}
            res.count(case)
            res.bump("tz:entry")
            c = run_[item]
            _entry_judge(res, ref, case, c, mdl(item), keyp="tz:")
            u = utc[item]
            differs(case, item, {"printed": u["printed"], "log": u["messages"]}, {"printed": c["printed"], "log": c["messages"]})
        # ---- files whose times run through the lattice, three lexical forms
        for d in docs:
            item = f"load:{d['name']}"
            case = {"stream": "tz", "zone": zname, "item": item, "document_sha256": hashlib.sha256(d["xml"]).hexdigest()}
            res.count(case)
            res.bump(f"tz:load:{d['kind']}:{d['form']}")
            o = run_[item]
            out = o["out"]
            fb = file_bundles(d["xml"])
            if "ok" not in out:
                res.violation(f"load_{d['kind']}: a file with UTC bundle times does not load (harness expectation)", case, key="tz:load:flow", impl=out)
                continue
            want_times = [[b["inception"] * 10**6, b["expiration"] * 10**6] for b in fb]
            if out["ok"]["times"] != want_times:
                bad = next((i for i in range(len(want_times)) if i >= len(out["ok"]["times"]) or out["ok"]["times"][i] != want_times[i]), None)
                res.violation(f"load_{d['kind']}: the bundle times parsed are not the instants written in the file", case, key="tz:load:parsed-times", bundle=bad,
                              parsed=None if bad is None or bad >= len(out["ok"]["times"]) else out["ok"]["times"][bad], in_file=None if bad is None else want_times[bad])
            got_rows = [table_row_fields(x) for x in out["ok"]["table"][1:]]
            want_rows = file_table_rows(d["xml"])
            if got_rows != want_rows:
                bad = next((i for i in range(max(len(got_rows), len(want_rows))) if i >= len(got_rows) or i >= len(want_rows) or got_rows[i] != want_rows[i]), None)
                res.violation("bundle table: a row does not list the inception / expiration / key tags written in the file parsed", case, key="tz:load:table", row=None if bad is None else bad + 1,
                              shown=None if bad is None or bad >= len(got_rows) else got_rows[bad], in_file=None if bad is None or bad >= len(want_rows) else want_rows[bad])
            if o["shown"] != [ref_hex(sha(d["xml"]))]:
                res.violation(f"load_{d['kind']}: the logged digest is not that of the bytes read", case, key="tz:load:shown", shown=o["shown"])
            differs(case, item, utc[item], o)
            m = mdl(item)
            if m is not None and m["lines"] != out["ok"]["table"]:
                res.disagreement("format_bundles_for_humans (of the loaded file): model != implementation", case, out["ok"]["table"], m["lines"])
        # ---- the writers
        for what, name, _obj in outputs:
            item = f"output:{what}:{name}"
            case = {"stream": "tz", "zone": zname, "item": item}
            res.count(case)
            res.bump("tz:output")
            w = run_[item]
            written = w["written"]
            if "ok" not in w["out"] or written is None:
                res.violation("output function failed on a well-formed document (harness expectation)", case, key="tz:output:flow", impl=w["out"])
                continue
            if [x[0] for x in w["shown"]] != [ref_hex(sha(written))] or w["shown"][0][1] != ref_words(ref, sha(written)):
                res.violation("output: the logged digest is not that of the bytes written", case, key=f"tz:output:{what}:digest", shown=[x[0] for x in w["shown"]], on_disk_sha256=ref_hex(sha(written)))
            if written != utc[item]["written"]:
                res.violation("the document written depends on the time zone of the process (same object, run under UTC and under the zone)", case, key=f"tz:output:{what}:differs-from-utc",
                              first_difference=_first_text_diff(utc[item]["written"] or b"", written))
            m = mdl(item)
            if m is not None and ([x["data"] for x in m["written"]] != [hexs(written)] or m["shown"] != [x[0] for x in w["shown"]]):
                res.disagreement("output_xml: model != implementation", case, {"on_disk_sha256": ref_hex(sha(written)), "shown": [x[0] for x in w["shown"]]}, {"shown": m["shown"]})
    if len(res.samples) < 8:
        z = lib.non_utc_zones()[1][0]
        res.sample({"stream": "tz", "zone": z, "table_rows_lattice": (runs[z]["table:lattice"].get("ok") or [])[:3], "zones": list(runs)})


def _first_text_diff(a: bytes, b: bytes) -> dict[str, Any]:
    i = next((k for k in range(min(len(a), len(b))) if a[k] != b[k]), min(len(a), len(b)))
    return {"offset": i, "utc": a[max(0, i - 40) : i + 40].decode("utf-8", "replace"), "zone": b[max(0, i - 40) : i + 40].decode("utf-8", "replace")}


STREAMS = [
    ("words", stream_words),
    ("tool", stream_tool),
    ("tool-main", stream_tool_main),
    ("schedule", stream_schedule),
    ("entry", stream_entry),
    ("output", stream_output),
    ("config", stream_config),
    ("table", stream_table),
    ("tz", stream_tz),
]


def run(tier: str, driver_ok: bool) -> Result:
    res = Result("C17")
    res.rule = (
        "words: all 512 table entries + random octet strings of every length 0..64 + long ones, 4 functions each, three-way; "
        "tool: file and stdin mode at the regression script's sizes; tool-main: main() with argument lists of 0 (stdin) / 1 / 2 / 3.. files "
        "(same file twice, empty file, concatenation of two others, all orders of three, missing file first / middle / last, random lists; in-process and in a fresh interpreter): "
        "one block per argument, each = digest / words of that file alone; schedule: 16 named + random schedules of content per operation "
        "for load_ksr and load_skr (one open / one read / digest = xml_hash = sha256 of the bytes served / parsed id = id in those bytes / size gate); "
        "entry: ksrsigner() to its prompt over 4 schedules; output: every archived SKR, a one-bundle SKR and generated trust anchors (incl. validity with non-UTC offsets), to stdout and to a real path that "
        f"beforehand is {' / '.join(PRE_STATES)} (digest logged = digest of the octets on disk afterwards, read with plain open; file = the document); "
        "config: get_config over 4 schedules; table: archived and random bundles (flags incl. non-standard, µs, years 1..9999); "
        "tz: tables, fmt_timestamp / fmt_bundle, load_ksr / load_skr of files whose bundle times run through the DST lattice of harness/tzenv.py in the forms +00:00 / Z / no designator, "
        "ksrsigner() to its prompt (stdout + every log record), both writers — each with the PROCESS time zone switched to "
        f"{', '.join(z[0] for z in lib.TZ_ZONES)}, judged by the file's own text, the UTC run and the model; "
        "non-trivial = distinct (stream, input) pair"
    )
    ref = reference_table()
    for name, fn in STREAMS:
        try:
            fn(res, tier, driver_ok, ref)
        except lib.DriverError:
            raise
    return res


def _case_key(case: Any) -> Any:
    return {k: v for k, v in case.items() if k not in ("contents_sha256",)} if isinstance(case, dict) else case


def replay(obj: dict[str, Any]) -> Any:
    """Re-run the stream the failing case came from and report what it says now for that case."""
    v = obj.get("violation") or obj.get("disagreement") or {}
    case = v.get("case", {})
    stream = case.get("stream")
    res = Result("C17")
    ref = reference_table()
    for name, fn in STREAMS:
        if name == stream or stream is None:
            fn(res, obj.get("tier", "quick"), True, ref)
    hits = [x for x in res.violations + res.disagreements if _case_key(x.get("case")) == _case_key(case)]
    return {"case": case, "reproduced": bool(hits), "now": hits[:3], "violations_in_stream": len(res.violations), "disagreements_in_stream": len(res.disagreements)}
