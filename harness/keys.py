"""Test-only key material for the harness (fixtures/keys.json) and software signing helpers.

`TestKey` wraps one fixture key and can
  * give its DNSKEY public key octets (RFC 3110 / RFC 6605) and base64 text,
  * sign raw RRSIG to-be-signed octets the way a ZSK operator (or a healthy token) would,
  * perform the raw PKCS#11-style operations the token emulator needs (CKM_RSA_X_509, CKM_*_RSA_PKCS,
    CKM_ECDSA, CKM_ECDSA_SHA*).
"""

from __future__ import annotations

import base64
import hashlib
import json
from functools import lru_cache
from typing import Any

from lib import VERIF

DIGESTINFO = {
    "sha1": bytes.fromhex("3021300906052b0e03021a05000414"),
    "sha256": bytes.fromhex("3031300d060960864801650304020105000420"),
    "sha384": bytes.fromhex("3041300d060960864801650304020205000430"),
    "sha512": bytes.fromhex("3051300d060960864801650304020305000440"),
}
ALG_HASH = {5: "sha1", 7: "sha1", 8: "sha256", 10: "sha512", 13: "sha256", 14: "sha384"}
EC_OID = {
    "P-256": bytes.fromhex("06082a8648ce3d030107"),
    "P-384": bytes.fromhex("06052b81040022"),
}


def int_bytes(i: int, length: int | None = None) -> bytes:
    if length is None:
        length = max(1, (i.bit_length() + 7) // 8)
    return i.to_bytes(length, "big")


class TestKey:
    __test__ = False

    def __init__(self, d: dict[str, Any]) -> None:
        self.kind = d["kind"]
        self.raw = d
        if self.kind == "rsa":
            self.bits = d["bits"]
            self.e = int(d["e"], 16)
            self.n = int(d["n"], 16)
            self.d = int(d["d"], 16)
            self.k = (self.n.bit_length() + 7) // 8
        else:
            self.curve = d["curve"]
            self.dd = int(d["d"], 16)
            self.x = int(d["x"], 16)
            self.y = int(d["y"], 16)
            self.size = 32 if self.curve == "P-256" else 48

    # ---- public forms -------------------------------------------------------------------
    def modulus_bytes(self) -> bytes:
        return int_bytes(self.n, self.k)

    def exponent_bytes(self) -> bytes:
        return int_bytes(self.e)

    def ec_point(self, prefix: bool = True) -> bytes:
        p = int_bytes(self.x, self.size) + int_bytes(self.y, self.size)
        return (b"\x04" + p) if prefix else p

    def dnskey_public_key(self) -> bytes:
        """The RFC 3110 / RFC 6605 public key field."""
        if self.kind == "rsa":
            eb = self.exponent_bytes()
            hdr = bytes([len(eb)]) if len(eb) <= 255 else b"\x00" + len(eb).to_bytes(2, "big")
            return hdr + eb + self.modulus_bytes()
        return self.ec_point(prefix=False)

    def dnskey_b64(self) -> bytes:
        return base64.b64encode(self.dnskey_public_key())

    # ---- private operations -----------------------------------------------------------------
    def rsa_raw(self, em: bytes) -> bytes:
        """CKM_RSA_X_509: modular exponentiation of the (already padded) block."""
        m = int.from_bytes(em, "big")
        if m >= self.n:
            raise ValueError("data too large for modulus")
        return int_bytes(pow(m, self.d, self.n), self.k)

    def emsa(self, hname: str, msg: bytes) -> bytes:
        t = DIGESTINFO[hname] + hashlib.new(hname, msg).digest()
        return b"\x00\x01" + b"\xff" * (self.k - len(t) - 3) + b"\x00" + t

    def rsa_pkcs1(self, hname: str, msg: bytes) -> bytes:
        """CKM_<hash>_RSA_PKCS: hash, EMSA-PKCS1-v1_5 encode, exponentiate."""
        return self.rsa_raw(self.emsa(hname, msg))

    @lru_cache(maxsize=None)
    def _ec_priv(self) -> Any:
        from cryptography.hazmat.primitives.asymmetric import ec

        curve = ec.SECP256R1() if self.curve == "P-256" else ec.SECP384R1()
        return ec.derive_private_key(self.dd, curve)

    def ecdsa_digest(self, digest: bytes) -> bytes:
        """CKM_ECDSA on an already computed digest: r || s fixed width."""
        from cryptography.hazmat.primitives import hashes
        from cryptography.hazmat.primitives.asymmetric import ec, utils

        h = {20: hashes.SHA1(), 32: hashes.SHA256(), 48: hashes.SHA384(), 64: hashes.SHA512()}[len(digest)]
        der = self._ec_priv().sign(digest, ec.ECDSA(utils.Prehashed(h)))
        r, s = utils.decode_dss_signature(der)
        return int_bytes(r, self.size) + int_bytes(s, self.size)

    def ecdsa_hash(self, hname: str, msg: bytes) -> bytes:
        return self.ecdsa_digest(hashlib.new(hname, msg).digest())

    def sign_dnssec(self, alg: int, msg: bytes) -> bytes:
        """Signature octets a DNSSEC signer with this key produces over `msg` under algorithm `alg`."""
        h = ALG_HASH[alg]
        if self.kind == "rsa":
            return self.rsa_pkcs1(h, msg)
        return self.ecdsa_hash(h, msg)


@lru_cache(maxsize=1)
def _all_raw() -> list[TestKey]:
    return [TestKey(d) for d in json.loads((VERIF / "fixtures" / "keys.json").read_text())]


@lru_cache(maxsize=1)
def all_keys() -> list[TestKey]:
    """The ordinary fixtures (indexes into this list are used as key references).  Fixtures with particular OCTET PATTERNS
    (`rsa_keys_topclear`, `ec_keys_x04`) are appended to the file, flagged, and reached only through their own accessors."""
    return [k for k in _all_raw() if not k.raw.get("topclear") and not k.raw.get("x04")]


def rsa_keys(bits: int | None = None, e: int | None = None) -> list[TestKey]:
    return [k for k in all_keys() if k.kind == "rsa" and not k.raw.get("topclear") and (bits is None or k.bits == bits) and (e is None or k.e == e)]


def rsa_keys_topclear() -> list[TestKey]:
    """RSA keys whose modulus has its most significant octet < 0x80 (1023 / 2047 / 3070 bits in 128 / 256 / 384 octets): the
    modulus LENGTH in octets (what /repo calls the key size, and what the PKCS#1 block is padded to) is not bit_length // 8.
    `bits` of these fixtures is 8 * octets, i.e. the value a configuration has to state."""
    return [k for k in _all_raw() if k.kind == "rsa" and k.raw.get("topclear")]


def ec_keys(curve: str | None = None) -> list[TestKey]:
    return [k for k in all_keys() if k.kind == "ec" and not k.raw.get("x04") and (curve is None or k.curve == curve)]


def ec_keys_x04(curve: str | None = None) -> list[TestKey]:
    """EC keys whose X coordinate begins with the octet 0x04 (1 key in 256): the bare RFC 6605 form x || y of such a key
    starts like a SEC 1 uncompressed point — code that recognises the prefixed form by its first octet instead of by the
    length of the key misreads it."""
    return [k for k in _all_raw() if k.kind == "ec" and k.raw.get("x04") and (curve is None or k.curve == curve)]


def make_zsk(tk: TestKey, alg: int, ident: str, ttl: int = 172800, flags: int = 256) -> Any:
    """A repo `Key` for a test key, with the correct tag."""
    from kskm.common.data import AlgorithmDNSSEC
    from kskm.common.dnssec import public_key_to_dnssec_key

    return public_key_to_dnssec_key(public_key=tk.dnskey_b64(), key_identifier=ident, algorithm=AlgorithmDNSSEC(alg), ttl=ttl, flags=flags)


def sign_bundle_keys(keys: list[Any], signers: list[tuple[Any, TestKey]], inception: Any, expiration: Any, ttl: int = 172800) -> set[Any]:
    """Honest proof-of-possession signatures: each (Key, TestKey) signs the whole key set."""
    from kskm.common.data import Signature, TypeDNSSEC
    from kskm.common.signature import make_raw_rrsig

    out = set()
    for key, tk in signers:
        sig = Signature(
            key_identifier=key.key_identifier,
            ttl=ttl,
            type_covered=TypeDNSSEC.DNSKEY,
            algorithm=key.algorithm,
            labels=0,
            original_ttl=ttl,
            signature_expiration=expiration,
            signature_inception=inception,
            key_tag=key.key_tag,
            signers_name=".",
            signature_data=b"",
        )
        raw = make_raw_rrsig(sig, set(keys))
        out.add(sig.replace(signature_data=base64.b64encode(tk.sign_dnssec(key.algorithm.value, raw))))
    return out


# --------------------------------------------------------------------------------------
# keys with particular key-tag properties (fixtures/special.json, tools/gen_special_fixtures.py)
# --------------------------------------------------------------------------------------


@lru_cache(maxsize=1)
def special() -> dict[str, Any]:
    """{'carry': [TestKey…], 'revcarry': [TestKey…], 'twins': [[TestKey, TestKey]…]} — 1024-bit RSA, e = 65537.
    carry: (ac & 0xFFFF) + (ac >> 16) >= 0x10000 for the flags-257 / algorithm-8 DNSKEY (a second fold would differ);
    revcarry: low 16 bits of the accumulator >= 0xFF80 (revoked tag = tag + 129); twins: same key tag as KSK."""
    raw = json.loads((VERIF / "fixtures" / "special.json").read_text())
    return {
        "carry": [TestKey(d) for d in raw["carry"]],
        "revcarry": [TestKey(d) for d in raw["revcarry"]],
        "twins": [[TestKey(a), TestKey(b)] for a, b in raw["twins"]],
    }


def tag_accumulator(rdata: bytes) -> int:
    s = 0
    for i, b in enumerate(rdata):
        s += b if i & 1 else b << 8
    return s


def rfc4034_key_tag(rdata: bytes) -> int:
    """RFC 4034 Appendix B, transcribed: one fold, carry of the fold discarded."""
    ac = tag_accumulator(rdata)
    ac += (ac >> 16) & 0xFFFF
    return ac & 0xFFFF


def craft_public_key_with(pred: Any, flags: int, alg: int, rnd: Any, n_len: int = 128, tries: int = 200000) -> bytes:
    """An RFC 3110 public-key field (e = 65537, random `n_len`-octet 'modulus' — NOT a usable RSA key, public material only)
    whose DNSKEY RDATA (flags, 3, alg) satisfies `pred(rdata)`.  The last 16-bit word of the modulus is solved for."""
    hdr = flags.to_bytes(2, "big") + bytes([3, alg])
    for _ in range(tries):
        n = bytearray(rnd.randbytes(n_len))
        n[0] |= 0x80
        n[-1] |= 1
        pk = bytes([3, 1, 0, 1]) + bytes(n)
        rd = hdr + pk
        if pred(rd):
            return pk
        # steer: the last two octets sit at an even offset when len(rd) is even
        for w in (rnd.randrange(65536) for _ in range(8)):
            n[-2], n[-1] = w >> 8, (w & 0xFF) | 1
            pk = bytes([3, 1, 0, 1]) + bytes(n)
            if pred(hdr + pk):
                return pk
    raise RuntimeError("could not craft key")


def craft_public_key_with_tag(target: int, flags: int, alg: int, rnd: Any, n_len: int = 128) -> bytes:
    """Solve the last 16-bit word so that the key tag is exactly `target`."""
    hdr = flags.to_bytes(2, "big") + bytes([3, alg])
    while True:
        n = bytearray(rnd.randbytes(n_len))
        n[0] |= 0x80
        n[-2] = n[-1] = 0
        base = hdr + bytes([3, 1, 0, 1]) + bytes(n)
        assert len(base) % 2 == 0
        s0 = tag_accumulator(base)
        for w in range(1, 65536, 2):
            s = s0 + w
            if ((s & 0xFFFF) + (s >> 16)) & 0xFFFF == target:
                n[-2], n[-1] = w >> 8, w & 0xFF
                pk = bytes([3, 1, 0, 1]) + bytes(n)
                assert rfc4034_key_tag(hdr + pk) == target
                return pk


def rsa_public_key_field(e: int, n_bytes: bytes) -> bytes:
    """RFC 3110 public key field for exponent `e` and modulus octets `n_bytes`."""
    eb = int_bytes(e)
    hdr = bytes([len(eb)]) if len(eb) <= 255 else b"\x00" + len(eb).to_bytes(2, "big")
    return hdr + eb + n_bytes


def craft_modulus_with_acc(pred: Any, flags: int, alg: int, rnd: Any, n_len: int = 128, e: int = 65537) -> int:
    """A random odd `n_len`-octet 'modulus' (top bit set — NOT a usable RSA key, public material only) such that the
    RFC 4034 App. B accumulator `ac` (before folding) of the DNSKEY RDATA (flags, 3, alg, RFC 3110 key field with
    exponent `e`) satisfies `pred(ac)`.  The last 16-bit word of the modulus is solved for, so any predicate that
    holds for at least one odd last word in a few random attempts is met (key-tag boundaries: fold carry, REVOKE carry)."""
    for _ in range(64):
        n = bytearray(rnd.randbytes(n_len))
        n[0] |= 0x80
        n[-2] = n[-1] = 0
        base = flags.to_bytes(2, "big") + bytes([3, alg]) + rsa_public_key_field(e, bytes(n))
        if len(base) % 2:
            raise ValueError("craft_modulus_with_acc: RDATA of odd length (the last modulus word must be 16-bit aligned)")
        s0 = tag_accumulator(base)
        start = rnd.randrange(1, 65536, 2)
        for i in range(0, 65536, 2):
            w = (start + i) % 65536
            if pred(s0 + w):
                n[-2], n[-1] = w >> 8, w & 0xFF
                return int.from_bytes(bytes(n), "big")
    raise RuntimeError("could not craft a modulus for the predicate")


def public_only_key(n: int, e: int = 65537) -> TestKey:
    """A TestKey carrying public RSA material only (d = 0): good for token objects that are read, never used to sign."""
    return TestKey({"kind": "rsa", "bits": n.bit_length(), "e": hex(e), "n": hex(n), "d": "0x0"})


def dnskey_rdata(tk: TestKey, flags: int, alg: int) -> bytes:
    return flags.to_bytes(2, "big") + bytes([3, alg]) + tk.dnskey_public_key()
