"""C15 correspondence: the PKCS#11 layer finds the right key and hands the token the right octets.

(a) Layouts: 1..2 modules x 1..3 slots x {login ok, refused, open refused} x placements of 0..2 objects per
    (label, class) — exhaustive over a bounded grid; `get_p11_key()` for public and private lookups.  Oracle from the
    property text: found exactly when ONE object of the class carries the label in the first slot (module order,
    slot order, slots that refused login removed) that has ANY; two objects there are an error; the derived public
    key is the token's true key (RSA modulus/exponent; EC point wrapped or bare).
(b) Octets handed to the token: every algorithm x hash mode x RSA size x message length; raw RSA must be the
    full-modulus-length EMSA-PKCS1-v1_5 encoding of the matching digest, raw ECDSA the matching digest, hash-on-token
    the untouched data under the matching mechanism; symmetric key types are never used.
(c) Environment: module initialisation with env maps that add / override / leave variables: os.environ after ==
    before, and during load() the variables are set.
(d) SPLIT placement (stream "split"): the public and the private object of ONE key under the label in DIFFERENT slots /
    modules — one module x 3 slots and two modules x 2 slots; every (position of the public object | none) x (position of
    the private object), the same slot included as control; the two objects under equal and under different handle NUMBERS
    (handles are numbered per slot); every other handle number 1..3 of every slot taken by an unrelated PRIVATE key of the
    same type (a foreign handle number designates a key that signs — wrongly) or by unrelated public objects (it cannot
    sign); optionally a slot that refuses login (an unrelated one, or the public object's) or a second public object in
    another slot; x RSA-2048/SHA-256, RSA-1024/SHA-512, RSA private object without exponent, P-256 / P-384 private objects
    with and without CKA_EC_POINT, point wrapped and bare; x hash on host / on token / unset.  Run through the signer's own
    path init_pkcs11_modules -> load_pkcs11_key(public=False) -> sign_using_p11.  Oracle from the property text
    (expected_split): every C_Sign the emulator records goes to the slot AND handle of the PRIVATE object of the label; where
    the key is found and has a public key: exactly one C_Sign with the documented mechanism / octets, the loaded key
    references the private object's slot and handle and carries the token's true public key, and the signature verifies
    under the label's public key (`cryptography`, public numbers of the fixture key: verify_sig); where the label has no
    usable private object / no public key nothing is loaded.
(e) OCTET PATTERNS of CKA_EC_POINT (stream "point"): whether a point is bare (04 X Y) or DER-wrapped (04 <len> 04 X Y) follows from
    the layout of the octet string; on a bare point the first octets of X sit where a wrapped point carries <len> and the inner
    04.  REAL keys (private scalars d0+1, d0+2, … multiplied out with `cryptography`, d0 from the seed) whose X has 04 / 41 / 61
    (DER tag, the DER lengths 65 / 97) / 00 at octet 0, 1 and 2, for P-256 and P-384, plus a control key; each stored bare and
    wrapped; looked up as public object, as private object carrying the point, and through load_pkcs11_key + sign_using_p11
    with the point on the public object only.  Plus octet strings of lengths 64..67 and 96..99 under the parameters of either
    curve with the same octets (and the DER lengths len-2, len-3 of the string itself) at octets 0, 1, 2.  Oracle (point_layout,
    from PKCS#11 / SEC 1 / X.690): found with key text X || Y (or 04 || X || Y: known finding F4) exactly when the string is a
    bare or a wrapped point of the curve's size, the size error otherwise; signatures verify under the key's true public
    numbers.  The curve's point size decides: a string of 1 + 2n octets starting with 04 is the BARE point whatever its next
    octets are — also 04 3f 04 … (P-256) / 04 5f 04 … (P-384), a bare point whose X starts 3f 04 / 5f 04 (0x3f = 65 - 2,
    0x5f = 97 - 2) and which a rule looking only at the first three octets takes for a wrapper (finding F24).  Two REAL keys of
    that class run in every invocation: P-256 d = 20220 (X = 3f0419f4…) and P-384 d = 401701 (X = 5f042f37…; the smallest such
    scalars), derived from the scalar with `cryptography` at run time, each stored bare and wrapped, through get_p11_key,
    load_pkcs11_key and sign_using_p11; plus the octet-string form for both curves.  NOT judged, only counted: 1 + 2n octets
    not starting with 04.
The Lean model replays each run's token log (get_p11_key / sign_using_p11 / load_pkcs11_key / p11_init ops) and answers env_cycle.
"""

from __future__ import annotations

import base64
import hashlib
import itertools
import os
from typing import Any

import ceremony as C
import keys as K
import lib
import p11emu
from lib import Result, hexs

DRIVER = C.DRIVER
ASSUMPTIONS = [
    "the token emulator stands in for a PKCS#11 device; PyKCS11 answers absent attributes with None",
    "object handles are numbered per slot by the emulator (as on real tokens): a handle number taken from one slot designates whatever object has that number in another",
    "in the split stream the public and the private object under the label are halves of one fixture key, so the public key of the label is that key's whichever object supplies it",
]
TRUSTED = ["harness/p11emu.py token emulator"]

# work package B1: parse_hsmconfig / load_hsmconfig / find_key_by_id / the name filter (own driver, own module)
import corr_C15_hsmconfig as HC  # noqa: E402

EXTRA_DRIVERS = ["kskm_driver_hsmcfg"]
ASSUMPTIONS += HC.ASSUMPTIONS
TRUSTED += HC.TRUSTED


def mk_cfg(mods: list[dict[str, Any]], env: dict[str, str] | None = None) -> Any:
    hsm = {}
    for i, m in enumerate(mods):
        h = {"module": m["path"], "pin": m.get("pin", "1234")}
        if env is not None and i == 0:
            h["env"] = env
        hsm[f"hsm{i}"] = h
    return C.make_config(hsm, {}, {})


def key_j(k: Any) -> Any:
    if k is None:
        return None
    return {
        "label": k.label,
        "keyType": k.key_type.name.lower(),
        "keyClass": k.key_class.value,
        "hashUsingHsm": k.hash_using_hsm,
        "publicKey": None if k.public_key is None else k.public_key.decode(),
        "module": k.session.lib.path,
        "slot": k.session.slot.slot_id,
        "privHandle": None if k.privkey_handle is None else int(k.privkey_handle.value()),
        "pubHandle": None if k.pubkey_handle is None else int(k.pubkey_handle.value()),
    }


def layouts(r: Any, tier: str) -> list[dict[str, Any]]:
    """Bounded exhaustive grid of token layouts for the label 'L'."""
    out = []
    tkR = K.rsa_keys(1024, 65537)[0]
    tkR2 = K.rsa_keys(1024, 65537)[1]
    tkE = K.ec_keys("P-256")[0]
    slot_states = ["ok", "login_refused", "open_refused"]
    # one module, 1..3 slots: each slot has a state and (n_public, n_private) objects under the label
    counts = [(0, 0), (1, 0), (0, 1), (1, 1), (2, 0), (0, 2), (2, 1), (1, 2)]
    for nslots in (1, 2, 3):
        combos = list(itertools.product(itertools.product(slot_states, counts), repeat=nslots))
        if tier == "quick" and len(combos) > 700:
            combos = r.sample(combos, 700)
        for combo in combos:
            out.append({"modules": [[{"state": st, "pub": c[0], "priv": c[1]} for st, c in combo]], "kind": "rsa"})
    # two modules
    two = list(itertools.product(itertools.product(slot_states[:2], counts[:6]), repeat=2))
    if tier == "quick":
        two = r.sample(two, 80)
    for a, b in two:
        out.append({"modules": [[{"state": a[0], "pub": a[1][0], "priv": a[1][1]}], [{"state": b[0], "pub": b[1][0], "priv": b[1][1]}]], "kind": r.choice(["rsa", "ec_wrapped", "ec_bare", "ec_priv_point"])})
    # EC profiles on single-slot layouts
    for kind in ("ec_wrapped", "ec_bare", "ec_priv_point", "ec_p384", "ec_unknown_curve", "ec_short_point", "rsa_priv_no_exponent", "rsa_bigexp", "secret"):
        for c in [(1, 1), (0, 1), (1, 0)]:
            out.append({"modules": [[{"state": "ok", "pub": c[0], "priv": c[1]}]], "kind": kind})
    return out


def build_world(lay: dict[str, Any]) -> tuple[p11emu.World, list[dict[str, Any]], dict[str, Any]]:
    import PyKCS11.LowLevel as LL

    kind = lay["kind"]
    tk: Any
    if kind.startswith("rsa"):
        tk = K.rsa_keys(1024, 65537)[0] if kind != "rsa_bigexp" else max(K.rsa_keys(), key=lambda k: k.e)
    elif kind == "ec_p384":
        tk = K.ec_keys("P-384")[0]
    else:
        tk = K.ec_keys("P-256")[0]
    mods = []
    desc = []
    for mi, slots in enumerate(lay["modules"]):
        eslots = []
        for si, s in enumerate(slots):
            es = p11emu.EmuSlot(si, login_ok=(s["state"] != "login_refused"), open_ok=(s["state"] != "open_refused"))
            # an unrelated object first so that handle numbers differ from counts
            es.add_rsa("Other", K.rsa_keys(1024, 65537)[3])
            for _ in range(s["pub"]):
                add(es, kind, tk, public=True)
            for _ in range(s["priv"]):
                add(es, kind, tk, public=False)
            eslots.append(es)
        mods.append(p11emu.EmuModule(f"emu{mi}", eslots))
        desc.append({"path": f"emu{mi}", "pin": "1234"})
    return p11emu.World(mods), desc, {"tk": tk}


def add(es: p11emu.EmuSlot, kind: str, tk: Any, public: bool) -> None:
    import PyKCS11.LowLevel as LL

    if kind == "rsa" or kind == "rsa_bigexp":
        es.add_rsa("L", tk, public=public, private=not public)
    elif kind == "rsa_priv_no_exponent":
        es.add_rsa("L", tk, public=public, private=not public, priv_has_pub_attrs=False)
    elif kind in ("ec_wrapped", "ec_p384"):
        es.add_ec("L", tk, public=public, private=not public, wrapped_point=True)
    elif kind == "ec_bare":
        es.add_ec("L", tk, public=public, private=not public, wrapped_point=False)
    elif kind == "ec_priv_point":
        es.add_ec("L", tk, public=public, private=not public, wrapped_point=True, priv_has_point=True)
    elif kind == "ec_unknown_curve":
        es.add_ec("L", tk, public=public, private=not public, params=bytes.fromhex("06052b8104000a"))
    elif kind == "ec_short_point":
        es.add(p11emu.EmuObject(LL.CKO_PUBLIC_KEY if public else LL.CKO_PRIVATE_KEY, "L", LL.CKK_EC, {int(LL.CKA_EC_POINT): b"\x04" + b"\x11" * 40, int(LL.CKA_EC_PARAMS): K.EC_OID["P-256"]}, tk))
    elif kind == "secret":
        es.add(p11emu.EmuObject(LL.CKO_PUBLIC_KEY if public else LL.CKO_PRIVATE_KEY, "L", LL.CKK_AES, {}, None))


def expected_lookup(lay: dict[str, Any], public: bool) -> Any:
    """From the property text: ('found', module, slot) / 'none' / 'duplicate' / 'init-fails'."""
    for mi, slots in enumerate(lay["modules"]):
        usable = [(si, s) for si, s in enumerate(slots) if s["state"] == "ok"]
        if not usable:
            return "init-fails"  # a module none of whose slots can be opened cannot be initialised
    for mi, slots in enumerate(lay["modules"]):
        for si, s in enumerate(slots):
            if s["state"] != "ok":
                continue
            n = s["pub"] if public else s["priv"]
            if n == 1:
                return ("found", f"emu{mi}", si)
            if n >= 2:
                return "duplicate"
    return "none"


# --------------------------------------------------------------------------------------
# (d) the two halves of ONE key placed in different slots / modules
# --------------------------------------------------------------------------------------

SPLIT_SHAPES = [[3], [2, 2]]  # slots per module
SPLIT_PROFILES = [
    # name, key kind, DNSSEC algorithm, private object carries the public attributes, EC point wrapped
    ("rsa2048-sha256", "rsa", 8, True, True),
    ("rsa1024-sha512", "rsa", 10, True, True),
    ("rsa-private-without-exponent", "rsa", 8, False, True),
    ("p256-private-without-point-wrapped", "ec", 13, False, True),
    ("p256-private-without-point-bare", "ec", 13, False, False),
    ("p256-private-with-point", "ec", 13, True, True),
    ("p384-private-without-point", "ec", 14, False, True),
    ("p384-private-with-point-bare", "ec", 14, True, False),
]
SPLIT_HANDLES = 3  # every slot of a split layout holds objects under the handle numbers 1..3


def split_key(profile: tuple[str, str, int, bool, bool]) -> Any:
    _name, kind, alg, _attrs, _wrapped = profile
    if kind == "rsa":
        return K.rsa_keys(2048, 65537)[0] if alg == 8 else K.rsa_keys(1024, 65537)[2]
    return K.ec_keys("P-256" if alg == 13 else "P-384")[1]


def split_decoys(tk: Any) -> list[Any]:
    """unrelated keys of the same type and size as `tk` (what a foreign handle number may designate)"""
    if tk.kind == "rsa":
        return [k for k in K.rsa_keys(tk.bits) if k.n != tk.n]
    return [k for k in K.ec_keys(tk.curve) if k.x != tk.x]


def split_positions(shape: list[int]) -> list[tuple[int, int]]:
    return [(mi, si) for mi, n in enumerate(shape) for si in range(n)]


def split_cases(r: Any, tier: str) -> list[dict[str, Any]]:
    """Placements of the public and the private object of label 'L' (two halves of ONE key) over the slots of one module
    with three slots and of two modules with two slots each: every (position of the public object or none) x (position
    of the private object), the two objects under equal and under different handle NUMBERS (handles are numbered per
    slot), all other handle numbers of every slot taken by unrelated PRIVATE keys of the same type (a foreign handle
    number designates a key that signs — wrongly) or by unrelated public objects (a foreign number cannot sign), some
    with a slot that refuses login, some with a second public object in a later slot; x key profile x hashing mode."""
    out: list[dict[str, Any]] = []
    quick = tier == "quick"
    for shape in SPLIT_SHAPES:
        pos = split_positions(shape)
        for pub in [None] + pos:
            for priv in pos:
                for fillers in ("private-decoys", "public-fillers"):
                    pairs = [(a, b) for a in range(1, SPLIT_HANDLES + 1) for b in range(1, SPLIT_HANDLES + 1) if not (pub == priv and a == b)]
                    if quick:
                        same = [p for p in pairs if p[0] == p[1]]
                        diff = [p for p in pairs if p[0] != p[1]]
                        pairs = ([r.choice(same)] if same else []) + [r.choice(diff)]
                    for a, b in pairs:
                        for prof in SPLIT_PROFILES:
                            if quick and r.random() < 0.45:
                                continue
                            for on_hsm in ((False, True, None) if not quick else (r.choice([False, True, None]),)):
                                c: dict[str, Any] = {
                                    "via": "load_pkcs11_key", "split": True, "shape": shape, "pub": list(pub) if pub else None, "priv": list(priv), "pub_handle": a, "priv_handle": b,
                                    "fillers": fillers, "profile": prof[0], "alg": prof[2], "hash_using_hsm": on_hsm, "refused": None, "extra_pub": None,
                                }
                                k = r.random()
                                others = [p for p in pos if p != priv and p != pub]
                                if k < 0.15 and others:
                                    c["refused"] = list(r.choice(others))  # an unrelated slot refuses login: the session list shifts
                                elif k < 0.22 and pub is not None and pub != priv:
                                    c["refused"] = list(pub)  # the slot of the public object refuses login: that object does not exist for the tool
                                elif k < 0.40 and others:
                                    c["extra_pub"] = list(r.choice(others))  # a second public object of the key in another slot: the first slot that has any counts
                                out.append(c)
    return out


def build_split_world(c: dict[str, Any]) -> tuple[p11emu.World, list[dict[str, Any]], Any]:
    prof = next(p for p in SPLIT_PROFILES if p[0] == c["profile"])
    _name, kind, _alg, priv_attrs, wrapped = prof
    tk = split_key(prof)
    decoys = split_decoys(tk)
    mods, desc = [], []
    di = 0
    for mi, nslots in enumerate(c["shape"]):
        eslots = []
        for si in range(nslots):
            here = [mi, si]
            es = p11emu.EmuSlot(si, login_ok=(c["refused"] != here))
            want: dict[int, str] = {}
            if c["pub"] == here:
                want[c["pub_handle"]] = "pub"
            if c["priv"] == here:
                want[c["priv_handle"]] = "priv"
            if c["extra_pub"] == here:
                want[next(h for h in range(1, SPLIT_HANDLES + 1) if h not in want)] = "pub"
            for h in range(1, SPLIT_HANDLES + 1):
                what = want.get(h)
                before = es.next_handle
                if what is None:
                    dk = decoys[di % len(decoys)]
                    di += 1
                    label = f"D-{mi}-{si}-{h}"
                    as_private = c["fillers"] == "private-decoys"
                    if kind == "rsa":
                        es.add_rsa(label, dk, public=not as_private, private=as_private)
                    else:
                        es.add_ec(label, dk, public=not as_private, private=as_private, wrapped_point=wrapped, priv_has_point=True)
                elif kind == "rsa":
                    es.add_rsa("L", tk, public=(what == "pub"), private=(what == "priv"), priv_has_pub_attrs=priv_attrs)
                else:
                    es.add_ec("L", tk, public=(what == "pub"), private=(what == "priv"), wrapped_point=wrapped, priv_has_point=priv_attrs)
                assert before == h and es.next_handle == h + 1
            eslots.append(es)
        mods.append(p11emu.EmuModule(f"emu{mi}", eslots))
        desc.append({"path": f"emu{mi}", "pin": "1234"})
    return p11emu.World(mods), desc, tk


def expected_split(c: dict[str, Any]) -> dict[str, Any]:
    """From the property text: which object signs.  The key is found in the first slot — module order, slot order, slots
    that refused login removed — that has ANY object of the requested class under the label; the private-key operation
    belongs to the slot and handle of that PRIVATE object; the public key comes from the private object's own public
    attributes or, when it has none, from the public object found by the same rule."""
    prof = next(p for p in SPLIT_PROFILES if p[0] == c["profile"])
    _name, kind, _alg, priv_attrs, _wrapped = prof
    usable = [list(p) for p in split_positions(c["shape"]) if list(p) != c["refused"]]
    for mi, nslots in enumerate(c["shape"]):
        if not any(p[0] == mi for p in usable):
            return {"outcome": "init-fails"}
    if c["priv"] not in usable:
        return {"outcome": "no-private-object"}
    where = {"module": f"emu{c['priv'][0]}", "slot": c["priv"][1], "handle": c["priv_handle"]}
    if priv_attrs:
        return {"outcome": "signs", **where, "public_from": "private-object"}
    if kind == "rsa":
        return {"outcome": "error-or-none"}  # an RSA private object without CKA_PUBLIC_EXPONENT yields no public key
    pubs = [p for p in usable if p == c["pub"] or p == c["extra_pub"]]
    if not pubs:
        return {"outcome": "no-public-key"}
    return {"outcome": "signs", **where, "public_from": "public-object"}


def split_relation(c: dict[str, Any]) -> str:
    """where the public object the tool gets to see (first usable slot that has any) lies, relative to the private object"""
    pubs = [list(p) for p in split_positions(c["shape"]) if list(p) != c["refused"] and (list(p) == c["pub"] or list(p) == c["extra_pub"])]
    if not pubs:
        return "no-public-object"
    p = pubs[0]
    return "same-slot" if p == c["priv"] else "other-slot" if p[0] == c["priv"][0] else "other-module"


def exec_split(sc: dict[str, Any], msg: bytes) -> tuple[Any, ...]:
    """One run of the REAL signer path on a split layout: init_pkcs11_modules -> load_pkcs11_key(public=False) -> sign_using_p11."""
    world, desc, tk = build_split_world(sc)
    return exec_load_sign(world, desc, tk, sc["alg"], sc["hash_using_hsm"], msg)


def exec_load_sign(world: p11emu.World, desc: list[dict[str, Any]], tk: Any, alg_v: int, on_hsm: bool | None, msg: bytes) -> tuple[Any, ...]:
    """One run of the REAL signer path on `world`: init_pkcs11_modules -> load_pkcs11_key(label 'L', public=False) -> sign_using_p11."""
    from datetime import datetime, timezone

    from kskm.common.config_misc import KSKKey, KSKPolicy
    from kskm.common.data import AlgorithmDNSSEC
    from kskm.ksr.data import RequestBundle
    from kskm.misc import hsm as H
    from kskm.signer.key import load_pkcs11_key

    inc = datetime(2024, 1, 1, tzinfo=timezone.utc)
    bundle = RequestBundle(id="b", inception=inc, expiration=datetime(2024, 1, 22, tzinfo=timezone.utc), keys=set(), signatures=set(), signers=None)
    cfg = mk_cfg(desc)
    ksk = KSKKey(description="d", label="L", algorithm=AlgorithmDNSSEC(alg_v), valid_from=inc, rsa_size=(tk.k * 8 if tk.kind == "rsa" else None), rsa_exponent=(tk.e if tk.kind == "rsa" else None), hash_using_hsm=on_hsm)
    hold: dict[str, Any] = {}
    with world.installed(), C.Oracles() as orc:

        def go_load() -> Any:
            p11 = H.init_pkcs11_modules(cfg)
            return load_pkcs11_key(ksk, p11, KSKPolicy(), bundle, public=False)

        def conv_ck(ck: Any) -> Any:
            hold["ck"] = ck
            return None if ck is None else {"p11": key_j(ck.p11), "dns": lib.key_j(ck.dns)}

        impl_load = lib.run_impl(go_load, conv_ck)
        n_load = len(world.log)
        impl_sign = lib.run_impl(lambda: H.sign_using_p11(hold["ck"].p11, msg, AlgorithmDNSSEC(alg_v)), hexs) if hold.get("ck") is not None else None
        orcs = orc.take()
    return world, cfg, tk, ksk, impl_load, n_load, impl_sign, orcs


# --------------------------------------------------------------------------------------
# (e) octet patterns of CKA_EC_POINT at the positions an unwrapping rule can look at
# --------------------------------------------------------------------------------------

POINT_OCTETS = (0x04, 0x41, 0x61, 0x00)  # SEC 1 uncompressed marker = DER OCTET STRING tag; DER lengths 65 / 97 (P-256 / P-384 point); zero
POINT_POSITIONS = (0, 1, 2)  # octets of X: on a bare point they sit where a wrapped point has <len> 04 X[0]
CURVE_SIZE = {"P-256": 32, "P-384": 48}


def pattern_keys(r: Any) -> list[tuple[str, Any]]:
    """REAL curve points whose X coordinate has each of POINT_OCTETS at each of POINT_POSITIONS, for P-256 and P-384, plus the
    first key tried as a control: private scalars d0+1, d0+2, … (d0 from the run's seed) multiplied out with `cryptography`
    until every pattern is met (each pattern 1 key in 256: about a thousand scalar multiplications per curve)."""
    from cryptography.hazmat.primitives.asymmetric import ec

    out: list[tuple[str, Any]] = []
    for curve, cobj in (("P-256", ec.SECP256R1()), ("P-384", ec.SECP384R1())):
        size = CURVE_SIZE[curve]
        want = {(pos, b) for pos in POINT_POSITIONS for b in POINT_OCTETS}
        d = r.randrange(1, 1 << 64)
        first = True
        for _ in range(200000):
            if not want:
                break
            d += 1
            nums = ec.derive_private_key(d, cobj).public_key().public_numbers()
            x = nums.x.to_bytes(size, "big")
            hit = sorted((pos, x[pos]) for pos in POINT_POSITIONS if (pos, x[pos]) in want)
            if hit or first:
                tk = K.TestKey({"kind": "ec", "curve": curve, "d": "%x" % d, "x": "%x" % nums.x, "y": "%x" % nums.y})
                out.append((f"{curve}:" + ("+".join(f"x[{pos}]={b:02x}" for pos, b in hit) if hit else "control"), tk))
                want.difference_update(hit)
            first = False
        assert not want, want
    # finding F24: the smallest private scalars whose X coordinate starts <point length - 2> 04, i.e. whose BARE point starts
    # with the three octets of a DER wrapper (1 key in 65536); fixed, in every run whatever the seed
    for curve, cobj, d, x_starts in (("P-256", ec.SECP256R1(), 20220, "3f0419f47d597728"), ("P-384", ec.SECP384R1(), 401701, "5f042f37018be92a")):
        nums = ec.derive_private_key(d, cobj).public_key().public_numbers()
        x = nums.x.to_bytes(CURVE_SIZE[curve], "big")
        assert x.hex().startswith(x_starts) and x[0] == 2 * CURVE_SIZE[curve] - 1 and x[1] == 0x04, (curve, d, x.hex())
        out.append((f"{curve}:x[0:2]={x[:2].hex()}", K.TestKey({"kind": "ec", "curve": curve, "d": "%x" % d, "x": "%x" % nums.x, "y": "%x" % nums.y})))
    return out


def point_layout(size: int, s: bytes) -> tuple[str, bytes | None]:
    """What an octet string returned as CKA_EC_POINT for a curve of `size`-octet coordinates IS, from PKCS#11 / SEC 1 / X.690:
    the uncompressed point 04 || X || Y either bare (1 + 2*size octets) or as the contents of a DER OCTET STRING (tag 04,
    short-form length 1 + 2*size, then exactly that many octets).  -> (kind, point incl. its 04 octet | None)."""
    n = 1 + 2 * size
    if len(s) == n + 2 and s[0] == 0x04 and s[1] == n and s[2] == 0x04:
        return "wrapped", s[2:]
    if len(s) == n:
        if s[0] != 0x04:
            return "right-size-not-uncompressed", s  # 1 + 2*size octets that do not start with the uncompressed marker: not judged beyond 'no foreign material'
        # the curve's point size decides (PKCS#11 / SEC 1): 1 + 2*size octets starting with 04 ARE the uncompressed point, whatever
        # the next octets — also 04 3f 04 … / 04 5f 04 …, a point whose X starts 3f 04 / 5f 04 (reads_as_wrapper: counted apart)
        return "bare", s
    return "wrong-size", None


def reads_as_wrapper(size: int, s: bytes) -> bool:
    """A BARE point (1 + 2*size octets, 04 first) whose next two octets are what a DER wrapper of the string itself would carry:
    <len - 2> 04, i.e. X starts 3f 04 (P-256) / 5f 04 (P-384).  1 key in 65536; for the distribution in the evidence and the keys."""
    return len(s) == 1 + 2 * size and s[0] == 0x04 and s[1] == len(s) - 2 and s[2] == 0x04


def point_strings(r: Any, tier: str) -> list[tuple[str, bytes]]:
    """Octet strings of the lengths around a bare and a wrapped point (64..67, 96..99), under the parameters of either curve,
    with POINT_OCTETS (and the two DER lengths that fit the string itself) at octets 0, 1, 2 and random octets after them."""
    out: list[tuple[str, bytes]] = []
    for curve in ("P-256", "P-384"):
        for ln in (64, 65, 66, 67, 96, 97, 98, 99):
            combos = [(a, b, c) for a in POINT_OCTETS for b in sorted(set(POINT_OCTETS) | {ln - 2, ln - 3}) for c in POINT_OCTETS]
            if tier == "quick":
                # everything that starts with 04 (what a token plausibly returns), a sample of the rest
                combos = [x for x in combos if x[0] == 0x04] + r.sample([x for x in combos if x[0] != 0x04], 6)
            for a, b, c in combos:
                out.append((curve, bytes([a, b, c]) + r.randbytes(ln - 3)))
    return out


def judge_point(res: Result, case: dict[str, Any], key: str, size: int, s: bytes, impl: Any) -> str:
    """The property on one lookup of an object whose CKA_EC_POINT is `s`: found with the token's key exactly when `s` is a point
    of the curve's size (bare or wrapped), the documented size error otherwise.  The derived key text is X || Y of the point
    — or, as recorded in known finding F4, the point with its 04 octet in front; nothing else."""
    kind, pt = point_layout(size, s)
    k = impl.get("ok") if isinstance(impl, dict) else None
    got = None if not k or k.get("publicKey") is None else base64.b64decode(k["publicKey"])
    if kind in ("bare", "wrapped"):
        assert pt is not None
        if got is None:
            res.violation("an EC key whose point the token returns " + kind + " was not found / has no public key", case, key=key, impl=impl, ec_point=hexs(s), point_layout=kind)
        elif got not in (pt[1:], pt):
            res.violation("derived public key is not the token's true key", case, key=key, impl=impl, ec_point=hexs(s), point_layout=kind, derived=hexs(got), true_x_y=hexs(pt[1:]))
    elif kind == "wrong-size":
        if isinstance(impl, dict) and "ok" in impl:
            res.violation("an octet string that is neither a bare nor a wrapped point of the curve's size was not refused", case, key=key, impl=impl, ec_point=hexs(s), derived=None if got is None else hexs(got))
    else:
        assert pt is not None
        if got is not None and got not in (pt[1:], pt):
            res.violation("derived public key is not the token's true key", case, key=key, impl=impl, ec_point=hexs(s), point_layout=kind, derived=hexs(got))
    return kind


def verify_sig(tk: Any, alg_v: int, msg: bytes, sig: bytes) -> bool:
    """Does `sig` verify over `msg` under the PUBLIC numbers of test key `tk` (RSASSA-PKCS1-v1_5 / ECDSA r||s with the
    hash of the DNSSEC algorithm)?  Independent of the repository and of the emulator: `cryptography` only."""
    from cryptography.exceptions import InvalidSignature
    from cryptography.hazmat.primitives import hashes
    from cryptography.hazmat.primitives.asymmetric import ec, padding, rsa, utils

    h = {"sha1": hashes.SHA1(), "sha256": hashes.SHA256(), "sha384": hashes.SHA384(), "sha512": hashes.SHA512()}[K.ALG_HASH[alg_v]]
    try:
        if tk.kind == "rsa":
            rsa.RSAPublicNumbers(tk.e, tk.n).public_key().verify(sig, msg, padding.PKCS1v15(), h)
        else:
            if len(sig) != 2 * tk.size:
                return False
            der = utils.encode_dss_signature(int.from_bytes(sig[: tk.size], "big"), int.from_bytes(sig[tk.size :], "big"))
            curve = ec.SECP256R1() if tk.curve == "P-256" else ec.SECP384R1()
            ec.EllipticCurvePublicNumbers(tk.x, tk.y, curve).public_key().verify(der, msg, ec.ECDSA(h))
    except (InvalidSignature, ValueError):
        return False
    return True


def run(tier: str, driver_ok: bool) -> Result:
    import PyKCS11.LowLevel as LL

    from kskm.common.data import AlgorithmDNSSEC
    from kskm.misc import hsm as H

    res = Result("C15")
    res.rule = (
        "(a) token layouts: 1..3 slots x {ok, login refused, open refused} x (public, private) object counts in {0,1,2}^2 (exhaustive for <=2 slots, "
        "sampled for 3 in quick), two-module layouts, EC/RSA attribute profiles; public and private lookups; (b) 12 algorithms x hash on host/token x "
        "RSA 1024/2048/3072/4096 x message lengths 0..300; (c) env maps that add/override/leave; (d) split placement: public and private object of one key "
        "in the same / another slot / another module (1x3 and 2x2 slots; every pair of positions, public object absent too) x equal / different per-slot handle numbers "
        "x remaining handle numbers held by unrelated private keys / public objects x a slot refusing login / a second public object x 8 key profiles "
        "(RSA, RSA private without exponent, P-256/P-384 private with / without EC point, wrapped / bare) x hash on host / token / unset, through "
        "load_pkcs11_key + sign_using_p11: C_Sign must reach slot+handle of the PRIVATE object and the signature must verify under the label's public key; "
        "(e) octet patterns of CKA_EC_POINT: real P-256 / P-384 keys whose X has 04 / 41 / 61 / 00 at octet 0, 1, 2 (+ control), bare and wrapped, public lookup / private object with point / "
        "load_pkcs11_key + sign (signature verified); octet strings of lengths 64..67, 96..99 with those octets (and len-2, len-3) at octets 0..2 under either curve: found with X||Y exactly when the "
        "string is a bare or wrapped point of the curve's size, else the size error; the point size decides: 65 / 97 octets starting 04 are the bare point whatever follows — the real keys "
        "P-256 d=20220 (X = 3f04…) and P-384 d=401701 (X = 5f04…), whose bare point starts like a DER wrapper (F24), bare and wrapped in every run; "
        "non-trivial = distinct case"
    )
    r = lib.rng("C15")
    lines: list[dict[str, Any]] = []
    checks: list[dict[str, Any]] = []

    # ---- (a) lookups ---------------------------------------------------------------------------
    for lay in layouts(r, tier):
        for public in (True, False):
            world, desc, info = build_world(lay)
            cfg = mk_cfg(desc)
            got: dict[str, Any] = {}
            with world.installed():

                def go() -> Any:
                    p11 = H.init_pkcs11_modules(cfg)
                    got["init"] = True
                    return H.get_p11_key("L", p11, public=public, hash_using_hsm=None)

                impl = lib.run_impl(go, key_j)
            case = {"layout": lay, "public": public}
            res.count(case)
            res.bump("kind:" + lay["kind"])
            exp = expected_lookup(lay, public)
            kind = lay["kind"]
            plain = kind in ("rsa", "ec_wrapped", "ec_bare", "ec_priv_point", "ec_p384", "rsa_bigexp")
            if exp == "init-fails":
                if "ok" in impl:
                    res.violation("lookup succeeded although a module has no usable slot", case, key="init", impl=impl)
            elif plain:
                if exp == "none" and impl != {"ok": None}:
                    res.violation("no object with the label in any usable slot, but the lookup did not answer 'not found'", case, key="none", impl=impl)
                if exp == "duplicate" and "ok" in impl:
                    res.violation("two objects under one label in the first slot that has any: not an error", case, key="duplicate", impl=impl)
                if isinstance(exp, tuple):
                    if "ok" not in impl or impl["ok"] is None:
                        res.violation("exactly one object with the label in the first slot that has any, but it was not returned", case, key="found", impl=impl)
                    else:
                        k = impl["ok"]
                        if (k["module"], k["slot"]) != (exp[1], exp[2]):
                            res.violation("key returned from another slot than the first one that has any", case, key="slot", impl=impl, expected=exp)
                        tk = info["tk"]
                        if tk.kind == "rsa":
                            true_pk = base64.b64encode(tk.dnskey_public_key()).decode()
                            pk_ok = k["publicKey"] == true_pk
                        else:
                            # private EC objects without a point yield no public key; otherwise the SEC 1 point of the token's key
                            if not public and kind != "ec_priv_point":
                                pk_ok = k["publicKey"] is None
                            else:
                                pk_ok = k["publicKey"] is not None and base64.b64decode(k["publicKey"])[-2 * tk.size :] == tk.ec_point(prefix=False)
                        if not pk_ok:
                            res.violation("derived public key is not the token's true key", case, key="pubkey", impl=impl)
            else:
                # unusual attribute profiles: never a key of the wrong material; unknown curve / short point / symmetric types are errors
                if isinstance(exp, tuple) and kind in ("ec_unknown_curve", "ec_short_point", "secret") and "ok" in impl and impl["ok"] is not None and impl["ok"]["publicKey"] is not None:
                    res.violation("malformed or foreign key material accepted", case, key=kind, impl=impl)
            lines.append({"op": "get_p11_key", "hsm": C.hsm_j(cfg), "label": "L", "public": public, "hashUsingHsm": None, "log": C.canon_log(world.log)})
            checks.append({"case": case, "impl": impl, "log": C.canon_log(world.log), "what": "get_p11_key"})
            if len(res.samples) < 2 and isinstance(exp, tuple):
                res.sample({"case": case, "impl": impl, "expected": exp})

    # ---- (b) octets handed to the token ------------------------------------------------------------
    sizes = [1024, 2048, 3072, 4096]
    msg_lens = [0, 1, 55, 56, 64, 119, 120, 300]
    for alg in AlgorithmDNSSEC:
        for on_hsm in (False, True, None):
            # bits < 0: the (-bits - 1)-th fixture whose modulus has a clear top bit (2047 / 3070 bits in 256 / 384 octets) — the
            # block handed to the token is as long as the modulus in OCTETS, which is not bit_length // 8 for these keys
            for bits in (sizes + [-1 - i for i in range(len(K.rsa_keys_topclear()))]) if alg.value in (5, 8, 10) else [0]:
                for ml in (msg_lens if tier == "thorough" else r.sample(msg_lens, 3)):
                    msg = r.randbytes(ml)
                    if alg.value in (13, 14):
                        tk = K.ec_keys("P-256" if alg.value == 13 else "P-384")[1]
                    elif bits < 0:
                        tk = K.rsa_keys_topclear()[-bits - 1]
                    elif bits:
                        tk = r.choice(K.rsa_keys(bits))
                    else:
                        tk = K.rsa_keys(1024, 65537)[2]
                    es = p11emu.EmuSlot(0)
                    if tk.kind == "rsa":
                        es.add_rsa("L", tk)
                    else:
                        es.add_ec("L", tk)
                    world = p11emu.World([p11emu.EmuModule("emu0", [es])])
                    cfg = mk_cfg([{"path": "emu0"}])
                    with world.installed(), C.Oracles() as orc:

                        def go2() -> Any:
                            p11 = H.init_pkcs11_modules(cfg)
                            key = H.get_p11_key("L", p11, public=False, hash_using_hsm=on_hsm)
                            if key.public_key is None:
                                pub = H.get_p11_key("L", p11, public=True, hash_using_hsm=on_hsm)
                                key = key.replace(public_key=pub.public_key)
                            return H.sign_using_p11(key, msg, alg)

                        impl = lib.run_impl(go2, hexs)
                        orcs = orc.take()
                    case = {"alg": alg.value, "hash_using_hsm": on_hsm, "bits": bits, "msg_len": ml}
                    res.count(case)
                    res.bump(f"sign:alg{alg.value}")
                    signs = [rec for rec in world.log if rec["op"] == "sign"]
                    # the property: what was handed over
                    if alg.value in (8, 10, 5, 13, 14) and (alg.value != 5 or True):
                        if "ok" not in impl or len(signs) != 1:
                            if alg.value in (8, 10, 13, 14):
                                res.violation("signing with a supported algorithm did not reach the token exactly once", case, key=f"reach:alg{alg.value}", impl=impl)
                        else:
                            s = signs[0]
                            data = bytes.fromhex(s["data"])
                            h = K.ALG_HASH[alg.value]
                            if on_hsm:
                                want_mech = {5: LL.CKM_SHA1_RSA_PKCS, 8: LL.CKM_SHA256_RSA_PKCS, 10: LL.CKM_SHA512_RSA_PKCS, 13: LL.CKM_ECDSA_SHA256, 14: LL.CKM_ECDSA_SHA384}[alg.value]
                                want_data = msg
                            elif tk.kind == "rsa":
                                want_mech = LL.CKM_RSA_X_509
                                want_data = tk.emsa(h, msg)
                            else:
                                want_mech = LL.CKM_ECDSA
                                want_data = hashlib.new(h, msg).digest()
                            if s["mechanism"] != int(want_mech) or data != want_data:
                                res.violation("octets / mechanism handed to the token are not the documented ones", case, key=f"octets:alg{alg.value}:{on_hsm}", got={"mechanism": s["mechanism"], "data": s["data"][:80]}, want={"mechanism": int(want_mech), "data": hexs(want_data)[:80]})
                            if tk.kind == "rsa" and not on_hsm and len(data) != tk.k:
                                res.violation("raw RSA block is not full modulus length", case, key="emsa-length", got=len(data), want=tk.k)
                    elif alg.value not in (15, 16):  # EdDSA: the code has a CKM_EDDSA path; outside this property and the model
                        if signs:
                            res.violation("unsupported algorithm reached the token", case, key=f"unsupported:alg{alg.value}", impl=impl)
                    lines.append({"op": "sign_using_p11", "hsm": C.hsm_j(cfg), "label": "L", "hashUsingHsm": on_hsm, "data": hexs(msg), "algorithm": alg.value, "log": C.canon_log(world.log), **orcs})
                    checks.append({"case": case, "impl": impl, "log": C.canon_log(world.log), "what": "sign_using_p11"})
    # the same through the signer's own loading path (load_pkcs11_key -> sign_using_p11): the hashing mode configured for the
    # KSK must reach the token whatever the token profile (EC private object with / without point, RSA with / without public
    # exponent on the private object), also when the public key has to be re-queried from the public object
    from datetime import datetime, timezone

    from kskm.common.config_misc import KSKKey, KSKPolicy
    from kskm.ksr.data import RequestBundle
    from kskm.signer.key import load_pkcs11_key

    inc = datetime(2024, 1, 1, tzinfo=timezone.utc)
    bundle = RequestBundle(id="b", inception=inc, expiration=datetime(2024, 1, 22, tzinfo=timezone.utc), keys=set(), signatures=set(), signers=None)
    for alg_v, tk in ((8, K.rsa_keys(2048, 65537)[0]), (10, K.rsa_keys(1024, 65537)[2]), (13, K.ec_keys("P-256")[1]), (14, K.ec_keys("P-384")[1])):
        for on_hsm in (False, True, None):
            for profile in ("pub_attrs", "no_pub_attrs"):
                for wrapped in (True, False) if tk.kind == "ec" else (True,):
                    msg = r.randbytes(r.choice([0, 33, 200]))
                    es = p11emu.EmuSlot(0)
                    if tk.kind == "rsa":
                        es.add_rsa("L", tk, priv_has_pub_attrs=True)
                        if profile == "no_pub_attrs":
                            continue  # (an RSA private object without exponent is a TypeError in /repo: covered by the lookup stream)
                    else:
                        es.add_ec("L", tk, wrapped_point=wrapped, priv_has_point=(profile == "pub_attrs"))
                    world = p11emu.World([p11emu.EmuModule("emu0", [es])])
                    cfg = mk_cfg([{"path": "emu0"}])
                    ksk = KSKKey(description="d", label="L", algorithm=AlgorithmDNSSEC(alg_v), valid_from=inc, rsa_size=(tk.k * 8 if tk.kind == "rsa" else None), rsa_exponent=(tk.e if tk.kind == "rsa" else None), hash_using_hsm=on_hsm)
                    with world.installed(), C.Oracles() as orc:

                        def go3() -> Any:
                            p11 = H.init_pkcs11_modules(cfg)
                            ck = load_pkcs11_key(ksk, p11, KSKPolicy(), bundle, public=False)
                            return H.sign_using_p11(ck.p11, msg, AlgorithmDNSSEC(alg_v))

                        impl = lib.run_impl(go3, hexs)
                        orcs = orc.take()
                    case = {"via": "load_pkcs11_key", "alg": alg_v, "hash_using_hsm": on_hsm, "profile": profile, "wrapped": wrapped, "msg_len": len(msg)}
                    res.count(case)
                    res.bump("sign-via-load")
                    signs = [rec for rec in world.log if rec["op"] == "sign"]
                    if "ok" not in impl or len(signs) != 1:
                        res.violation("signing with a supported algorithm did not reach the token exactly once", case, key=f"reach-load:alg{alg_v}", impl=impl)
                    else:
                        sg = signs[0]
                        h = K.ALG_HASH[alg_v]
                        if on_hsm:
                            want_mech = {8: LL.CKM_SHA256_RSA_PKCS, 10: LL.CKM_SHA512_RSA_PKCS, 13: LL.CKM_ECDSA_SHA256, 14: LL.CKM_ECDSA_SHA384}[alg_v]
                            want_data = msg
                        elif tk.kind == "rsa":
                            want_mech, want_data = LL.CKM_RSA_X_509, tk.emsa(h, msg)
                        else:
                            want_mech, want_data = LL.CKM_ECDSA, hashlib.new(h, msg).digest()
                        if sg["mechanism"] != int(want_mech) or bytes.fromhex(sg["data"]) != want_data:
                            res.violation("octets / mechanism handed to the token are not the documented ones", case, key=f"octets-load:alg{alg_v}:{on_hsm}", got={"mechanism": sg["mechanism"], "data": sg["data"][:80]}, want={"mechanism": int(want_mech), "data": hexs(want_data)[:80]})

    # ---- (d) the two halves of one key in different slots / modules --------------------------------------
    # PKCS#11 object handles mean something only in the session (slot) that returned them: whatever the tool combines
    # from the public and the private object of a label, the private-key operation has to reach the slot AND handle of the
    # PRIVATE object, and what comes back has to verify under the label's public key.
    kpol = KSKPolicy()
    kpol_j = {"signaturePolicy": lib.sigpolicy_j(kpol.signature_policy), "ttl": kpol.ttl, "signersName": kpol.signers_name}
    for sc in split_cases(r, tier):
        msg = r.randbytes(r.choice([0, 33, 200]))
        world, cfg, tk, ksk, impl_load, n_load, impl_sign, orcs = exec_split(sc, msg)
        alg_v, on_hsm = sc["alg"], sc["hash_using_hsm"]
        case = dict(sc, msg=hexs(msg))
        exp = expected_split(sc)
        relation = split_relation(sc)
        key = f"split:{relation}:{sc['profile']}"
        res.count(case)
        res.bump("split")
        res.bump("split:public-object:" + relation)
        res.bump("split:handle-numbers:" + ("equal" if sc["pub_handle"] == sc["priv_handle"] else "different"))
        res.bump("split:other-handles:" + sc["fillers"])
        res.bump("split:profile:" + sc["profile"])
        res.bump("split:expected:" + exp["outcome"])
        if sc["refused"]:
            res.bump("split:a-slot-refuses-login")
        if sc["extra_pub"]:
            res.bump("split:second-public-object")
        signs = [rec for rec in world.log if rec["op"] == "sign"]
        # 1. every private-key operation goes to the slot and handle of the private object of the label
        priv_at = {"module": f"emu{sc['priv'][0]}", "slot": sc["priv"][1], "handle": sc["priv_handle"]}
        for sg in signs:
            at = {"module": sg["module"], "slot": sg["slot"], "handle": sg["handle"]}
            if exp["outcome"] in ("init-fails", "no-private-object") or at != priv_at:
                holder = world.modules[sg["module"]].slot(sg["slot"]).objects.get(sg["handle"])
                res.violation(
                    "C_Sign was not sent to the slot and handle of the private object of the label", case, key=key, sign_sent_to=at, private_object_of_label=priv_at,
                    object_under_that_handle_there=None if holder is None else {"label": holder.label, "class": "private" if holder.cls == int(LL.CKO_PRIVATE_KEY) else "public"},
                    combined_key=impl_load.get("ok", impl_load) if isinstance(impl_load, dict) else impl_load, impl=impl_sign,
                )
        # 2. where the property says the key is found and usable: exactly one C_Sign, documented mechanism and octets,
        #    and the signature verifies under the public key of the label
        if exp["outcome"] == "signs":
            ck_j = impl_load.get("ok") if isinstance(impl_load, dict) else None
            if not ck_j:
                res.violation("exactly one private object with the label in the first slot that has any (and a public key for it), but no key was loaded", case, key=key, impl=impl_load)
            else:
                p = ck_j["p11"]
                true_pk = base64.b64encode(tk.dnskey_public_key()).decode() if tk.kind == "rsa" else None
                pk_ok = p["publicKey"] == true_pk if tk.kind == "rsa" else (p["publicKey"] is not None and base64.b64decode(p["publicKey"])[-2 * tk.size :] == tk.ec_point(prefix=False))
                if (p["module"], p["slot"], p["privHandle"]) != (priv_at["module"], priv_at["slot"], priv_at["handle"]):
                    res.violation("the loaded key does not reference the slot and handle of the private object of the label", case, key=key, loaded=p, private_object_of_label=priv_at)
                if not pk_ok:
                    res.violation("derived public key is not the token's true key", case, key=key, loaded=p)
                if not (isinstance(impl_sign, dict) and "ok" in impl_sign) or len(signs) != 1:
                    res.violation("signing with a supported algorithm did not reach the token exactly once", case, key=key, impl=impl_sign, sign_operations=len(signs))
                else:
                    sg = signs[0]
                    h = K.ALG_HASH[alg_v]
                    if on_hsm:
                        want_mech = {8: LL.CKM_SHA256_RSA_PKCS, 10: LL.CKM_SHA512_RSA_PKCS, 13: LL.CKM_ECDSA_SHA256, 14: LL.CKM_ECDSA_SHA384}[alg_v]
                        want_data = msg
                    elif tk.kind == "rsa":
                        want_mech, want_data = LL.CKM_RSA_X_509, tk.emsa(h, msg)
                    else:
                        want_mech, want_data = LL.CKM_ECDSA, hashlib.new(h, msg).digest()
                    if sg["mechanism"] != int(want_mech) or bytes.fromhex(sg["data"]) != want_data:
                        res.violation("octets / mechanism handed to the token are not the documented ones", case, key=key, got={"mechanism": sg["mechanism"], "data": sg["data"][:80]}, want={"mechanism": int(want_mech), "data": hexs(want_data)[:80]})
                    if not verify_sig(tk, alg_v, msg, bytes.fromhex(impl_sign["ok"])):
                        res.violation("the signature obtained from the token does not verify under the public key of the label", case, key=key, sign_sent_to={"module": sg["module"], "slot": sg["slot"], "handle": sg["handle"]}, private_object_of_label=priv_at)
                    else:
                        res.bump("split:signature-verifies-under-the-label's-key")
        elif exp["outcome"] in ("no-public-key", "no-private-object", "init-fails"):
            if isinstance(impl_load, dict) and impl_load.get("ok"):
                res.violation("a key was loaded although the label has no usable private object / no public key on the token", case, key=key, impl=impl_load)
        # 3. the tie: the model replays the log of the loading, and of loading + signing
        log = C.canon_log(world.log)
        lines.append({"op": "load_pkcs11_key", "hsm": C.hsm_j(cfg), "ksk": C.ksk_j(ksk), "kskPolicy": kpol_j, "bundle": lib.bundle_j(bundle), "public": False, "log": log[:n_load]})
        checks.append({"case": case, "impl": impl_load, "log": log[:n_load], "what": "load_pkcs11_key"})
        if impl_sign is not None:
            lines.append({"op": "sign_using_p11", "hsm": C.hsm_j(cfg), "label": "L", "hashUsingHsm": on_hsm, "data": hexs(msg), "algorithm": alg_v, "log": log, **orcs})
            checks.append({"case": case, "impl": impl_sign, "log": log, "what": "sign_using_p11"})
        if res.stats.get("split:sampled", 0) < 2 and relation in ("other-slot", "other-module") and exp["outcome"] == "signs" and exp.get("public_from") == "public-object":
            res.stats["split:sampled"] = res.stats.get("split:sampled", 0) + 1
            res.sample({"case": case, "expected": exp, "signs": [{k: sg[k] for k in ("module", "slot", "handle", "mechanism")} for sg in signs], "loaded": (impl_load.get("ok") or {}).get("p11") if isinstance(impl_load, dict) else None}, limit=8)

    # ---- (e) octet patterns of CKA_EC_POINT ---------------------------------------------------------------
    # Whether the token returns the point bare (04 X Y) or DER-wrapped (04 <len> 04 X Y) must be told from the LAYOUT of the
    # octet string, never from octets of the key itself: on a bare point the first octets of X sit where a wrapped point
    # carries its length and the inner 04.  Real keys whose X has 04 / 41 / 61 / 00 at octet 0, 1, 2, each bare and wrapped.
    for tag, tk in pattern_keys(r):
        alg_v = 13 if tk.curve == "P-256" else 14
        pt = tk.ec_point(prefix=True)
        for wrapped in (False, True):
            attr = bytes([4, len(pt)]) + pt if wrapped else pt
            base_case = {"ec_point_pattern": tag, "curve": tk.curve, "wrapped": wrapped, "private_scalar": "%x" % tk.dd, "x_starts": hexs(pt[1:4]), "ec_point": hexs(attr)}
            pkey = f"point:{tk.curve}:{'wrapped' if wrapped else 'bare'}" + (f":x-starts-{hexs(pt[1:3])}" if reads_as_wrapper(tk.size, pt) else "")
            for public in (True, False):  # the public object; a private object that carries the point itself
                es = p11emu.EmuSlot(0)
                es.add_rsa("Other", K.rsa_keys(1024, 65537)[3])
                es.add_ec("L", tk, wrapped_point=wrapped, priv_has_point=True)
                world = p11emu.World([p11emu.EmuModule("emu0", [es])])
                cfg = mk_cfg([{"path": "emu0"}])
                with world.installed():
                    impl = lib.run_impl(lambda: H.get_p11_key("L", H.init_pkcs11_modules(cfg), public=public, hash_using_hsm=None), key_j)
                case = dict(base_case, via="get_p11_key", public=public)
                res.count(case)
                for part in tag.split(":", 1)[1].split("+"):
                    res.bump("point:real-key:" + part)
                res.bump("point:real-key:" + ("wrapped" if wrapped else "bare"))
                res.bump("point:layout:" + judge_point(res, case, pkey, tk.size, attr, impl))
                if reads_as_wrapper(tk.size, attr):
                    res.bump("point:bare-that-also-reads-as-a-wrapper:real-key:" + ("found" if isinstance(impl, dict) and impl.get("ok") else "refused"))
                lines.append({"op": "get_p11_key", "hsm": C.hsm_j(cfg), "label": "L", "public": public, "hashUsingHsm": None, "log": C.canon_log(world.log)})
                checks.append({"case": case, "impl": impl, "log": C.canon_log(world.log), "what": "get_p11_key"})
            # the signer's path: the private object has no point, the public key comes from the public object, and what the
            # token signs verifies under the key's true public numbers
            on_hsm = r.choice([False, True, None])
            msg = r.randbytes(r.choice([0, 33, 200]))
            es = p11emu.EmuSlot(0)
            es.add_ec("L", tk, wrapped_point=wrapped, priv_has_point=False)
            world, cfg, _tk, ksk, impl_load, n_load, impl_sign, orcs = exec_load_sign(p11emu.World([p11emu.EmuModule("emu0", [es])]), [{"path": "emu0", "pin": "1234"}], tk, alg_v, on_hsm, msg)
            case = dict(base_case, via="load_pkcs11_key", hash_using_hsm=on_hsm, msg=hexs(msg))
            res.count(case)
            res.bump("point:real-key:signer-path")
            ck_j = impl_load.get("ok") if isinstance(impl_load, dict) else None
            judge_point(res, case, pkey, tk.size, attr, {"ok": ck_j["p11"]} if ck_j else impl_load)
            signs = [rec for rec in world.log if rec["op"] == "sign"]
            if not (isinstance(impl_sign, dict) and "ok" in impl_sign) or len(signs) != 1:
                res.violation("signing with a supported algorithm did not reach the token exactly once", case, key=pkey, impl=impl_sign if impl_sign is not None else impl_load, sign_operations=len(signs))
            elif not verify_sig(tk, alg_v, msg, bytes.fromhex(impl_sign["ok"])):
                res.violation("the signature obtained from the token does not verify under the public key of the label", case, key=pkey)
            log = C.canon_log(world.log)
            lines.append({"op": "load_pkcs11_key", "hsm": C.hsm_j(cfg), "ksk": C.ksk_j(ksk), "kskPolicy": kpol_j, "bundle": lib.bundle_j(bundle), "public": False, "log": log[:n_load]})
            checks.append({"case": case, "impl": impl_load, "log": log[:n_load], "what": "load_pkcs11_key"})
            if impl_sign is not None:
                lines.append({"op": "sign_using_p11", "hsm": C.hsm_j(cfg), "label": "L", "hashUsingHsm": on_hsm, "data": hexs(msg), "algorithm": alg_v, "log": log, **orcs})
                checks.append({"case": case, "impl": impl_sign, "log": log, "what": "sign_using_p11"})
            if res.stats.get("point:sampled", 0) < 2 and not wrapped and "x[1]" in tag:
                res.stats["point:sampled"] = res.stats.get("point:sampled", 0) + 1
                res.sample({"case": case, "loaded": ck_j["p11"] if ck_j else impl_load}, limit=10)
    # octet strings that are NOT points of the curve's size (and, as controls, some that are), same patterns at octets 0, 1, 2
    for curve, attr in point_strings(r, tier):
        es = p11emu.EmuSlot(0)
        es.add(p11emu.EmuObject(LL.CKO_PUBLIC_KEY, "L", LL.CKK_EC, {int(LL.CKA_EC_POINT): attr, int(LL.CKA_EC_PARAMS): K.EC_OID[curve]}, None))
        world = p11emu.World([p11emu.EmuModule("emu0", [es])])
        cfg = mk_cfg([{"path": "emu0"}])
        with world.installed():
            impl = lib.run_impl(lambda: H.get_p11_key("L", H.init_pkcs11_modules(cfg), public=True, hash_using_hsm=None), key_j)
        case = {"ec_point_string": hexs(attr), "length": len(attr), "curve": curve, "via": "get_p11_key", "public": True}
        res.count(case)
        raw = reads_as_wrapper(CURVE_SIZE[curve], attr)
        kind = judge_point(res, case, f"point-string:{curve}:len{len(attr)}" + (f":bare:x-starts-{hexs(attr[1:3])}" if raw else ""), CURVE_SIZE[curve], attr, impl)
        res.bump("point:octet-string:" + kind)
        res.bump("point:layout:" + kind)
        if raw:
            res.bump("point:bare-that-also-reads-as-a-wrapper:octet-string:" + ("found" if isinstance(impl, dict) and impl.get("ok") else "refused"))
        lines.append({"op": "get_p11_key", "hsm": C.hsm_j(cfg), "label": "L", "public": True, "hashUsingHsm": None, "log": C.canon_log(world.log)})
        checks.append({"case": case, "impl": impl, "log": C.canon_log(world.log), "what": "get_p11_key"})

    # symmetric key types never sign
    for kt in (H.KeyType.AES, H.KeyType.DES3):
        key = H.KSKM_P11Key(label="S", key_type=kt, key_class=H.KeyClass.SECRET, public_key=None)
        impl = lib.run_impl(lambda: H.sign_using_p11(key, b"x", AlgorithmDNSSEC.RSASHA256), hexs)
        res.count({"symmetric": kt.name})
        if "ok" in impl:
            res.violation("a symmetric key type was used to sign", {"key_type": kt.name}, key="symmetric", impl=impl)

    # ---- (c) environment -----------------------------------------------------------------------------
    env_cases = []
    for _ in range(40 if tier == "quick" else 400):
        base = {f"KSKM_T_{i}": r.choice(["a", "b", "", "x y"]) for i in range(4) if r.random() < 0.6}
        henv = {f"KSKM_T_{i}": r.choice(["A", "B", "", "long " * 5]) for i in range(6) if r.random() < 0.5}
        env_cases.append((base, henv))
    env_cases += [({}, {}), ({"KSKM_T_0": "v"}, {"KSKM_T_0": "v"}), ({}, {"KSKM_T_0": "1", "KSKM_T_1": "2"})]
    for base, henv in env_cases:
        saved = {k: os.environ.get(k) for k in [f"KSKM_T_{i}" for i in range(6)]}
        for k in saved:
            os.environ.pop(k, None)
        os.environ.update(base)
        before = {k: os.environ.get(k) for k in saved}
        world = p11emu.World([p11emu.EmuModule("emu0", [p11emu.EmuSlot(0)])])
        world.watch_env = list(saved)
        cfg = mk_cfg([{"path": "emu0"}], env=henv)
        with world.installed():
            impl = lib.run_impl(lambda: H.init_pkcs11_modules(cfg), lambda m: None)
        after = {k: os.environ.get(k) for k in saved}
        during = world.env_seen[0] if world.env_seen else None
        for k in saved:
            os.environ.pop(k, None)
        for k, v in saved.items():
            if v is not None:
                os.environ[k] = v
        case = {"env": base, "hsm_env": henv}
        res.count(case)
        res.bump("env")
        if after != before:
            res.violation("process environment not restored after module load", case, key="env-restore", before=before, after=after)
        want_during = dict(before)
        want_during.update(henv)
        if during != want_during:
            res.violation("environment not set while the module was loaded", case, key="env-during", during=during, want=want_during)
        lines.append({"op": "env_cycle", "env": [{"k": k, "v": v} for k, v in base.items()], "hsmEnv": [{"k": k, "v": v} for k, v in henv.items()]})
        checks.append({"case": case, "what": "env_cycle", "before": before, "during": want_during})

    # ---- (f) the rest of misc/hsm.py (hsmconfig files, find_key_by_id, name filter): harness/corr_C15_hsmconfig.py --
    HC.run_stream(res, tier, driver_ok)

    # ---- model -----------------------------------------------------------------------------------------
    if driver_ok:
        outs = lib.run_driver(lines, exe=DRIVER)
        for c, o in zip(checks, outs):
            if "driver_error" in o:
                res.disagreement("driver error", c["case"], c.get("impl"), o)
                continue
            if c["what"] == "env_cycle":
                d = {p["k"]: p["v"] for p in o["during"]}
                a = {p["k"]: p["v"] for p in o["after"]}
                if {k: v for k, v in c["during"].items() if v is not None} != d or {k: v for k, v in c["before"].items() if v is not None} != a:
                    res.disagreement("env model != implementation", c["case"], {"during": c["during"], "after": c["before"]}, o)
                continue
            m = o["result"]
            if lib.is_unsupported(m):
                if c["what"] == "sign_using_p11" and c["case"].get("alg") in (15, 16):
                    res.unsupported += 1  # EdDSA signing is outside the model
                else:
                    res.disagreement(f"{c['what']}: the model could not follow the implementation's run (replay / oracle miss)", c["case"], c["impl"], m, log_difference=C.first_log_difference(c["log"], o["log"]))
                continue
            d = C.first_log_difference(c["log"], o["log"])
            if not lib.same_outcome(c["impl"], m):
                res.disagreement(f"{c['what']}: model result != implementation", c["case"], c["impl"], m, log_difference=d)
            elif d is not None:
                res.disagreement(f"{c['what']}: model issues different token operations", c["case"], c["impl"], m, log_difference=d)
    return res


def replay(obj: dict[str, Any]) -> Any:
    v = obj.get("violation") or obj.get("disagreement") or {}
    c = v.get("case") or {}
    out: dict[str, Any] = {"recorded": obj}
    if isinstance(c, dict) and "hsmconfig" in c:
        out["now"] = HC.replay_case(c)
        return out
    if isinstance(c, dict) and c.get("via") == "get_p11_key" and ("ec_point_string" in c or "ec_point" in c):
        import PyKCS11.LowLevel as LL

        from kskm.misc import hsm as H

        attr = bytes.fromhex(c.get("ec_point_string") or c["ec_point"])
        es = p11emu.EmuSlot(0)
        for cls in (LL.CKO_PUBLIC_KEY, LL.CKO_PRIVATE_KEY):
            es.add(p11emu.EmuObject(cls, "L", LL.CKK_EC, {int(LL.CKA_EC_POINT): attr, int(LL.CKA_EC_PARAMS): K.EC_OID[c["curve"]]}, None))
        world = p11emu.World([p11emu.EmuModule("emu0", [es])])
        cfg = mk_cfg([{"path": "emu0"}])
        with world.installed():
            impl = lib.run_impl(lambda: H.get_p11_key("L", H.init_pkcs11_modules(cfg), public=bool(c.get("public", True)), hash_using_hsm=None), key_j)
        kind, pt = point_layout(CURVE_SIZE[c["curve"]], attr)
        out["now"] = {"CKA_EC_POINT": hexs(attr), "layout_by_the_property": kind, "true_x_y": None if pt is None else hexs(pt[1:]), "get_p11_key": impl}
    if isinstance(c, dict) and c.get("split"):
        sc = {k: x for k, x in c.items() if k != "msg"}
        msg = bytes.fromhex(c.get("msg", ""))
        world, _cfg, tk, _ksk, impl_load, _n, impl_sign, _orcs = exec_split(sc, msg)
        signs = [{k: rec.get(k) for k in ("module", "slot", "handle", "mechanism", "ans")} for rec in world.log if rec["op"] == "sign"]
        for sg in signs:
            sg["ans"] = (sg["ans"] or "")[:32] + "..." if isinstance(sg["ans"], str) and len(sg["ans"]) > 32 else sg["ans"]
        out["now"] = {
            "expected_by_the_property": expected_split(sc),
            "private_object_of_label": {"module": f"emu{sc['priv'][0]}", "slot": sc["priv"][1], "handle": sc["priv_handle"]},
            "sign_operations": signs,
            "loaded_key": (impl_load.get("ok") or {}).get("p11") if isinstance(impl_load, dict) and isinstance(impl_load.get("ok"), dict) else impl_load,
            "signature_verifies_under_the_label's_public_key": bool(isinstance(impl_sign, dict) and "ok" in impl_sign and verify_sig(tk, sc["alg"], msg, bytes.fromhex(impl_sign["ok"]))),
            "token_layout": [{"module": p, "slots": [{"slot": s_.slot_id, "loginOk": s_.login_ok, "objects": {h: [o.label, "private" if o.cls == 3 else "public"] for h, o in sorted(s_.objects.items())}} for s_ in m.slots]} for p, m in world.modules.items()],
        }
    return out
