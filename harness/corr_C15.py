"""C15 correspondence: the PKCS#11 layer finds the right key and hands the token the right octets.

(a) Layouts: 1..2 modules x 1..3 slots x {login ok, refused, open refused} x placements of 0..2 objects per
    (label, class) — exhaustive over a bounded grid; `get_p11_key()` for public and private lookups.  Oracle from the
    property text: found exactly when ONE object of the class carries the label in the first slot (module order,
    slot order, slots that refused login removed) that has ANY; two objects there are an error; the derived public
    key is the token's true key (RSA modulus/exponent; EC point wrapped or bare).
(b) Octets handed to the token: every algorithm x hash mode x RSA size x message length; raw RSA must be the
    full-modulus-length EMSA-PKCS1-v1_5 encoding of the matching digest, raw ECDSA the matching digest, hash-on-token
    the untouched data under the matching mechanism; symmetric key types are never used.
(c) Environment: module initialisation with env maps that add / override / leave variables: os.environ after ==
    before, and during load() the variables are set.
The Lean model replays each run's token log (get_p11_key / sign_using_p11 / p11_init ops) and answers env_cycle.
"""

from __future__ import annotations

import base64
import hashlib
import itertools
import os
from typing import Any

import ceremony as C
import keys as K
import lib
import p11emu
from lib import Result, hexs

DRIVER = C.DRIVER
ASSUMPTIONS = ["the token emulator stands in for a PKCS#11 device; PyKCS11 answers absent attributes with None"]
TRUSTED = ["harness/p11emu.py token emulator"]


def mk_cfg(mods: list[dict[str, Any]], env: dict[str, str] | None = None) -> Any:
    hsm = {}
    for i, m in enumerate(mods):
        h = {"module": m["path"], "pin": m.get("pin", "1234")}
        if env is not None and i == 0:
            h["env"] = env
        hsm[f"hsm{i}"] = h
    return C.make_config(hsm, {}, {})


def key_j(k: Any) -> Any:
    if k is None:
        return None
    return {
        "label": k.label,
        "keyType": k.key_type.name.lower(),
        "keyClass": k.key_class.value,
        "hashUsingHsm": k.hash_using_hsm,
        "publicKey": None if k.public_key is None else k.public_key.decode(),
        "module": k.session.lib.path,
        "slot": k.session.slot.slot_id,
        "privHandle": None if k.privkey_handle is None else int(k.privkey_handle.value()),
        "pubHandle": None if k.pubkey_handle is None else int(k.pubkey_handle.value()),
    }


def layouts(r: Any, tier: str) -> list[dict[str, Any]]:
    """Bounded exhaustive grid of token layouts for the label 'L'."""
    out = []
    tkR = K.rsa_keys(1024, 65537)[0]
    tkR2 = K.rsa_keys(1024, 65537)[1]
    tkE = K.ec_keys("P-256")[0]
    slot_states = ["ok", "login_refused", "open_refused"]
    # one module, 1..3 slots: each slot has a state and (n_public, n_private) objects under the label
    counts = [(0, 0), (1, 0), (0, 1), (1, 1), (2, 0), (0, 2), (2, 1), (1, 2)]
    for nslots in (1, 2, 3):
        combos = list(itertools.product(itertools.product(slot_states, counts), repeat=nslots))
        if tier == "quick" and len(combos) > 700:
            combos = r.sample(combos, 700)
        for combo in combos:
            out.append({"modules": [[{"state": st, "pub": c[0], "priv": c[1]} for st, c in combo]], "kind": "rsa"})
    # two modules
    two = list(itertools.product(itertools.product(slot_states[:2], counts[:6]), repeat=2))
    if tier == "quick":
        two = r.sample(two, 80)
    for a, b in two:
        out.append({"modules": [[{"state": a[0], "pub": a[1][0], "priv": a[1][1]}], [{"state": b[0], "pub": b[1][0], "priv": b[1][1]}]], "kind": r.choice(["rsa", "ec_wrapped", "ec_bare", "ec_priv_point"])})
    # EC profiles on single-slot layouts
    for kind in ("ec_wrapped", "ec_bare", "ec_priv_point", "ec_p384", "ec_unknown_curve", "ec_short_point", "rsa_priv_no_exponent", "rsa_bigexp", "secret"):
        for c in [(1, 1), (0, 1), (1, 0)]:
            out.append({"modules": [[{"state": "ok", "pub": c[0], "priv": c[1]}]], "kind": kind})
    return out


def build_world(lay: dict[str, Any]) -> tuple[p11emu.World, list[dict[str, Any]], dict[str, Any]]:
    import PyKCS11.LowLevel as LL

    kind = lay["kind"]
    tk: Any
    if kind.startswith("rsa"):
        tk = K.rsa_keys(1024, 65537)[0] if kind != "rsa_bigexp" else max(K.rsa_keys(), key=lambda k: k.e)
    elif kind == "ec_p384":
        tk = K.ec_keys("P-384")[0]
    else:
        tk = K.ec_keys("P-256")[0]
    mods = []
    desc = []
    for mi, slots in enumerate(lay["modules"]):
        eslots = []
        for si, s in enumerate(slots):
            es = p11emu.EmuSlot(si, login_ok=(s["state"] != "login_refused"), open_ok=(s["state"] != "open_refused"))
            # an unrelated object first so that handle numbers differ from counts
            es.add_rsa("Other", K.rsa_keys(1024, 65537)[3])
            for _ in range(s["pub"]):
                add(es, kind, tk, public=True)
            for _ in range(s["priv"]):
                add(es, kind, tk, public=False)
            eslots.append(es)
        mods.append(p11emu.EmuModule(f"emu{mi}", eslots))
        desc.append({"path": f"emu{mi}", "pin": "1234"})
    return p11emu.World(mods), desc, {"tk": tk}


def add(es: p11emu.EmuSlot, kind: str, tk: Any, public: bool) -> None:
    import PyKCS11.LowLevel as LL

    if kind == "rsa" or kind == "rsa_bigexp":
        es.add_rsa("L", tk, public=public, private=not public)
    elif kind == "rsa_priv_no_exponent":
        es.add_rsa("L", tk, public=public, private=not public, priv_has_pub_attrs=False)
    elif kind in ("ec_wrapped", "ec_p384"):
        es.add_ec("L", tk, public=public, private=not public, wrapped_point=True)
    elif kind == "ec_bare":
        es.add_ec("L", tk, public=public, private=not public, wrapped_point=False)
    elif kind == "ec_priv_point":
        es.add_ec("L", tk, public=public, private=not public, wrapped_point=True, priv_has_point=True)
    elif kind == "ec_unknown_curve":
        es.add_ec("L", tk, public=public, private=not public, params=bytes.fromhex("06052b8104000a"))
    elif kind == "ec_short_point":
        es.add(p11emu.EmuObject(LL.CKO_PUBLIC_KEY if public else LL.CKO_PRIVATE_KEY, "L", LL.CKK_EC, {int(LL.CKA_EC_POINT): b"\x04" + b"\x11" * 40, int(LL.CKA_EC_PARAMS): K.EC_OID["P-256"]}, tk))
    elif kind == "secret":
        es.add(p11emu.EmuObject(LL.CKO_PUBLIC_KEY if public else LL.CKO_PRIVATE_KEY, "L", LL.CKK_AES, {}, None))


def expected_lookup(lay: dict[str, Any], public: bool) -> Any:
    """From the property text: ('found', module, slot) / 'none' / 'duplicate' / 'init-fails'."""
    for mi, slots in enumerate(lay["modules"]):
        usable = [(si, s) for si, s in enumerate(slots) if s["state"] == "ok"]
        if not usable:
            return "init-fails"  # a module none of whose slots can be opened cannot be initialised
    for mi, slots in enumerate(lay["modules"]):
        for si, s in enumerate(slots):
            if s["state"] != "ok":
                continue
            n = s["pub"] if public else s["priv"]
            if n == 1:
                return ("found", f"emu{mi}", si)
            if n >= 2:
                return "duplicate"
    return "none"


def run(tier: str, driver_ok: bool) -> Result:
    import PyKCS11.LowLevel as LL

    from kskm.common.data import AlgorithmDNSSEC
    from kskm.misc import hsm as H

    res = Result("C15")
    res.rule = (
        "(a) token layouts: 1..3 slots x {ok, login refused, open refused} x (public, private) object counts in {0,1,2}^2 (exhaustive for <=2 slots, "
        "sampled for 3 in quick), two-module layouts, EC/RSA attribute profiles; public and private lookups; (b) 12 algorithms x hash on host/token x "
        "RSA 1024/2048/3072/4096 x message lengths 0..300; (c) env maps that add/override/leave; non-trivial = distinct case"
    )
    r = lib.rng("C15")
    lines: list[dict[str, Any]] = []
    checks: list[dict[str, Any]] = []

    # ---- (a) lookups ---------------------------------------------------------------------------
    for lay in layouts(r, tier):
        for public in (True, False):
            world, desc, info = build_world(lay)
            cfg = mk_cfg(desc)
            got: dict[str, Any] = {}
            with world.installed():

                def go() -> Any:
                    p11 = H.init_pkcs11_modules(cfg)
                    got["init"] = True
                    return H.get_p11_key("L", p11, public=public, hash_using_hsm=None)

                impl = lib.run_impl(go, key_j)
            case = {"layout": lay, "public": public}
            res.count(case)
            res.bump("kind:" + lay["kind"])
            exp = expected_lookup(lay, public)
            kind = lay["kind"]
            plain = kind in ("rsa", "ec_wrapped", "ec_bare", "ec_priv_point", "ec_p384", "rsa_bigexp")
            if exp == "init-fails":
                if "ok" in impl:
                    res.violation("lookup succeeded although a module has no usable slot", case, key="init", impl=impl)
            elif plain:
                if exp == "none" and impl != {"ok": None}:
                    res.violation("no object with the label in any usable slot, but the lookup did not answer 'not found'", case, key="none", impl=impl)
                if exp == "duplicate" and "ok" in impl:
                    res.violation("two objects under one label in the first slot that has any: not an error", case, key="duplicate", impl=impl)
                if isinstance(exp, tuple):
                    if "ok" not in impl or impl["ok"] is None:
                        res.violation("exactly one object with the label in the first slot that has any, but it was not returned", case, key="found", impl=impl)
                    else:
                        k = impl["ok"]
                        if (k["module"], k["slot"]) != (exp[1], exp[2]):
                            res.violation("key returned from another slot than the first one that has any", case, key="slot", impl=impl, expected=exp)
                        tk = info["tk"]
                        if tk.kind == "rsa":
                            true_pk = base64.b64encode(tk.dnskey_public_key()).decode()
                            pk_ok = k["publicKey"] == true_pk
                        else:
                            # private EC objects without a point yield no public key; otherwise the SEC 1 point of the token's key
                            if not public and kind != "ec_priv_point":
                                pk_ok = k["publicKey"] is None
                            else:
                                pk_ok = k["publicKey"] is not None and base64.b64decode(k["publicKey"])[-2 * tk.size :] == tk.ec_point(prefix=False)
                        if not pk_ok:
                            res.violation("derived public key is not the token's true key", case, key="pubkey", impl=impl)
            else:
                # unusual attribute profiles: never a key of the wrong material; unknown curve / short point / symmetric types are errors
                if isinstance(exp, tuple) and kind in ("ec_unknown_curve", "ec_short_point", "secret") and "ok" in impl and impl["ok"] is not None and impl["ok"]["publicKey"] is not None:
                    res.violation("malformed or foreign key material accepted", case, key=kind, impl=impl)
            lines.append({"op": "get_p11_key", "hsm": C.hsm_j(cfg), "label": "L", "public": public, "hashUsingHsm": None, "log": C.canon_log(world.log)})
            checks.append({"case": case, "impl": impl, "log": C.canon_log(world.log), "what": "get_p11_key"})
            if len(res.samples) < 2 and isinstance(exp, tuple):
                res.sample({"case": case, "impl": impl, "expected": exp})

    # ---- (b) octets handed to the token ------------------------------------------------------------
    sizes = [1024, 2048, 3072, 4096]
    msg_lens = [0, 1, 55, 56, 64, 119, 120, 300]
    for alg in AlgorithmDNSSEC:
        for on_hsm in (False, True, None):
            for bits in sizes if alg.value in (5, 8, 10) else [0]:
                for ml in (msg_lens if tier == "thorough" else r.sample(msg_lens, 3)):
                    msg = r.randbytes(ml)
                    if alg.value in (13, 14):
                        tk = K.ec_keys("P-256" if alg.value == 13 else "P-384")[1]
                    elif bits:
                        tk = r.choice(K.rsa_keys(bits))
                    else:
                        tk = K.rsa_keys(1024, 65537)[2]
                    es = p11emu.EmuSlot(0)
                    if tk.kind == "rsa":
                        es.add_rsa("L", tk)
                    else:
                        es.add_ec("L", tk)
                    world = p11emu.World([p11emu.EmuModule("emu0", [es])])
                    cfg = mk_cfg([{"path": "emu0"}])
                    with world.installed(), C.Oracles() as orc:

                        def go2() -> Any:
                            p11 = H.init_pkcs11_modules(cfg)
                            key = H.get_p11_key("L", p11, public=False, hash_using_hsm=on_hsm)
                            if key.public_key is None:
                                pub = H.get_p11_key("L", p11, public=True, hash_using_hsm=on_hsm)
                                key = key.replace(public_key=pub.public_key)
                            return H.sign_using_p11(key, msg, alg)

                        impl = lib.run_impl(go2, hexs)
                        orcs = orc.take()
                    case = {"alg": alg.value, "hash_using_hsm": on_hsm, "bits": bits, "msg_len": ml}
                    res.count(case)
                    res.bump(f"sign:alg{alg.value}")
                    signs = [rec for rec in world.log if rec["op"] == "sign"]
                    # the property: what was handed over
                    if alg.value in (8, 10, 5, 13, 14) and (alg.value != 5 or True):
                        if "ok" not in impl or len(signs) != 1:
                            if alg.value in (8, 10, 13, 14):
                                res.violation("signing with a supported algorithm did not reach the token exactly once", case, key=f"reach:alg{alg.value}", impl=impl)
                        else:
                            s = signs[0]
                            data = bytes.fromhex(s["data"])
                            h = K.ALG_HASH[alg.value]
                            if on_hsm:
                                want_mech = {5: LL.CKM_SHA1_RSA_PKCS, 8: LL.CKM_SHA256_RSA_PKCS, 10: LL.CKM_SHA512_RSA_PKCS, 13: LL.CKM_ECDSA_SHA256, 14: LL.CKM_ECDSA_SHA384}[alg.value]
                                want_data = msg
                            elif tk.kind == "rsa":
                                want_mech = LL.CKM_RSA_X_509
                                want_data = tk.emsa(h, msg)
                            else:
                                want_mech = LL.CKM_ECDSA
                                want_data = hashlib.new(h, msg).digest()
                            if s["mechanism"] != int(want_mech) or data != want_data:
                                res.violation("octets / mechanism handed to the token are not the documented ones", case, key=f"octets:alg{alg.value}:{on_hsm}", got={"mechanism": s["mechanism"], "data": s["data"][:80]}, want={"mechanism": int(want_mech), "data": hexs(want_data)[:80]})
                            if tk.kind == "rsa" and not on_hsm and len(data) != tk.k:
                                res.violation("raw RSA block is not full modulus length", case, key="emsa-length", got=len(data), want=tk.k)
                    elif alg.value not in (15, 16):  # EdDSA: the code has a CKM_EDDSA path; outside this property and the model
                        if signs:
                            res.violation("unsupported algorithm reached the token", case, key=f"unsupported:alg{alg.value}", impl=impl)
                    lines.append({"op": "sign_using_p11", "hsm": C.hsm_j(cfg), "label": "L", "hashUsingHsm": on_hsm, "data": hexs(msg), "algorithm": alg.value, "log": C.canon_log(world.log), **orcs})
                    checks.append({"case": case, "impl": impl, "log": C.canon_log(world.log), "what": "sign_using_p11"})
    # the same through the signer's own loading path (load_pkcs11_key -> sign_using_p11): the hashing mode configured for the
    # KSK must reach the token whatever the token profile (EC private object with / without point, RSA with / without public
    # exponent on the private object), also when the public key has to be re-queried from the public object
    from datetime import datetime, timezone

    from kskm.common.config_misc import KSKKey, KSKPolicy
    from kskm.ksr.data import RequestBundle
    from kskm.signer.key import load_pkcs11_key

    inc = datetime(2024, 1, 1, tzinfo=timezone.utc)
    bundle = RequestBundle(id="b", inception=inc, expiration=datetime(2024, 1, 22, tzinfo=timezone.utc), keys=set(), signatures=set(), signers=None)
    for alg_v, tk in ((8, K.rsa_keys(2048, 65537)[0]), (10, K.rsa_keys(1024, 65537)[2]), (13, K.ec_keys("P-256")[1]), (14, K.ec_keys("P-384")[1])):
        for on_hsm in (False, True, None):
            for profile in ("pub_attrs", "no_pub_attrs"):
                for wrapped in (True, False) if tk.kind == "ec" else (True,):
                    msg = r.randbytes(r.choice([0, 33, 200]))
                    es = p11emu.EmuSlot(0)
                    if tk.kind == "rsa":
                        es.add_rsa("L", tk, priv_has_pub_attrs=True)
                        if profile == "no_pub_attrs":
                            continue  # (an RSA private object without exponent is a TypeError in /repo: covered by the lookup stream)
                    else:
                        es.add_ec("L", tk, wrapped_point=wrapped, priv_has_point=(profile == "pub_attrs"))
                    world = p11emu.World([p11emu.EmuModule("emu0", [es])])
                    cfg = mk_cfg([{"path": "emu0"}])
                    ksk = KSKKey(description="d", label="L", algorithm=AlgorithmDNSSEC(alg_v), valid_from=inc, rsa_size=(tk.k * 8 if tk.kind == "rsa" else None), rsa_exponent=(tk.e if tk.kind == "rsa" else None), hash_using_hsm=on_hsm)
                    with world.installed(), C.Oracles() as orc:

                        def go3() -> Any:
                            p11 = H.init_pkcs11_modules(cfg)
                            ck = load_pkcs11_key(ksk, p11, KSKPolicy(), bundle, public=False)
                            return H.sign_using_p11(ck.p11, msg, AlgorithmDNSSEC(alg_v))

                        impl = lib.run_impl(go3, hexs)
                        orcs = orc.take()
                    case = {"via": "load_pkcs11_key", "alg": alg_v, "hash_using_hsm": on_hsm, "profile": profile, "wrapped": wrapped, "msg_len": len(msg)}
                    res.count(case)
                    res.bump("sign-via-load")
                    signs = [rec for rec in world.log if rec["op"] == "sign"]
                    if "ok" not in impl or len(signs) != 1:
                        res.violation("signing with a supported algorithm did not reach the token exactly once", case, key=f"reach-load:alg{alg_v}", impl=impl)
                    else:
                        sg = signs[0]
                        h = K.ALG_HASH[alg_v]
                        if on_hsm:
                            want_mech = {8: LL.CKM_SHA256_RSA_PKCS, 10: LL.CKM_SHA512_RSA_PKCS, 13: LL.CKM_ECDSA_SHA256, 14: LL.CKM_ECDSA_SHA384}[alg_v]
                            want_data = msg
                        elif tk.kind == "rsa":
                            want_mech, want_data = LL.CKM_RSA_X_509, tk.emsa(h, msg)
                        else:
                            want_mech, want_data = LL.CKM_ECDSA, hashlib.new(h, msg).digest()
                        if sg["mechanism"] != int(want_mech) or bytes.fromhex(sg["data"]) != want_data:
                            res.violation("octets / mechanism handed to the token are not the documented ones", case, key=f"octets-load:alg{alg_v}:{on_hsm}", got={"mechanism": sg["mechanism"], "data": sg["data"][:80]}, want={"mechanism": int(want_mech), "data": hexs(want_data)[:80]})

    # symmetric key types never sign
    for kt in (H.KeyType.AES, H.KeyType.DES3):
        key = H.KSKM_P11Key(label="S", key_type=kt, key_class=H.KeyClass.SECRET, public_key=None)
        impl = lib.run_impl(lambda: H.sign_using_p11(key, b"x", AlgorithmDNSSEC.RSASHA256), hexs)
        res.count({"symmetric": kt.name})
        if "ok" in impl:
            res.violation("a symmetric key type was used to sign", {"key_type": kt.name}, key="symmetric", impl=impl)

    # ---- (c) environment -----------------------------------------------------------------------------
    env_cases = []
    for _ in range(40 if tier == "quick" else 400):
        base = {f"KSKM_T_{i}": r.choice(["a", "b", "", "x y"]) for i in range(4) if r.random() < 0.6}
        henv = {f"KSKM_T_{i}": r.choice(["A", "B", "", "long " * 5]) for i in range(6) if r.random() < 0.5}
        env_cases.append((base, henv))
    env_cases += [({}, {}), ({"KSKM_T_0": "v"}, {"KSKM_T_0": "v"}), ({}, {"KSKM_T_0": "1", "KSKM_T_1": "2"})]
    for base, henv in env_cases:
        saved = {k: os.environ.get(k) for k in [f"KSKM_T_{i}" for i in range(6)]}
        for k in saved:
            os.environ.pop(k, None)
        os.environ.update(base)
        before = {k: os.environ.get(k) for k in saved}
        world = p11emu.World([p11emu.EmuModule("emu0", [p11emu.EmuSlot(0)])])
        world.watch_env = list(saved)
        cfg = mk_cfg([{"path": "emu0"}], env=henv)
        with world.installed():
            impl = lib.run_impl(lambda: H.init_pkcs11_modules(cfg), lambda m: None)
        after = {k: os.environ.get(k) for k in saved}
        during = world.env_seen[0] if world.env_seen else None
        for k in saved:
            os.environ.pop(k, None)
        for k, v in saved.items():
            if v is not None:
                os.environ[k] = v
        case = {"env": base, "hsm_env": henv}
        res.count(case)
        res.bump("env")
        if after != before:
            res.violation("process environment not restored after module load", case, key="env-restore", before=before, after=after)
        want_during = dict(before)
        want_during.update(henv)
        if during != want_during:
            res.violation("environment not set while the module was loaded", case, key="env-during", during=during, want=want_during)
        lines.append({"op": "env_cycle", "env": [{"k": k, "v": v} for k, v in base.items()], "hsmEnv": [{"k": k, "v": v} for k, v in henv.items()]})
        checks.append({"case": case, "what": "env_cycle", "before": before, "during": want_during})

    # ---- model -----------------------------------------------------------------------------------------
    if driver_ok:
        outs = lib.run_driver(lines, exe=DRIVER)
        for c, o in zip(checks, outs):
            if "driver_error" in o:
                res.disagreement("driver error", c["case"], c.get("impl"), o)
                continue
            if c["what"] == "env_cycle":
                d = {p["k"]: p["v"] for p in o["during"]}
                a = {p["k"]: p["v"] for p in o["after"]}
                if {k: v for k, v in c["during"].items() if v is not None} != d or {k: v for k, v in c["before"].items() if v is not None} != a:
                    res.disagreement("env model != implementation", c["case"], {"during": c["during"], "after": c["before"]}, o)
                continue
            m = o["result"]
            if lib.is_unsupported(m):
                if c["what"] == "sign_using_p11" and c["case"].get("alg") in (15, 16):
                    res.unsupported += 1  # EdDSA signing is outside the model
                else:
                    res.disagreement(f"{c['what']}: the model could not follow the implementation's run (replay / oracle miss)", c["case"], c["impl"], m, log_difference=C.first_log_difference(c["log"], o["log"]))
                continue
            d = C.first_log_difference(c["log"], o["log"])
            if not lib.same_outcome(c["impl"], m):
                res.disagreement(f"{c['what']}: model result != implementation", c["case"], c["impl"], m, log_difference=d)
            elif d is not None:
                res.disagreement(f"{c['what']}: model issues different token operations", c["case"], c["impl"], m, log_difference=d)
    return res


def replay(obj: dict[str, Any]) -> Any:
    return {"recorded": obj}
