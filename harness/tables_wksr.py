"""C20 table section: the WKSR configuration models of /repo (config_wksr.py) and how tools/wksr.py
configures the TLS server, as Lean data, regenerated on every run.

 * by introspection of the pydantic models: fields in definition order with required / default, the
   `Field(gt=…)` bound of `max_size`, the pattern of the whitelist entries;
 * by `ast` over tools/wksr.py: the expression assigned to `ssl_cert_reqs` and the keyword arguments of
   `uvicorn.run`; over wksr/server.py: the middleware classes `WKSR.__init__` adds;
 * by EXECUTION of the real `kskm.tools.wksr.main()` (harness/wksr_main.py: uvicorn stubbed, its `run`
   records): the `ssl_cert_reqs` handed over for `require_client_cert: true / false`, and the outcome
   for a document without that key.
"""

from __future__ import annotations

import ast
import ssl
import tempfile
from pathlib import Path
from typing import Any

import lib  # noqa: F401
from lib import REPO


def _lstr(s: str) -> str:
    from extract_tables import lstr

    return lstr(s)


def _default_repr(f: Any) -> tuple[bool, str]:
    """(has a default, its repr) — a default factory is called"""
    if f.is_required():
        return False, ""
    v = f.default_factory() if f.default_factory is not None else f.default
    return True, repr(v) if not isinstance(v, Path) else str(v)


def section() -> list[str]:
    import annotated_types
    import yaml
    from pydantic import StringConstraints

    import wksr_main
    import wksr_stubs

    wksr_stubs.install()
    from kskm.common import config_wksr as cw

    out: list[str] = []
    models = [("WKSR_Config", cw.WKSR_Config), ("WKSR_TLS", cw.WKSR_TLS), ("WKSR_KSR", cw.WKSR_KSR), ("WKSR_Templates", cw.WKSR_Templates), ("WKSR_Notify", cw.WKSR_Notify)]
    rows = []
    for mname, m in models:
        for fname, f in m.model_fields.items():
            has, rep = _default_repr(f)
            rows.append(f"  ({_lstr(mname)}, {_lstr(f.alias or fname)}, {'false' if has else 'true'}, {_lstr(rep)})")
    out.append("/-- config_wksr.py: (model, key as written in the document, REQUIRED (no default), repr of the default) -/")
    out.append("def wksrFields : List (String × String × Bool × String) := [")
    out.append(",\n".join(rows))
    out.append("]")

    tls, ksr = cw.WKSR_TLS.model_fields, cw.WKSR_KSR.model_fields
    ciphers = tls["ciphers"].default_factory() if tls["ciphers"].default_factory else tls["ciphers"].default
    rcc = tls["require_client_cert"]
    rcc_default = "none" if rcc.is_required() else f"some {'true' if rcc.default else 'false'}"
    wl = tls["client_whitelist"].default_factory() if tls["client_whitelist"].default_factory else tls["client_whitelist"].default
    gts = [m.gt for m in ksr["max_size"].metadata if isinstance(m, annotated_types.Gt)]
    others = [m for m in ksr["max_size"].metadata if not isinstance(m, annotated_types.Gt)]
    if len(gts) != 1 or others:
        raise RuntimeError(f"WKSR_KSR.max_size: constraints are not exactly one Gt: {ksr['max_size'].metadata!r}")
    # pattern of the whitelist entries: list[Annotated[str, StringConstraints(pattern=…)]]
    import typing

    (entry_t,) = typing.get_args(tls["client_whitelist"].annotation)
    cons = [a for a in typing.get_args(entry_t)[1:] if isinstance(a, StringConstraints)]
    if len(cons) != 1 or typing.get_args(entry_t)[0] is not str:
        raise RuntimeError(f"WKSR_TLS.client_whitelist: entries are not Annotated[str, StringConstraints]: {entry_t!r}")
    c = cons[0]
    unmodelled = {k: getattr(c, k) for k in ("strip_whitespace", "to_upper", "to_lower", "strict", "min_length", "max_length") if getattr(c, k) is not None}
    if unmodelled:
        raise RuntimeError(f"WKSR_TLS.client_whitelist: string constraints the model does not know: {unmodelled!r}")
    out.append(f"def wksrCiphersDefault : List String := [{', '.join(_lstr(x) for x in ciphers)}]")
    out.append("/-- `none`: WKSR_TLS.require_client_cert has NO default (the key is required) -/")
    out.append(f"def wksrRequireClientCertDefault : Option Bool := {rcc_default}")
    out.append(f"def wksrClientWhitelistDefault : List String := [{', '.join(_lstr(x) for x in wl)}]")
    out.append(f"def wksrMaxSizeDefault : Int := {int(ksr['max_size'].default)}")
    out.append(f"def wksrMaxSizeGt : Int := {int(gts[0])}")
    out.append(f"def wksrContentTypeDefault : String := {_lstr(ksr['content_type'].default)}")
    out.append(f"def wksrUploadPathDefault : String := {_lstr(str(ksr['upload_path'].default))}")
    out.append(f"def wksrWhitelistPattern : String := {_lstr(c.pattern)}")

    # ---- tools/wksr.py by ast
    tree = ast.parse((REPO / "src/kskm/tools/wksr.py").read_text())
    assigns = [n for n in ast.walk(tree) if isinstance(n, ast.Assign) and any(isinstance(t, ast.Name) and t.id == "ssl_cert_reqs" for t in n.targets)]
    if len(assigns) != 1:
        raise RuntimeError(f"tools/wksr.py: {len(assigns)} assignments to ssl_cert_reqs")
    runs = [n for n in ast.walk(tree) if isinstance(n, ast.Call) and ast.unparse(n.func) == "uvicorn.run"]
    if len(runs) != 1 or runs[0].args or any(k.arg is None for k in runs[0].keywords):
        raise RuntimeError("tools/wksr.py: not exactly one uvicorn.run(...) call with keyword arguments only")
    out.append("/-- tools/wksr.py: the expression assigned to `ssl_cert_reqs` (ast.unparse) -/")
    out.append(f"def wksrCertReqsExpr : String := {_lstr(ast.unparse(assigns[0].value))}")
    out.append("/-- tools/wksr.py: the keyword arguments of the one `uvicorn.run` call -/")
    out.append("def wksrUvicornKeywords : List (String × String) := [")
    out.append(",\n".join(f"  ({_lstr(str(k.arg))}, {_lstr(ast.unparse(k.value))})" for k in runs[0].keywords))
    out.append("]")
    # ---- wksr/server.py by ast: middleware added by WKSR.__init__, in order
    stree = ast.parse((REPO / "src/kskm/wksr/server.py").read_text())
    mws = [ast.unparse(n.args[0]) for n in ast.walk(stree) if isinstance(n, ast.Call) and isinstance(n.func, ast.Attribute) and n.func.attr == "add_middleware" and n.args]
    out.append("/-- wksr/server.py: the classes handed to `add_middleware` -/")
    out.append(f"def wksrMiddleware : List String := [{', '.join(_lstr(x) for x in mws)}]")
    out.append("/-- the `ssl.VerifyMode` numbers of this Python -/")
    out.append(f"def sslVerifyModes : List (String × Nat) := [(\"CERT_NONE\", {int(ssl.CERT_NONE)}), (\"CERT_OPTIONAL\", {int(ssl.CERT_OPTIONAL)}), (\"CERT_REQUIRED\", {int(ssl.CERT_REQUIRED)})]")

    # ---- by execution: the real main() with a recording uvicorn.run
    observed: list[str] = []
    with tempfile.TemporaryDirectory(prefix="kskm_tables_wksr_") as top:
        d = Path(top)
        base = wksr_main.make_site(d)
        for label, value in (("true", True), ("false", False), ("absent", None)):
            doc = {k: dict(v) for k, v in base.items()}
            if value is None:
                del doc["tls"]["require_client_cert"]
            else:
                doc["tls"]["require_client_cert"] = value
            (d / "wksr.yaml").write_text(yaml.safe_dump(doc))
            r = wksr_main.run_main(d / "wksr.yaml")
            if "kwargs" in r:
                observed.append(f"({_lstr(label)}, some {int(r['kwargs']['ssl_cert_reqs'])})")
            elif r.get("error") == "validation":
                observed.append(f"({_lstr(label)}, none)")
            else:
                raise RuntimeError(f"kskm.tools.wksr.main() with require_client_cert {label}: {r!r}")
    out.append("/-- kskm.tools.wksr.main() EXECUTED (uvicorn.run recording): `require_client_cert` of the document ↦ the")
    out.append("    `ssl_cert_reqs` handed to the server (`none`: the configuration was refused, no server started) -/")
    out.append(f"def wksrCertReqsObserved : List (String × Option Nat) := [{', '.join(observed)}]")
    out.append("")
    return out
