"""C14 correspondence: wire-format primitives — implementation vs. Lean model vs. dnspython.

Three-way comparison on generated keys / RR sets:
  * implementation (kskm.common.dnssec, signature, rsa_utils, ecdsa_utils, data.Key, ta.keydigest)
  * the model driver (lean/Kskm/Dnssec.lean, Signature.lean, Base64.lean)
  * dnspython (key_id, make_ds, _make_rrsig_signature_data) as the independent RFC implementation
impl != dnspython  -> the property fails on the implementation: a failing input (VIOLATION)
impl != model      -> the tie between model and code is broken (disagreement)

RRSIG to-be-signed octets (`make_raw_rrsig`), three streams:
  * random: RR sets of 1..6 related keys, field values over and beyond the wire ranges; the fields that are NOT part of the signed
    data (Signature.ttl, key_identifier, signature_data) are drawn independently of those that are (ttl != original_ttl in most cases);
  * one field at a time (`make_raw_rrsig_field`): around in-range base cases every field of the Signature and of one Key, and the key
    set itself, is varied ALONE: a field of the RFC 4034 3.1.8.1 signed data (algorithm, labels, original TTL, expiration, inception,
    key tag; key flags / protocol / algorithm / public key bit; key added / removed) must change the octets, every other field
    (Signature.ttl, identifiers, signature octets, sub-second parts, the same instants under another tzinfo, Key.ttl, Key.key_tag
    attribute, key order) must not -- both judged against dnspython and the model as well;
  * environment independence (`make_raw_rrsig_tz`): a deterministic sub-sample of the random stream and probe instants (harness/envtz.py:
    mid-January / mid-July, a +-1 h lattice around both DST switches of two years) are run with the PROCESS time zone switched
    (lib.ProcessTZ) to each of lib.non_utc_zones(); the octets must equal dnspython's (computed from integers), the model's (instants
    are integers there) and /repo's own under the unswitched zone.
"""

from __future__ import annotations

import base64
import hashlib
from datetime import timezone
from typing import Any

import envtz
import lib
from lib import Result, hexs, key_j, run_driver, run_impl, same_outcome, sig_j, us_dt, us_td

ASSUMPTIONS = [
    "dnspython 2.8 is a correct independent implementation of RFC 4034 App. B, RFC 4509 and RFC 4034 §3.1.8.1/§6.3",
    "SHA-256 itself is not modelled: the model yields the DS digest *input*, the harness hashes it",
    "the process time zone is switched with TZ + tzset (lib.ProcessTZ, which verifies that libc's localtime follows); zones are the four of lib.non_utc_zones()",
]
TRUSTED = ["dnspython as RFC oracle in corr_C14"]


def mk_key(alg: int, flags: int, pk: bytes, *, protocol: int = 3, tag: int = 0, ident: str = "k", ttl: int = 172800, validate: bool = True) -> Any:
    from kskm.common.data import AlgorithmDNSSEC, Key

    kw = dict(
        key_identifier=ident,
        key_tag=tag,
        ttl=ttl,
        flags=flags,
        protocol=protocol,
        algorithm=AlgorithmDNSSEC(alg),
        public_key=base64.b64encode(pk),
    )
    if validate:
        return Key(**kw)
    return Key.model_construct(**kw)


def gen_pubkeys(r: Any, n: int) -> list[bytes]:
    out = [b"", b"\x00", b"\xff", b"\xff" * 2, b"\xff" * 255, b"\xff" * 256, b"\xff" * 257, b"\xff" * 520, b"\x00" * 64, b"\x80" + b"\x00" * 300]
    # carry-provoking: sums crossing 2^16 and 2^17 boundaries at odd/even lengths
    for ln in (127, 128, 129, 255, 256, 257, 258, 511, 512, 513, 1023, 1024, 1025):
        out.append(b"\xff" * ln)
        out.append(bytes([0xFF, 0x00] * (ln // 2 + 1))[:ln])
        out.append(bytes([0x00, 0xFF] * (ln // 2 + 1))[:ln])
    while len(out) < n:
        ln = r.choice([r.randrange(0, 40), r.randrange(40, 300), r.randrange(256, 530), r.choice([64, 65, 96, 97, 128, 131, 260, 516])])
        out.append(r.randbytes(ln))
    return out


def dns_key(flags: int, protocol: int, alg: int, pk: bytes) -> Any:
    import dns.rdataclass
    import dns.rdatatype
    from dns.rdtypes.ANY.DNSKEY import DNSKEY

    return DNSKEY(dns.rdataclass.IN, dns.rdatatype.DNSKEY, flags, protocol, alg, pk)


def run(tier: str, driver_ok: bool) -> Result:
    import dns.dnssec
    import dns.name
    import dns.rdataclass
    import dns.rdatatype
    import dns.rrset
    from dns.rdtypes.ANY.RRSIG import RRSIG

    from kskm.common.config_misc import KSKKey
    from kskm.common.data import AlgorithmDNSSEC, Key, Signature, TypeDNSSEC
    from kskm.common.dnssec import calculate_key_tag, key_to_rdata, public_key_to_dnssec_key
    from kskm.common.ecdsa_utils import ecdsa_public_key_without_prefix
    from kskm.common.rsa_utils import KSKM_PublicKey_RSA
    from kskm.common.signature import make_raw_rrsig
    from kskm.ta.keydigest import create_trustanchor_keydigest

    res = Result("C14")
    res.rule = (
        "generated keys (random / all-0xFF / carry-provoking octets, lengths 0..1025, odd and even), all accepted flag values, "
        "all 12 algorithm numbers, RSA exponents of 1..300 octets incl. the 3-octet length form, EC points with and without 0x04, "
        "RR sets of 1..6 keys in shuffled order, RRSIG field values over and beyond their wire ranges with the unsigned fields (Signature.ttl, "
        "identifier, signature octets) drawn independently of the signed ones; every Signature / Key field and the key set varied alone around "
        "in-range bases (signed fields must change the octets, unsigned ones must not); make_raw_rrsig re-run with the process time zone "
        "switched to America/New_York, Australia/Lord_Howe, Asia/Kolkata, Europe/Berlin on a sub-sample and on instants inside / outside "
        "daylight saving time and +-1 h around the DST switches; a case is non-trivial when its canonical input is new (hash of the input line)"
    )
    r = lib.rng("C14")
    scale = 1 if tier == "quick" else 8
    lines: list[dict[str, Any]] = []
    expect: list[tuple[str, Any, Any, Any]] = []  # (what, case, impl outcome, independent oracle or None)

    def add(what: str, line: dict[str, Any], impl: Any, oracle: Any = None) -> None:
        lines.append(line)
        expect.append((what, line, impl, oracle))

    algs = [m.value for m in AlgorithmDNSSEC]
    root = dns.name.root

    # ---- RDATA, key tag, DS ------------------------------------------------------------
    pubkeys = gen_pubkeys(r, 700 * scale)
    dummy_ksk = KSKKey(description="d", label="x", algorithm="RSASHA256", valid_from="2020-01-01T00:00:00+00:00")
    for i, pk in enumerate(pubkeys):
        alg = r.choice([5, 7, 8, 10]) if i % 3 else r.choice(algs)
        flags = r.choice([256, 257, 385])
        try:
            key = mk_key(alg, flags, pk, validate=(alg not in (13, 14)))
        except Exception:
            continue
        kj = key_j(key)
        dk = dns_key(flags, 3, alg, pk)
        rd = run_impl(lambda: key_to_rdata(key), hexs)
        add("key_to_rdata", {"op": "key_to_rdata", "key": kj}, rd, {"ok": hexs(dk.to_wire())})
        tg = run_impl(lambda: calculate_key_tag(key), int)
        # RFC 4034 App. B.1 defines a different tag for the obsolete algorithm 1 (RSA/MD5); the tools refuse that
        # algorithm everywhere (C06), so App. B proper is the specification and dnspython is not consulted for it
        add("key_tag", {"op": "key_tag", "key": kj}, tg, {"ok": dns.dnssec.key_id(dk)} if alg != 1 else None)
        if i % 2 == 0:
            ds = run_impl(lambda: create_trustanchor_keydigest(dummy_ksk, key).digest, hexs)
            want = hexs(dns.dnssec.make_ds(root, dk, "SHA256").digest)
            add("ds_input", {"op": "ds_input", "key": kj}, ds, {"ok": want})
            rv = run_impl(lambda: key.as_revoked(), key_j)
            dkr = dns_key(flags | 0x80, 3, alg, pk)
            orc = dict(kj, flags=flags | 0x80, keyTag=dns.dnssec.key_id(dkr))
            add("as_revoked", {"op": "as_revoked", "key": kj}, rv, {"ok": orc} if alg != 1 else None)

    # keys steered into the rare corners of the key-tag arithmetic: (ac & 0xFFFF) + (ac >> 16) >= 0x10000 (the RFC folds once
    # and discards that carry), low 16 bits of the accumulator >= 0xFF80 / == 0xFFFF, accumulator just below / at 2^16 multiples
    import keys as KK

    def carry(rd: bytes) -> bool:
        a = KK.tag_accumulator(rd)
        return (a & 0xFFFF) + (a >> 16) >= 0x10000

    preds = [carry, lambda rd: (KK.tag_accumulator(rd) & 0xFFFF) >= 0xFF80, lambda rd: (KK.tag_accumulator(rd) & 0xFFFF) == 0xFFFF, lambda rd: carry(rd) and ((KK.tag_accumulator(rd) & 0xFFFF) + (KK.tag_accumulator(rd) >> 16)) == 0x10000]
    for i in range(40 * scale):
        flags = r.choice([256, 257, 385])
        alg = r.choice([8, 10, 5])
        pk = KK.craft_public_key_with(preds[i % len(preds)], flags, alg, r, n_len=r.choice([128, 256, 384, 512]))
        key = mk_key(alg, flags, pk)
        kj = key_j(key)
        dk = dns_key(flags, 3, alg, pk)
        add("key_tag", {"op": "key_tag", "key": kj}, run_impl(lambda: calculate_key_tag(key), int), {"ok": dns.dnssec.key_id(dk)})
        if flags != 385:
            dkr = dns_key(flags | 0x80, 3, alg, pk)
            add("as_revoked", {"op": "as_revoked", "key": kj}, run_impl(lambda: key.as_revoked(), key_j), {"ok": dict(kj, flags=flags | 0x80, keyTag=dns.dnssec.key_id(dkr))})
        res.bump("steered_key_tag")

    # out-of-range fields are struct errors, never truncated RDATA
    for flags, proto in [(-1, 3), (65536, 3), (256, -1), (256, 256), (70000, 300), (0, 0), (65535, 255)]:
        key = mk_key(8, flags, b"\x03\x01\x00\x01" + b"\xaa" * 64, protocol=proto, validate=False)
        add("key_to_rdata_range", {"op": "key_to_rdata", "key": key_j(key)}, run_impl(lambda: key_to_rdata(key), hexs))
        add("key_tag_range", {"op": "key_tag", "key": key_j(key)}, run_impl(lambda: calculate_key_tag(key), int))

    # REVOKE bit: Python's `|` against the model's arithmetic form on every 16-bit flags value
    step = 1 if tier == "thorough" else 7
    for flags in list(range(0, 65536, step)) + [65535, 128, 127, 255, 256, 257, 384, 385]:
        key = mk_key(8, flags, b"\x01\x03\x80", validate=False)
        rv = run_impl(lambda: key.as_revoked(), lambda k: k.flags)
        lines.append({"op": "as_revoked", "key": key_j(key)})
        expect.append(("revoke_bit", {"flags": flags}, rv, {"ok": flags | 0x80}))

    # ---- RFC 3110 codec ------------------------------------------------------------------
    exps: list[int] = [1, 3, 17, 65537, 2**32 + 1, 255, 256, 2**(8 * 255) - 1, 2**(8 * 255), 2**(8 * 256) - 1, 2**(8 * 256) + 1, 2**(8 * 299) + 5]
    for _ in range(120 * scale):
        nbytes = r.choice([1, 2, 3, 4, 5, 8, 128, 254, 255, 256, 257, 300])
        e = r.getrandbits(8 * nbytes) | 1
        exps.append(e)
    # octet patterns of the modulus FIELD (the codec is about octets, lossless): leading zero octets, all ones, a leading 0x04, top bit clear
    n_patterns = [lambda k: b"\x00" + r.randbytes(k - 1), lambda k: b"\x00\x00" + r.randbytes(k - 2), lambda k: b"\xff" * k, lambda k: b"\x04" + r.randbytes(k - 1),
                  lambda k: bytes([r.randrange(1, 0x80)]) + r.randbytes(k - 1), lambda k: b"\x00" * k]
    for ei, e in enumerate(exps):
        n = r.randbytes(r.choice([0, 1, 64, 128, 129, 256]))
        if ei % 2 == 1:
            n = n_patterns[(ei // 2) % len(n_patterns)](r.choice([2, 64, 128, 256]))
        pub = KSKM_PublicKey_RSA(bits=len(n) * 8, exponent=e, n=n, algorithm=AlgorithmDNSSEC.RSASHA256)
        enc = run_impl(lambda: pub.encode_public_key(), lambda b: b.decode())
        # RFC 3110 §2: one length octet for an exponent of 1..255 octets, otherwise 0x00 and a two-octet length
        want = {"ok": base64.b64encode(KK.rsa_public_key_field(e, n)).decode()} if "ok" in enc else None
        add("rsa_encode", {"op": "rsa_encode", "exponent": e, "n": hexs(n)}, enc, want)
        if "ok" in enc:
            dec = run_impl(
                lambda: KSKM_PublicKey_RSA.decode_public_key(enc["ok"].encode(), AlgorithmDNSSEC.RSASHA256),
                lambda p: {"bits": p.bits, "exponent": p.exponent, "n": hexs(p.n)},
            )
            # round trip is the property: decode(encode(e, n)) == (e, n)
            add("rsa_decode", {"op": "rsa_decode", "publicKey": enc["ok"], "algorithm": 8}, dec, {"ok": {"bits": len(n) * 8, "exponent": e, "n": hexs(n)}})
            # and dnspython/cryptography read the same numbers out of the blob when it is a plausible key
    # malformed / arbitrary blobs: model must predict the implementation's reading or its failure
    for _ in range(300 * scale):
        blob = r.randbytes(r.choice([0, 1, 2, 3, 4, 5, 10, 70, 260, 300]))
        if r.random() < 0.4 and blob:
            blob = bytes([0]) + blob[1:]
        alg = r.choice([5, 8, 10, 8, 8, 13, 3])
        txt = base64.b64encode(blob).decode()
        dec = run_impl(
            lambda: KSKM_PublicKey_RSA.decode_public_key(txt.encode(), AlgorithmDNSSEC(alg)),
            lambda p: {"bits": p.bits, "exponent": p.exponent, "n": hexs(p.n)},
        )
        add("rsa_decode_any", {"op": "rsa_decode", "publicKey": txt, "algorithm": alg}, dec)

    # ---- ECDSA prefix handling and size validation -------------------------------------------
    for _ in range(300 * scale):
        alg = r.choice([13, 14, 13, 14, 8, 15])
        ln = r.choice([0, 1, 32, 63, 64, 65, 66, 95, 96, 97, 98, 128])
        blob = r.randbytes(ln)
        if ln and r.random() < 0.6:
            blob = b"\x04" + blob[1:]
        wp = run_impl(lambda: ecdsa_public_key_without_prefix(blob, AlgorithmDNSSEC(alg)), hexs)
        oracle = None
        if alg in (13, 14):
            want = 64 if alg == 13 else 96
            if ln == want:
                oracle = {"ok": hexs(blob)}
            elif ln == want + 1 and blob[0] == 4:
                oracle = {"ok": hexs(blob[1:])}
        add("ecdsa_without_prefix", {"op": "ecdsa_without_prefix", "publicKey": hexs(blob), "algorithm": alg}, wp, oracle)
        if alg in (13, 14):
            kk = run_impl(lambda: mk_key(alg, 257, blob), lambda k: None)
            kj = key_j(mk_key(alg, 257, blob, validate=False))
            oracle2 = None
            want = 64 if alg == 13 else 96
            if ln == want or (ln == want + 1 and blob[0] == 4):
                oracle2 = {"ok": None}
            elif ln not in (want, want + 1):
                oracle2 = "reject"
            add("key_validate", {"op": "key_validate", "key": kj}, kk, oracle2)
    for flags in [0, 1, 128, 255, 256, 257, 258, 384, 385, 386, 513, 65535]:
        kk = run_impl(lambda: mk_key(8, flags, b"\x01\x03\x80"), lambda k: None)
        kj = key_j(mk_key(8, flags, b"\x01\x03\x80", validate=False))
        add("key_validate_flags", {"op": "key_validate", "key": kj}, kk, {"ok": None} if flags in (256, 257, 385) else "reject")

    # ---- public_key_to_dnssec_key -----------------------------------------------------------
    for _ in range(150 * scale):
        alg = r.choice([8, 10, 13, 14])
        if alg in (13, 14):
            want = 64 if alg == 13 else 96
            blob = r.choice([b"", b"\x04"]) + r.randbytes(want)
        else:
            blob = b"\x03\x01\x00\x01" + r.randbytes(r.choice([128, 256]))
        flags = r.choice([256, 257, 385, 0])
        txt = base64.b64encode(blob)
        out = run_impl(lambda: public_key_to_dnssec_key(txt, "Kx", AlgorithmDNSSEC(alg), 172800, flags), key_j)
        oracle = None
        if flags in (256, 257, 385):
            oracle = {"ok": {"keyIdentifier": "Kx", "keyTag": dns.dnssec.key_id(dns_key(flags, 3, alg, blob)), "ttl": 172800, "flags": flags, "protocol": 3, "algorithm": alg, "publicKey": txt.decode()}}
        add("public_key_to_dnssec_key", {"op": "public_key_to_dnssec_key", "publicKey": txt.decode(), "keyIdentifier": "Kx", "algorithm": alg, "ttl": 172800, "flags": flags}, out, oracle)

    # ---- base64 ---------------------------------------------------------------------------
    for _ in range(200 * scale):
        blob = r.randbytes(r.randrange(0, 50))
        add("b64encode", {"op": "b64encode", "data": hexs(blob)}, {"ok": None}, base64.b64encode(blob).decode())
        add("b64decode", {"op": "b64decode", "text": base64.b64encode(blob).decode()}, {"ok": None}, hexs(blob))

    # ---- RRSIG to-be-signed octets ----------------------------------------------------------
    def mk_sig(alg: int, labels: int, ottl: int, exp_us: int, inc_us: int, tag: int, name: str = ".", *, ttl: int | None = None, ident: str = "s",
               data: bytes = b"", tzinfo: Any = None) -> Any:
        exp, inc = us_dt(exp_us), us_dt(inc_us)  # aware UTC datetimes built from integers
        if tzinfo is not None:  # the SAME instants, expressed with another (fixed-offset) tzinfo
            exp, inc = exp.astimezone(tzinfo), inc.astimezone(tzinfo)
        return Signature.model_construct(
            key_identifier=ident,
            ttl=ottl if ttl is None else ttl,
            type_covered=TypeDNSSEC.DNSKEY,
            algorithm=AlgorithmDNSSEC(alg),
            labels=labels,
            original_ttl=ottl,
            signature_expiration=exp,
            signature_inception=inc,
            key_tag=tag,
            signers_name=name,
            signature_data=data,
        )

    def rfc_oracle(sig: Any, klist: list[Any]) -> Any:
        """RFC 4034 3.1.8.1 / 6.3 by dnspython, from INTEGERS only (whole seconds = floor of the microsecond count; no datetime, no
        time zone anywhere on this path).  None outside the wire ranges, for a non-root signer name, or when two keys share RDATA."""
        f = sig_j(sig)
        ottl, exp_us, inc_us, tag, labels = f["originalTtl"], f["expiration"], f["inception"], f["keyTag"], f["labels"]
        in_range = 0 <= ottl < 2**32 and 0 <= exp_us // 10**6 < 2**32 and 0 <= inc_us // 10**6 < 2**32 and 0 <= tag < 65536 and 0 <= labels < 256 and exp_us >= 0 and inc_us >= 0
        distinct_rdata = len({(k.flags, k.protocol, k.algorithm.value, base64.b64decode(k.public_key)) for k in klist}) == len(klist)
        if not (in_range and distinct_rdata and f["signersName"] == "."):
            return None
        rrset = dns.rrset.RRset(root, dns.rdataclass.IN, dns.rdatatype.DNSKEY)
        rrset.update_ttl(ottl)
        for k in klist:
            rrset.add(dns_key(k.flags, k.protocol, k.algorithm.value, base64.b64decode(k.public_key)), ttl=ottl)
        rrsig = RRSIG(dns.rdataclass.IN, dns.rdatatype.RRSIG, dns.rdatatype.DNSKEY, f["algorithm"], labels, ottl, exp_us // 10**6, inc_us // 10**6, tag, root, b"")
        try:
            return {"ok": hexs(dns.dnssec._make_rrsig_signature_data(rrset, rrsig))}
        except Exception:  # noqa: BLE001
            return None

    def rrsig_case(what: str, sig: Any, keyset: Any, klist: list[Any], tz: str | None = None, note: dict[str, Any] | None = None) -> Any:
        """one make_raw_rrsig case: /repo (under the process zone `tz`), dnspython from integers, one line for the model"""
        with envtz.zone(tz):
            impl = run_impl(lambda: make_raw_rrsig(sig, keyset), hexs)
        line: dict[str, Any] = {"op": "make_raw_rrsig", "sig": sig_j(sig), "keys": [key_j(k) for k in klist]}
        if tz is not None:
            line["tz"] = tz  # read by replay(); the model does not know about zones (instants are integers there)
        if note:
            line["note"] = note
        add(what, line, impl, rfc_oracle(sig, klist))
        return impl

    def related_keys(nkeys: int) -> list[Any]:
        keys = []
        base = r.randbytes(r.choice([4, 20, 68, 132]))
        for j in range(nkeys):
            # related blobs so that canonical order is decided late, by length, or by one high bit
            mode = r.randrange(5)
            if mode == 0:
                pk = r.randbytes(r.choice([3, 36, 68, 132, 260]))
            elif mode == 1:
                pk = base + r.randbytes(r.randrange(0, 3))
            elif mode == 2:
                pk = base[:-1] + bytes([r.choice([0, 0x7F, 0x80, 0xFF])])
            elif mode == 3:
                pk = base[: r.randrange(1, len(base) + 1)]
            else:
                pk = bytes([r.choice([0, 0x7F, 0x80, 0xFF])]) + base[1:]
            flags = r.choice([256, 257, 385])
            alg = r.choice([8, 8, 10, 5])
            keys.append(mk_key(alg, flags, pk, ident=f"k{j}", tag=r.randrange(65536), ttl=r.choice([0, 3600, 172800])))
        return keys

    TTLS = [0, 1, 3600, 172800, 2**31, 2**32 - 1]
    nsets = 250 * scale
    tz_rerun: list[tuple[Any, Any, list[Any], Any]] = []  # a deterministic sub-sample of this stream, re-run under every non-UTC zone
    for i in range(nsets):
        keyset = set(related_keys(r.randrange(1, 7)))
        ottl = r.choice(TTLS)
        # Signature.ttl (TTL of the RRSIG record itself) is NOT part of the signed data: drawn independently of the Original TTL
        ttl = r.choice(TTLS + [ottl, 86400, -1, 2**32])
        exp_us = r.choice([0, 1, 10**6 - 1, 1262304000 * 10**6, (2**32 - 1) * 10**6, r.randrange(0, 2**32) * 10**6 + r.choice([0, 0, 1, 999999])])
        inc_us = r.choice([0, 1500000000 * 10**6, r.randrange(0, 2**32) * 10**6])
        tag = r.choice([0, 1, 19036, 20326, 65535])
        salg = r.choice([5, 8, 10, 13, 14])
        labels = 0
        if i % 10 == 0:  # beyond the wire ranges
            which = r.randrange(5)
            if which == 0:
                ottl = r.choice([-1, 2**32])
            elif which == 1:
                exp_us = r.choice([-10**6, 2**32 * 10**6, -1])
            elif which == 2:
                tag = r.choice([-1, 65536])
            elif which == 3:
                labels = r.choice([-1, 256, 1, 255])
            else:
                inc_us = r.choice([-5 * 10**6, 2**32 * 10**6 + 1])
        sig = mk_sig(salg, labels, ottl, exp_us, inc_us, tag, ttl=ttl, ident=r.choice(["s", "k0", "", "ZSK-1"]), data=r.choice([b"", b"AAAA", b"not base64!"]))
        klist = list(keyset)
        impl = rrsig_case("make_raw_rrsig", sig, keyset, klist)
        res.bump("rrsig:ttl" + ("==" if ttl == ottl else "!=") + "original_ttl")
        if i % 8 == 1:
            tz_rerun.append((sig, keyset, klist, impl))
        # permutation invariance on the implementation: a re-ordered set object
        if i % 4 == 0 and "ok" in impl:
            shuffled = klist[:]
            r.shuffle(shuffled)
            impl2 = run_impl(lambda: make_raw_rrsig(sig, shuffled), hexs)  # type: ignore[arg-type]
            if impl2 != impl:
                res.violation("make_raw_rrsig depends on key order", {"sig": sig_j(sig), "keys": [key_j(k) for k in shuffled]}, key="order", impl=impl, impl_shuffled=impl2)
    add("make_raw_rrsig_name", {"op": "make_raw_rrsig", "sig": sig_j(mk_sig(8, 0, 1, 0, 0, 0, name="example.")), "keys": []}, run_impl(lambda: make_raw_rrsig(mk_sig(8, 0, 1, 0, 0, 0, name="example."), set()), hexs))

    # ---- which fields are signed, which are not: every field varied ALONE around in-range base cases ------------------------
    # RFC 4034 3.1.8.1: the signed data is RRSIG RDATA (type covered, algorithm, labels, original TTL, expiration, inception, key
    # tag, signer's name) followed by the RRs with owner | type | class | ORIGINAL TTL | RDATA length | RDATA.  The TTL of the RRSIG
    # record, the TTLs of the DNSKEY records, identifiers, the stated key-tag attribute of a Key, the signature octets and
    # sub-second parts of the times are not in it.
    for bi in range(12 * scale):
        bkeys = related_keys(r.randrange(1, 5))
        if len({key_to_rdata(k) for k in bkeys}) != len(bkeys):
            continue
        b = {"alg": r.choice([5, 8, 10, 13, 14]), "labels": r.choice([0, 0, 1, 200]), "ottl": r.choice([0, 3600, 172800, 2**31 + 5]),
             "exp_us": r.randrange(2, 2**32 - 2) * 10**6, "inc_us": r.randrange(2, 2**32 - 2) * 10**6, "tag": r.randrange(1, 65535)}
        b["ttl"] = b["ottl"] if bi % 2 else r.choice([t for t in TTLS if t != b["ottl"]])

        def sig_with(**kw: Any) -> Any:
            f = dict(b, **kw)
            return mk_sig(f["alg"], f["labels"], f["ottl"], f["exp_us"], f["inc_us"], f["tag"], ttl=f["ttl"], ident=f.get("ident", "s"), data=f.get("data", b""), tzinfo=f.get("tzinfo"))

        def keys_with(idx: int, **kw: Any) -> list[Any]:
            out = []
            for j, k in enumerate(bkeys):
                if j == idx:
                    f = {"alg": k.algorithm.value, "flags": k.flags, "pk": base64.b64decode(k.public_key), "protocol": k.protocol, "tag": k.key_tag, "ident": k.key_identifier, "ttl": k.ttl}
                    f.update(kw)
                    k = mk_key(f["alg"], f["flags"], f["pk"], protocol=f["protocol"], tag=f["tag"], ident=f["ident"], ttl=f["ttl"], validate=False)
                out.append(k)
            return out

        base_impl = rrsig_case("make_raw_rrsig_field", sig_with(), set(bkeys), bkeys, note={"base": bi, "field": "(base)"})
        ki = r.randrange(len(bkeys))
        kpk = base64.b64decode(bkeys[ki].public_key)
        bit = r.randrange(len(kpk) * 8)
        flipped = bytearray(kpk)
        flipped[bit // 8] ^= 0x80 >> (bit % 8)
        off = timezone(us_td(r.choice([-43200, -18000, 3600, 19800, 37800, 50400]) * 10**6))
        unsigned: list[tuple[str, Any, list[Any]]] = [
            ("sig.ttl", sig_with(ttl=r.choice([t for t in TTLS + [86400, -1, 2**32] if t != b["ttl"]])), bkeys),
            ("sig.ttl:=original_ttl+1", sig_with(ttl=b["ottl"] + 1), bkeys),
            ("sig.key_identifier", sig_with(ident=r.choice(["other", "", "k0"])), bkeys),
            ("sig.signature_data", sig_with(data=r.choice([b"QUJD", b"@@@@", b"x" * 300])), bkeys),
            ("sig.expiration:sub-second", sig_with(exp_us=b["exp_us"] + r.choice([1, 500_000, 999_999])), bkeys),
            ("sig.inception:sub-second", sig_with(inc_us=b["inc_us"] + r.choice([1, 500_000, 999_999])), bkeys),
            ("sig.times:same-instants-other-tzinfo", sig_with(tzinfo=off), bkeys),
            ("key.ttl", sig_with(), keys_with(ki, ttl=r.choice([1, 7200, 2**32 - 1]))),
            ("key.key_tag-attribute", sig_with(), keys_with(ki, tag=(bkeys[ki].key_tag + 1) % 65536)),
            ("key.key_identifier", sig_with(), keys_with(ki, ident="renamed")),
            ("keys:order", sig_with(), list(reversed(bkeys))),
        ]
        signed: list[tuple[str, Any, list[Any]]] = [
            ("sig.algorithm", sig_with(alg=r.choice([a for a in (5, 7, 8, 10, 13, 14, 15) if a != b["alg"]])), bkeys),
            ("sig.labels", sig_with(labels=(b["labels"] + r.choice([1, 55])) % 256), bkeys),
            ("sig.original_ttl", sig_with(ottl=b["ottl"] ^ (1 << r.randrange(32))), bkeys),
            ("sig.original_ttl:=ttl", sig_with(ottl=b["ttl"]), bkeys) if b["ttl"] != b["ottl"] and 0 <= b["ttl"] < 2**32 else ("sig.original_ttl", sig_with(ottl=b["ottl"] + 1), bkeys),
            ("sig.expiration", sig_with(exp_us=b["exp_us"] + r.choice([-1, 1, 3600, -3600, 86400]) * 10**6), bkeys),
            ("sig.expiration:bit", sig_with(exp_us=((b["exp_us"] // 10**6) ^ (1 << r.randrange(32))) * 10**6), bkeys),
            ("sig.inception", sig_with(inc_us=b["inc_us"] + r.choice([-1, 1, 3600, -3600, 86400]) * 10**6), bkeys),
            ("sig.inception:bit", sig_with(inc_us=((b["inc_us"] // 10**6) ^ (1 << r.randrange(32))) * 10**6), bkeys),
            ("sig.expiration<->inception", sig_with(exp_us=b["inc_us"], inc_us=b["exp_us"]), bkeys) if b["inc_us"] != b["exp_us"] else ("sig.labels", sig_with(labels=b["labels"] ^ 1), bkeys),
            ("sig.key_tag", sig_with(tag=b["tag"] ^ (1 << r.randrange(16))), bkeys),
            ("key.flags", sig_with(), keys_with(ki, flags=r.choice([f for f in (256, 257, 385) if f != bkeys[ki].flags]))),
            ("key.protocol", sig_with(), keys_with(ki, protocol=r.choice([0, 2, 255]))),
            ("key.algorithm", sig_with(), keys_with(ki, alg=r.choice([a for a in (5, 8, 10) if a != bkeys[ki].algorithm.value]))),
            ("key.public_key:bit", sig_with(), keys_with(ki, pk=bytes(flipped))),
            ("keys:one-removed", sig_with(), bkeys[:ki] + bkeys[ki + 1 :]),
            ("keys:one-added", sig_with(), bkeys + [mk_key(8, 256, r.randbytes(40), ident="extra")]),
        ]
        for must_differ, group in ((False, unsigned), (True, signed)):
            for fname, vsig, vkeys in group:
                vset: Any = vkeys if fname == "keys:order" else set(vkeys)  # a list is visited in exactly the listed order
                vi = rrsig_case("make_raw_rrsig_field", vsig, vset, vkeys, note={"base": bi, "field": fname, "signed": must_differ})
                res.bump(("rrsig-field:signed:" if must_differ else "rrsig-field:not-signed:") + fname)
                if "ok" not in base_impl or "ok" not in vi:
                    continue  # judged against dnspython / the model by the common loop
                if must_differ and vi == base_impl:
                    res.violation("make_raw_rrsig: changing a signed field / the key set leaves the to-be-signed octets unchanged", lines[-1], key="signed-field:" + fname.split(":")[0], impl=vi, field=fname)
                if not must_differ and vi != base_impl:
                    res.violation("make_raw_rrsig: a field that is not part of the RFC 4034 signed data changes the to-be-signed octets", lines[-1], key="unsigned-field:" + fname.split(":")[0], impl=vi, base=base_impl, field=fname)

    # ---- environment independence: the same octets whatever the time zone of the process ------------------------------------
    # (a) the sub-sample of the stream above; (b) instants inside and outside each zone's daylight-saving period (mid-January, mid-July)
    # and on a +-1 h lattice around both DST switches of a year (and around the instants whose UTC fields, read as local time, hit the
    # switch).  Oracle and model work on integers; /repo's octets must equal theirs and its own under UTC.
    for zname, _posix, _off in lib.non_utc_zones():
        jobs: list[tuple[Any, Any, list[Any], Any, dict[str, Any]]] = [(sig, keyset, klist, impl, {"stream": "re-run"}) for sig, keyset, klist, impl in tz_rerun]
        for year in (2030, r.choice([y for y in envtz.YEARS if y != 2030])):
            pts = envtz.sample(zname, year, r, 16 if tier == "quick" else 10**6)
            for pi, p in enumerate(pts):
                q = pts[(pi * 7 + 3) % len(pts)]  # the other time field: another probe instant of the zone ...
                exp_s = q["t"] if pi % 3 == 0 else p["t"] + r.choice([21, 15, 180]) * 86400  # ... or a validity period later
                ks = related_keys(r.randrange(1, 4))
                sig = mk_sig(r.choice([8, 10, 13]), 0, r.choice([3600, 172800]), min(exp_s, 2**32 - 1) * 10**6 + r.choice([0, 0, 999_999]), p["t"] * 10**6 + r.choice([0, 0, 1]), r.randrange(65536), ttl=r.choice([3600, 172800]))
                utc_impl = run_impl(lambda: make_raw_rrsig(sig, set(ks)), hexs)
                jobs.append((sig, set(ks), ks, utc_impl, {"stream": "instants", "inception": p["label"], "dst_at_inception": p["dst"], "utc_offset_at_inception": p["offset"], "year": year}))
                # the same pair of instants with the roles swapped (expiration inside the probed period)
                sig2 = mk_sig(8, 0, 172800, p["t"] * 10**6, max(p["t"] - 21 * 86400, 0) * 10**6, r.randrange(65536))
                jobs.append((sig2, set(ks), ks, run_impl(lambda: make_raw_rrsig(sig2, set(ks)), hexs), {"stream": "instants", "expiration": p["label"], "dst_at_expiration": p["dst"], "utc_offset_at_expiration": p["offset"], "year": year}))
        with envtz.zone(zname):
            for sig, keyset, klist, utc_impl, note in jobs:
                impl = rrsig_case("make_raw_rrsig_tz", sig, keyset, klist, tz=zname, note=note)
                res.bump("rrsig-tz:" + zname)
                if note["stream"] == "instants":
                    res.bump("rrsig-tz:instant-" + ("inside" if note.get("dst_at_inception", note.get("dst_at_expiration")) else "outside") + "-daylight-saving-time")
                if impl != utc_impl:
                    res.violation("make_raw_rrsig: the to-be-signed octets depend on the time zone of the process", lines[-1], key="tz:" + zname, impl=impl, impl_under_utc=utc_impl)

    # ---- evaluate -------------------------------------------------------------------------
    model: list[Any] = run_driver(lines) if driver_ok else [None] * len(lines)
    for (what, case, impl, oracle), m in zip(expect, model):
        res.count(case)
        res.bump(what)
        res.sample({"what": what, "input": case, "impl": impl, "model": m, "oracle": oracle}, limit=6) if what in ("key_tag", "make_raw_rrsig", "make_raw_rrsig_tz", "rsa_decode", "as_revoked", "ecdsa_without_prefix", "ds_input") and res.stats[what] == 1 else None
        # special shapes
        if what in ("b64encode", "b64decode"):
            if m is not None and m != oracle:
                res.disagreement(f"model {what} != python base64", case, oracle, m)
            continue
        if what == "revoke_bit":
            mf = m["ok"]["flags"] if isinstance(m, dict) and "ok" in m else m
            if impl != oracle:
                res.violation("as_revoked does not set exactly the REVOKE bit", case, key="revoke-bit", impl=impl, expected=oracle)
            if m is not None and {"ok": mf} != impl:
                res.disagreement("model asRevoked flags != implementation", case, impl, m)
            continue
        if what == "ds_input":
            # model yields the digest input; hash it here
            if isinstance(m, dict) and "ok" in m:
                m = {"ok": hashlib.sha256(bytes.fromhex(m["ok"])).hexdigest()}
        # 1. property on the implementation, against the independent oracle
        if oracle == "reject":
            if "ok" in impl:
                res.violation(f"{what}: implementation accepts a key the RFC/documented rule rejects", case, key=what, impl=impl)
        elif oracle is not None and impl != oracle:
            res.violation(f"{what}: implementation differs from the independent RFC implementation", case, key=what, impl=impl, expected=oracle)
        # 2. the tie: model vs implementation
        if m is None:
            continue
        if lib.is_unsupported(m):
            res.unsupported += 1
            continue
        if not same_outcome(impl, m):
            res.disagreement(f"{what}: model != implementation", case, impl, m)
        elif impl != m:
            res.soft_error_kind_mismatch += 1
    return res


def replay(obj: dict[str, Any]) -> Any:
    v = obj.get("violation") or obj.get("disagreement") or {}
    case = v.get("case")
    out: dict[str, Any] = {"case": case, "recorded": {k: v.get(k) for k in ("impl", "model", "expected", "impl_under_utc", "base", "field")}}
    if isinstance(case, dict) and "op" in case:
        out["model_now"] = run_driver([case])[0]
    if isinstance(case, dict) and case.get("op") == "make_raw_rrsig":
        # the implementation now, under the recorded process time zone
        from kskm.common.data import AlgorithmDNSSEC, Key, Signature, TypeDNSSEC
        from kskm.common.signature import make_raw_rrsig

        f = case["sig"]
        sig = Signature.model_construct(
            key_identifier=f["keyIdentifier"], ttl=f["ttl"], type_covered=TypeDNSSEC(f["typeCovered"]), algorithm=AlgorithmDNSSEC(f["algorithm"]), labels=f["labels"],
            original_ttl=f["originalTtl"], signature_expiration=us_dt(f["expiration"]), signature_inception=us_dt(f["inception"]), key_tag=f["keyTag"],
            signers_name=f["signersName"], signature_data=f["signatureData"].encode("utf-8", "surrogateescape"),
        )
        keys = [Key.model_construct(key_identifier=k["keyIdentifier"], key_tag=k["keyTag"], ttl=k["ttl"], flags=k["flags"], protocol=k["protocol"], algorithm=AlgorithmDNSSEC(k["algorithm"]),
                                    public_key=k["publicKey"].encode("utf-8", "surrogateescape")) for k in case["keys"]]
        with envtz.zone(case.get("tz")):
            out["implementation_now"] = run_impl(lambda: make_raw_rrsig(sig, keys), hexs)  # type: ignore[arg-type]
        out["process_time_zone"] = case.get("tz") or "(unchanged)"
    return out
