"""C14 correspondence: wire-format primitives — implementation vs. Lean model vs. dnspython.

Three-way comparison on generated keys / RR sets:
  * implementation (kskm.common.dnssec, signature, rsa_utils, ecdsa_utils, data.Key, ta.keydigest)
  * the model driver (lean/Kskm/Dnssec.lean, Signature.lean, Base64.lean)
  * dnspython (key_id, make_ds, _make_rrsig_signature_data) as the independent RFC implementation
impl != dnspython  -> the property fails on the implementation: a failing input (VIOLATION)
impl != model      -> the tie between model and code is broken (disagreement)
"""

from __future__ import annotations

import base64
import hashlib
from datetime import timezone
from typing import Any

import lib
from lib import Result, hexs, key_j, run_driver, run_impl, same_outcome, sig_j, us_dt

ASSUMPTIONS = [
    "dnspython 2.8 is a correct independent implementation of RFC 4034 App. B, RFC 4509 and RFC 4034 §3.1.8.1/§6.3",
    "SHA-256 itself is not modelled: the model yields the DS digest *input*, the harness hashes it",
]
TRUSTED = ["dnspython as RFC oracle in corr_C14"]


def mk_key(alg: int, flags: int, pk: bytes, *, protocol: int = 3, tag: int = 0, ident: str = "k", ttl: int = 172800, validate: bool = True) -> Any:
    from kskm.common.data import AlgorithmDNSSEC, Key

    kw = dict(
        key_identifier=ident,
        key_tag=tag,
        ttl=ttl,
        flags=flags,
        protocol=protocol,
        algorithm=AlgorithmDNSSEC(alg),
        public_key=base64.b64encode(pk),
    )
    if validate:
        return Key(**kw)
    return Key.model_construct(**kw)


def gen_pubkeys(r: Any, n: int) -> list[bytes]:
    out = [b"", b"\x00", b"\xff", b"\xff" * 2, b"\xff" * 255, b"\xff" * 256, b"\xff" * 257, b"\xff" * 520, b"\x00" * 64, b"\x80" + b"\x00" * 300]
    # carry-provoking: sums crossing 2^16 and 2^17 boundaries at odd/even lengths
    for ln in (127, 128, 129, 255, 256, 257, 258, 511, 512, 513, 1023, 1024, 1025):
        out.append(b"\xff" * ln)
        out.append(bytes([0xFF, 0x00] * (ln // 2 + 1))[:ln])
        out.append(bytes([0x00, 0xFF] * (ln // 2 + 1))[:ln])
    while len(out) < n:
        ln = r.choice([r.randrange(0, 40), r.randrange(40, 300), r.randrange(256, 530), r.choice([64, 65, 96, 97, 128, 131, 260, 516])])
        out.append(r.randbytes(ln))
    return out


def dns_key(flags: int, protocol: int, alg: int, pk: bytes) -> Any:
    import dns.rdataclass
    import dns.rdatatype
    from dns.rdtypes.ANY.DNSKEY import DNSKEY

    return DNSKEY(dns.rdataclass.IN, dns.rdatatype.DNSKEY, flags, protocol, alg, pk)


def run(tier: str, driver_ok: bool) -> Result:
    import dns.dnssec
    import dns.name
    import dns.rdataclass
    import dns.rdatatype
    import dns.rrset
    from dns.rdtypes.ANY.RRSIG import RRSIG

    from kskm.common.config_misc import KSKKey
    from kskm.common.data import AlgorithmDNSSEC, Key, Signature, TypeDNSSEC
    from kskm.common.dnssec import calculate_key_tag, key_to_rdata, public_key_to_dnssec_key
    from kskm.common.ecdsa_utils import ecdsa_public_key_without_prefix
    from kskm.common.rsa_utils import KSKM_PublicKey_RSA
    from kskm.common.signature import make_raw_rrsig
    from kskm.ta.keydigest import create_trustanchor_keydigest

    res = Result("C14")
    res.rule = (
        "generated keys (random / all-0xFF / carry-provoking octets, lengths 0..1025, odd and even), all accepted flag values, "
        "all 12 algorithm numbers, RSA exponents of 1..300 octets incl. the 3-octet length form, EC points with and without 0x04, "
        "RR sets of 1..6 keys in shuffled order, RRSIG field values over and beyond their wire ranges; a case is non-trivial "
        "when its canonical input is new (hash of the input line)"
    )
    r = lib.rng("C14")
    scale = 1 if tier == "quick" else 8
    lines: list[dict[str, Any]] = []
    expect: list[tuple[str, Any, Any, Any]] = []  # (what, case, impl outcome, independent oracle or None)

    def add(what: str, line: dict[str, Any], impl: Any, oracle: Any = None) -> None:
        lines.append(line)
        expect.append((what, line, impl, oracle))

    algs = [m.value for m in AlgorithmDNSSEC]
    root = dns.name.root

    # ---- RDATA, key tag, DS ------------------------------------------------------------
    pubkeys = gen_pubkeys(r, 700 * scale)
    dummy_ksk = KSKKey(description="d", label="x", algorithm="RSASHA256", valid_from="2020-01-01T00:00:00+00:00")
    for i, pk in enumerate(pubkeys):
        alg = r.choice([5, 7, 8, 10]) if i % 3 else r.choice(algs)
        flags = r.choice([256, 257, 385])
        try:
            key = mk_key(alg, flags, pk, validate=(alg not in (13, 14)))
        except Exception:
            continue
        kj = key_j(key)
        dk = dns_key(flags, 3, alg, pk)
        rd = run_impl(lambda: key_to_rdata(key), hexs)
        add("key_to_rdata", {"op": "key_to_rdata", "key": kj}, rd, {"ok": hexs(dk.to_wire())})
        tg = run_impl(lambda: calculate_key_tag(key), int)
        # RFC 4034 App. B.1 defines a different tag for the obsolete algorithm 1 (RSA/MD5); the tools refuse that
        # algorithm everywhere (C06), so App. B proper is the specification and dnspython is not consulted for it
        add("key_tag", {"op": "key_tag", "key": kj}, tg, {"ok": dns.dnssec.key_id(dk)} if alg != 1 else None)
        if i % 2 == 0:
            ds = run_impl(lambda: create_trustanchor_keydigest(dummy_ksk, key).digest, hexs)
            want = hexs(dns.dnssec.make_ds(root, dk, "SHA256").digest)
            add("ds_input", {"op": "ds_input", "key": kj}, ds, {"ok": want})
            rv = run_impl(lambda: key.as_revoked(), key_j)
            dkr = dns_key(flags | 0x80, 3, alg, pk)
            orc = dict(kj, flags=flags | 0x80, keyTag=dns.dnssec.key_id(dkr))
            add("as_revoked", {"op": "as_revoked", "key": kj}, rv, {"ok": orc} if alg != 1 else None)

    # keys steered into the rare corners of the key-tag arithmetic: (ac & 0xFFFF) + (ac >> 16) >= 0x10000 (the RFC folds once
    # and discards that carry), low 16 bits of the accumulator >= 0xFF80 / == 0xFFFF, accumulator just below / at 2^16 multiples
    import keys as KK

    def carry(rd: bytes) -> bool:
        a = KK.tag_accumulator(rd)
        return (a & 0xFFFF) + (a >> 16) >= 0x10000

    preds = [carry, lambda rd: (KK.tag_accumulator(rd) & 0xFFFF) >= 0xFF80, lambda rd: (KK.tag_accumulator(rd) & 0xFFFF) == 0xFFFF, lambda rd: carry(rd) and ((KK.tag_accumulator(rd) & 0xFFFF) + (KK.tag_accumulator(rd) >> 16)) == 0x10000]
    for i in range(40 * scale):
        flags = r.choice([256, 257, 385])
        alg = r.choice([8, 10, 5])
        pk = KK.craft_public_key_with(preds[i % len(preds)], flags, alg, r, n_len=r.choice([128, 256, 384, 512]))
        key = mk_key(alg, flags, pk)
        kj = key_j(key)
        dk = dns_key(flags, 3, alg, pk)
        add("key_tag", {"op": "key_tag", "key": kj}, run_impl(lambda: calculate_key_tag(key), int), {"ok": dns.dnssec.key_id(dk)})
        if flags != 385:
            dkr = dns_key(flags | 0x80, 3, alg, pk)
            add("as_revoked", {"op": "as_revoked", "key": kj}, run_impl(lambda: key.as_revoked(), key_j), {"ok": dict(kj, flags=flags | 0x80, keyTag=dns.dnssec.key_id(dkr))})
        res.bump("steered_key_tag")

    # out-of-range fields are struct errors, never truncated RDATA
    for flags, proto in [(-1, 3), (65536, 3), (256, -1), (256, 256), (70000, 300), (0, 0), (65535, 255)]:
        key = mk_key(8, flags, b"\x03\x01\x00\x01" + b"\xaa" * 64, protocol=proto, validate=False)
        add("key_to_rdata_range", {"op": "key_to_rdata", "key": key_j(key)}, run_impl(lambda: key_to_rdata(key), hexs))
        add("key_tag_range", {"op": "key_tag", "key": key_j(key)}, run_impl(lambda: calculate_key_tag(key), int))

    # REVOKE bit: Python's `|` against the model's arithmetic form on every 16-bit flags value
    step = 1 if tier == "thorough" else 7
    for flags in list(range(0, 65536, step)) + [65535, 128, 127, 255, 256, 257, 384, 385]:
        key = mk_key(8, flags, b"\x01\x03\x80", validate=False)
        rv = run_impl(lambda: key.as_revoked(), lambda k: k.flags)
        lines.append({"op": "as_revoked", "key": key_j(key)})
        expect.append(("revoke_bit", {"flags": flags}, rv, {"ok": flags | 0x80}))

    # ---- RFC 3110 codec ------------------------------------------------------------------
    exps: list[int] = [1, 3, 17, 65537, 2**32 + 1, 255, 256, 2**(8 * 255) - 1, 2**(8 * 255), 2**(8 * 256) - 1, 2**(8 * 256) + 1, 2**(8 * 299) + 5]
    for _ in range(120 * scale):
        nbytes = r.choice([1, 2, 3, 4, 5, 8, 128, 254, 255, 256, 257, 300])
        e = r.getrandbits(8 * nbytes) | 1
        exps.append(e)
    for e in exps:
        n = r.randbytes(r.choice([0, 1, 64, 128, 129, 256]))
        pub = KSKM_PublicKey_RSA(bits=len(n) * 8, exponent=e, n=n, algorithm=AlgorithmDNSSEC.RSASHA256)
        enc = run_impl(lambda: pub.encode_public_key(), lambda b: b.decode())
        add("rsa_encode", {"op": "rsa_encode", "exponent": e, "n": hexs(n)}, enc)
        if "ok" in enc:
            dec = run_impl(
                lambda: KSKM_PublicKey_RSA.decode_public_key(enc["ok"].encode(), AlgorithmDNSSEC.RSASHA256),
                lambda p: {"bits": p.bits, "exponent": p.exponent, "n": hexs(p.n)},
            )
            # round trip is the property: decode(encode(e, n)) == (e, n)
            add("rsa_decode", {"op": "rsa_decode", "publicKey": enc["ok"], "algorithm": 8}, dec, {"ok": {"bits": len(n) * 8, "exponent": e, "n": hexs(n)}})
            # and dnspython/cryptography read the same numbers out of the blob when it is a plausible key
    # malformed / arbitrary blobs: model must predict the implementation's reading or its failure
    for _ in range(300 * scale):
        blob = r.randbytes(r.choice([0, 1, 2, 3, 4, 5, 10, 70, 260, 300]))
        if r.random() < 0.4 and blob:
            blob = bytes([0]) + blob[1:]
        alg = r.choice([5, 8, 10, 8, 8, 13, 3])
        txt = base64.b64encode(blob).decode()
        dec = run_impl(
            lambda: KSKM_PublicKey_RSA.decode_public_key(txt.encode(), AlgorithmDNSSEC(alg)),
            lambda p: {"bits": p.bits, "exponent": p.exponent, "n": hexs(p.n)},
        )
        add("rsa_decode_any", {"op": "rsa_decode", "publicKey": txt, "algorithm": alg}, dec)

    # ---- ECDSA prefix handling and size validation -------------------------------------------
    for _ in range(300 * scale):
        alg = r.choice([13, 14, 13, 14, 8, 15])
        ln = r.choice([0, 1, 32, 63, 64, 65, 66, 95, 96, 97, 98, 128])
        blob = r.randbytes(ln)
        if ln and r.random() < 0.6:
            blob = b"\x04" + blob[1:]
        wp = run_impl(lambda: ecdsa_public_key_without_prefix(blob, AlgorithmDNSSEC(alg)), hexs)
        oracle = None
        if alg in (13, 14):
            want = 64 if alg == 13 else 96
            if ln == want:
                oracle = {"ok": hexs(blob)}
            elif ln == want + 1 and blob[0] == 4:
                oracle = {"ok": hexs(blob[1:])}
        add("ecdsa_without_prefix", {"op": "ecdsa_without_prefix", "publicKey": hexs(blob), "algorithm": alg}, wp, oracle)
        if alg in (13, 14):
            kk = run_impl(lambda: mk_key(alg, 257, blob), lambda k: None)
            kj = key_j(mk_key(alg, 257, blob, validate=False))
            oracle2 = None
            want = 64 if alg == 13 else 96
            if ln == want or (ln == want + 1 and blob[0] == 4):
                oracle2 = {"ok": None}
            elif ln not in (want, want + 1):
                oracle2 = "reject"
            add("key_validate", {"op": "key_validate", "key": kj}, kk, oracle2)
    for flags in [0, 1, 128, 255, 256, 257, 258, 384, 385, 386, 513, 65535]:
        kk = run_impl(lambda: mk_key(8, flags, b"\x01\x03\x80"), lambda k: None)
        kj = key_j(mk_key(8, flags, b"\x01\x03\x80", validate=False))
        add("key_validate_flags", {"op": "key_validate", "key": kj}, kk, {"ok": None} if flags in (256, 257, 385) else "reject")

    # ---- public_key_to_dnssec_key -----------------------------------------------------------
    for _ in range(150 * scale):
        alg = r.choice([8, 10, 13, 14])
        if alg in (13, 14):
            want = 64 if alg == 13 else 96
            blob = r.choice([b"", b"\x04"]) + r.randbytes(want)
        else:
            blob = b"\x03\x01\x00\x01" + r.randbytes(r.choice([128, 256]))
        flags = r.choice([256, 257, 385, 0])
        txt = base64.b64encode(blob)
        out = run_impl(lambda: public_key_to_dnssec_key(txt, "Kx", AlgorithmDNSSEC(alg), 172800, flags), key_j)
        oracle = None
        if flags in (256, 257, 385):
            oracle = {"ok": {"keyIdentifier": "Kx", "keyTag": dns.dnssec.key_id(dns_key(flags, 3, alg, blob)), "ttl": 172800, "flags": flags, "protocol": 3, "algorithm": alg, "publicKey": txt.decode()}}
        add("public_key_to_dnssec_key", {"op": "public_key_to_dnssec_key", "publicKey": txt.decode(), "keyIdentifier": "Kx", "algorithm": alg, "ttl": 172800, "flags": flags}, out, oracle)

    # ---- base64 ---------------------------------------------------------------------------
    for _ in range(200 * scale):
        blob = r.randbytes(r.randrange(0, 50))
        add("b64encode", {"op": "b64encode", "data": hexs(blob)}, {"ok": None}, base64.b64encode(blob).decode())
        add("b64decode", {"op": "b64decode", "text": base64.b64encode(blob).decode()}, {"ok": None}, hexs(blob))

    # ---- RRSIG to-be-signed octets ----------------------------------------------------------
    def mk_sig(alg: int, labels: int, ottl: int, exp_us: int, inc_us: int, tag: int, name: str = ".") -> Any:
        return Signature.model_construct(
            key_identifier="s",
            ttl=ottl,
            type_covered=TypeDNSSEC.DNSKEY,
            algorithm=AlgorithmDNSSEC(alg),
            labels=labels,
            original_ttl=ottl,
            signature_expiration=us_dt(exp_us),
            signature_inception=us_dt(inc_us),
            key_tag=tag,
            signers_name=name,
            signature_data=b"",
        )

    nsets = 250 * scale
    for i in range(nsets):
        nkeys = r.randrange(1, 7)
        keys = []
        base = r.randbytes(r.choice([4, 20, 68, 132]))
        for j in range(nkeys):
            # related blobs so that canonical order is decided late, by length, or by one high bit
            mode = r.randrange(5)
            if mode == 0:
                pk = r.randbytes(r.choice([3, 36, 68, 132, 260]))
            elif mode == 1:
                pk = base + r.randbytes(r.randrange(0, 3))
            elif mode == 2:
                pk = base[:-1] + bytes([r.choice([0, 0x7F, 0x80, 0xFF])])
            elif mode == 3:
                pk = base[: r.randrange(1, len(base) + 1)]
            else:
                pk = bytes([r.choice([0, 0x7F, 0x80, 0xFF])]) + base[1:]
            flags = r.choice([256, 257, 385])
            alg = r.choice([8, 8, 10, 5])
            keys.append(mk_key(alg, flags, pk, ident=f"k{j}", tag=r.randrange(65536), ttl=r.choice([0, 3600, 172800])))
        keyset = set(keys)
        ottl = r.choice([0, 1, 3600, 172800, 2**31, 2**32 - 1])
        exp_us = r.choice([0, 1, 10**6 - 1, 1262304000 * 10**6, (2**32 - 1) * 10**6, r.randrange(0, 2**32) * 10**6 + r.choice([0, 0, 1, 999999])])
        inc_us = r.choice([0, 1500000000 * 10**6, r.randrange(0, 2**32) * 10**6])
        tag = r.choice([0, 1, 19036, 20326, 65535])
        salg = r.choice([5, 8, 10, 13, 14])
        labels = 0
        if i % 10 == 0:  # beyond the wire ranges
            which = r.randrange(5)
            if which == 0:
                ottl = r.choice([-1, 2**32])
            elif which == 1:
                exp_us = r.choice([-10**6, 2**32 * 10**6, -1])
            elif which == 2:
                tag = r.choice([-1, 65536])
            elif which == 3:
                labels = r.choice([-1, 256, 1, 255])
            else:
                inc_us = r.choice([-5 * 10**6, 2**32 * 10**6 + 1])
        sig = mk_sig(salg, labels, ottl, exp_us, inc_us, tag)
        klist = list(keyset)
        impl = run_impl(lambda: make_raw_rrsig(sig, keyset), hexs)
        oracle = None
        in_range = 0 <= ottl < 2**32 and 0 <= exp_us // 10**6 < 2**32 and 0 <= inc_us // 10**6 < 2**32 and 0 <= tag < 65536 and 0 <= labels < 256 and exp_us >= 0 and inc_us >= 0
        distinct_rdata = len({key_to_rdata(k) for k in klist}) == len(klist)
        if in_range and distinct_rdata:
            rrset = dns.rrset.RRset(root, dns.rdataclass.IN, dns.rdatatype.DNSKEY)
            rrset.update_ttl(ottl)
            for k in klist:
                rrset.add(dns_key(k.flags, k.protocol, k.algorithm.value, base64.b64decode(k.public_key)), ttl=ottl)
            rrsig = RRSIG(dns.rdataclass.IN, dns.rdatatype.RRSIG, dns.rdatatype.DNSKEY, salg, labels, ottl, exp_us // 10**6, inc_us // 10**6, tag, root, b"")
            try:
                oracle = {"ok": hexs(dns.dnssec._make_rrsig_signature_data(rrset, rrsig))}
            except Exception:  # noqa: BLE001
                oracle = None
        add("make_raw_rrsig", {"op": "make_raw_rrsig", "sig": sig_j(sig), "keys": [key_j(k) for k in klist]}, impl, oracle)
        # permutation invariance on the implementation: a re-ordered set object
        if i % 4 == 0 and "ok" in impl:
            shuffled = klist[:]
            r.shuffle(shuffled)
            impl2 = run_impl(lambda: make_raw_rrsig(sig, shuffled), hexs)  # type: ignore[arg-type]
            if impl2 != impl:
                res.violation("make_raw_rrsig depends on key order", {"sig": sig_j(sig), "keys": [key_j(k) for k in shuffled]}, key="order", impl=impl, impl_shuffled=impl2)
    add("make_raw_rrsig_name", {"op": "make_raw_rrsig", "sig": sig_j(mk_sig(8, 0, 1, 0, 0, 0, name="example.")), "keys": []}, run_impl(lambda: make_raw_rrsig(mk_sig(8, 0, 1, 0, 0, 0, name="example."), set()), hexs))

    # ---- evaluate -------------------------------------------------------------------------
    model: list[Any] = run_driver(lines) if driver_ok else [None] * len(lines)
    for (what, case, impl, oracle), m in zip(expect, model):
        res.count(case)
        res.bump(what)
        res.sample({"what": what, "input": case, "impl": impl, "model": m, "oracle": oracle}, limit=6) if what in ("key_tag", "make_raw_rrsig", "rsa_decode", "as_revoked", "ecdsa_without_prefix", "ds_input") and res.stats[what] == 1 else None
        # special shapes
        if what in ("b64encode", "b64decode"):
            if m is not None and m != oracle:
                res.disagreement(f"model {what} != python base64", case, oracle, m)
            continue
        if what == "revoke_bit":
            mf = m["ok"]["flags"] if isinstance(m, dict) and "ok" in m else m
            if impl != oracle:
                res.violation("as_revoked does not set exactly the REVOKE bit", case, key="revoke-bit", impl=impl, expected=oracle)
            if m is not None and {"ok": mf} != impl:
                res.disagreement("model asRevoked flags != implementation", case, impl, m)
            continue
        if what == "ds_input":
            # model yields the digest input; hash it here
            if isinstance(m, dict) and "ok" in m:
                m = {"ok": hashlib.sha256(bytes.fromhex(m["ok"])).hexdigest()}
        # 1. property on the implementation, against the independent oracle
        if oracle == "reject":
            if "ok" in impl:
                res.violation(f"{what}: implementation accepts a key the RFC/documented rule rejects", case, key=what, impl=impl)
        elif oracle is not None and impl != oracle:
            res.violation(f"{what}: implementation differs from the independent RFC implementation", case, key=what, impl=impl, expected=oracle)
        # 2. the tie: model vs implementation
        if m is None:
            continue
        if lib.is_unsupported(m):
            res.unsupported += 1
            continue
        if not same_outcome(impl, m):
            res.disagreement(f"{what}: model != implementation", case, impl, m)
        elif impl != m:
            res.soft_error_kind_mismatch += 1
    return res


def replay(obj: dict[str, Any]) -> Any:
    v = obj.get("violation") or obj.get("disagreement") or {}
    case = v.get("case")
    out: dict[str, Any] = {"case": case, "recorded": {k: v.get(k) for k in ("impl", "model", "expected")}}
    if isinstance(case, dict) and "op" in case:
        out["model_now"] = run_driver([case])[0]
    return out
