"""Run the REAL `kskm.tools.wksr.main()` and `WKSR.from_file` without a network (C20).

uvicorn is not installed in the verification environment: stub modules provide the two names
tools/wksr.py imports (`uvicorn.run`, `HttpToolsProtocol`); `uvicorn.run` RECORDS its keyword
arguments instead of listening.  fastapi / starlette come from harness/wksr_stubs.py.  Everything
else is the code of the working tree: argparse, `WKSR.from_file` (yaml + the pydantic models of
config_wksr.py), the `ssl_cert_reqs` expression, the keyword list.

Used by harness/extract_tables.py (section `wksr_tables`) and by harness/corr_C20.py (stream `config`).
"""

from __future__ import annotations

import contextlib
import logging
import sys
import types
from pathlib import Path
from typing import Any, Iterator

import lib  # noqa: F401
import wksr_stubs


class _HttpToolsProtocol:
    def on_url(self, url: bytes) -> None:  # pragma: no cover - never called
        pass


def install_uvicorn_stub() -> list[dict[str, Any]]:
    """Returns the list that receives one entry per `uvicorn.run(...)` call."""
    calls: list[dict[str, Any]] = []
    try:
        import uvicorn  # noqa: F401

        real = not getattr(uvicorn, "__kskm_verif_stub__", False)
    except ImportError:
        real = False

    def run(*args: Any, **kwargs: Any) -> None:
        calls.append({"args": args, "kwargs": kwargs})

    if real:
        import uvicorn

        uvicorn.run = run  # type: ignore[assignment]
        return calls

    def mod(name: str, **attrs: Any) -> types.ModuleType:
        m = types.ModuleType(name)
        m.__dict__.update(attrs)
        m.__dict__["__kskm_verif_stub__"] = True
        sys.modules[name] = m
        return m

    uv = mod("uvicorn", run=run)
    uv.protocols = mod("uvicorn.protocols")
    uv.protocols.http = mod("uvicorn.protocols.http")
    uv.protocols.http.httptools_impl = mod("uvicorn.protocols.http.httptools_impl", HttpToolsProtocol=_HttpToolsProtocol)
    return calls


def load_tool() -> tuple[Any, list[dict[str, Any]]]:
    """Import kskm.tools.wksr from the working tree with the stubs in place; (module, calls)."""
    wksr_stubs.install()
    calls = install_uvicorn_stub()
    import kskm.tools.wksr as tool

    # a previous import may hold an older `run`: point the module's name at the current recorder
    tool.uvicorn.run = lambda *a, **kw: calls.append({"args": a, "kwargs": kw})
    return tool, calls


def make_site(d: Path) -> dict[str, Any]:
    """Files a valid wksr.yaml names (FilePath fields need existing files); the base document."""
    for n in ("cert.pem", "key.pem", "ca.pem", "upload.html", "result.html", "email.txt", "ksrsigner.yaml"):
        (d / n).write_text("x\n")
    (d / "up").mkdir(exist_ok=True)
    return {
        "tls": {"cert": str(d / "cert.pem"), "key": str(d / "key.pem"), "ca_cert": str(d / "ca.pem"), "require_client_cert": True},
        "ksr": {"upload_path": str(d / "up")},
        "templates": {"upload": str(d / "upload.html"), "result": str(d / "result.html"), "email": str(d / "email.txt")},
    }


@contextlib.contextmanager
def _quiet_logging(tool: Any) -> Iterator[list[Any]]:
    """`main()` calls logging.basicConfig: record the call, leave the process' logging as it was."""
    seen: list[Any] = []
    orig = logging.basicConfig
    logging.basicConfig = lambda *a, **kw: seen.append(kw)  # type: ignore[assignment]
    try:
        yield seen
    finally:
        logging.basicConfig = orig  # type: ignore[assignment]


def run_main(config_file: Path, extra_argv: list[str] | None = None) -> dict[str, Any]:
    """The real main() on `--config config_file`: {"kwargs": …, "app": …} or {"error": kind, "exc": …}."""
    tool, calls = load_tool()
    del calls[:]
    argv = sys.argv
    sys.argv = ["kskm-wksr", "--config", str(config_file)] + list(extra_argv or [])
    try:
        with _quiet_logging(tool) as seen:
            try:
                tool.main()
            except SystemExit as e:
                return {"error": "exit", "code": e.code}
            except Exception as e:  # noqa: BLE001
                return {"error": lib.error_kind(e), "exc": type(e).__name__}
    finally:
        sys.argv = argv
    if len(calls) != 1:
        return {"error": "no-run", "calls": len(calls)}
    kw = dict(calls[0]["kwargs"])
    app = kw.get("app")
    return {"kwargs": kw, "app": app, "positional": len(calls[0]["args"]), "basicConfig": seen}
