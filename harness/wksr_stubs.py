"""Stub modules for the web framework `kskm.wksr.server` imports (fastapi / starlette are not
installed in the verification environment), and fake app / request / upload objects.

Only the names `server.py` and `peercert.py` import are provided; they carry exactly the behaviour
those two files rely on:
  * `HTTPException(status_code=…)` is an exception that keeps `status_code`;
  * `status.HTTP_400_BAD_REQUEST / HTTP_403_FORBIDDEN / HTTP_413_REQUEST_ENTITY_TOO_LARGE`;
  * `APIRouter().get/post` are pass-through decorators; `FastAPI`, `BaseHTTPMiddleware` are plain bases.
The TLS session, the ASGI stack and multipart parsing are NOT exercised (DESIGN.md §4 C20 Limits).
"""

from __future__ import annotations

import datetime as _dt
import sys
import types
from typing import Any


class HTTPException(Exception):
    def __init__(self, status_code: int, detail: Any = None, headers: Any = None) -> None:
        super().__init__(f"HTTP {status_code}")
        self.status_code = status_code
        self.detail = detail
        self.headers = headers


class _Status:
    HTTP_400_BAD_REQUEST = 400
    HTTP_403_FORBIDDEN = 403
    HTTP_413_REQUEST_ENTITY_TOO_LARGE = 413


class APIRouter:
    def _deco(self, *a: Any, **kw: Any) -> Any:
        def wrap(fn: Any) -> Any:
            return fn

        return wrap

    get = post = put = delete = _deco


class FastAPI:
    def __init__(self, *a: Any, **kw: Any) -> None:
        pass

    def include_router(self, *a: Any, **kw: Any) -> None:
        pass

    def add_middleware(self, *a: Any, **kw: Any) -> None:
        pass


class Request:  # only used in annotations
    pass


class Response:
    pass


class UploadFile:
    pass


class Jinja2Templates:
    def __init__(self, *a: Any, **kw: Any) -> None:
        pass


class BaseHTTPMiddleware:
    def __init__(self, app: Any = None, *a: Any, **kw: Any) -> None:
        self.app = app


class RequestResponseEndpoint:
    pass


class _TemplateResponse:
    pass


def install() -> None:
    """Put the stubs into sys.modules unless the real packages are importable."""
    try:
        import fastapi  # noqa: F401
        import starlette  # noqa: F401

        return
    except ImportError:
        pass

    def mod(name: str, **attrs: Any) -> types.ModuleType:
        m = types.ModuleType(name)
        m.__dict__.update(attrs)
        m.__dict__["__kskm_verif_stub__"] = True
        sys.modules[name] = m
        return m

    fastapi = mod(
        "fastapi",
        APIRouter=APIRouter,
        FastAPI=FastAPI,
        HTTPException=HTTPException,
        Request=Request,
        Response=Response,
        UploadFile=UploadFile,
        status=_Status,
    )
    fastapi.templating = mod("fastapi.templating", Jinja2Templates=Jinja2Templates)
    st = mod("starlette")
    st.middleware = mod("starlette.middleware")
    st.middleware.base = mod(
        "starlette.middleware.base", BaseHTTPMiddleware=BaseHTTPMiddleware, RequestResponseEndpoint=RequestResponseEndpoint
    )
    st.templating = mod("starlette.templating", _TemplateResponse=_TemplateResponse)


def load_server() -> Any:
    """Import kskm.wksr.server (from the repo working tree) with the stubs in place."""
    install()
    import kskm.wksr.server as server

    return server


def http_exception_class() -> type:
    import fastapi

    return fastapi.HTTPException


# --------------------------------------------------------------------------------------
# fake objects
# --------------------------------------------------------------------------------------


class FakeKsrConfig:
    def __init__(self, max_size: int, content_type: str, upload_path: Any, ksrsigner_configfile: Any = None) -> None:
        self.max_size = max_size
        self.content_type = content_type
        self.upload_path = upload_path
        self.ksrsigner_configfile = ksrsigner_configfile


class FakeTls:
    def __init__(self, client_whitelist: list[str]) -> None:
        self.client_whitelist = client_whitelist


class FakeConfig:
    def __init__(self, ksr: FakeKsrConfig, tls: FakeTls | None = None) -> None:
        self.ksr = ksr
        self.tls = tls or FakeTls([])
        self.notify = None


class FakeApp:
    def __init__(self, config: Any) -> None:
        self.config = config


class FakeUpload:
    """What save_ksr touches of a starlette UploadFile: content_type, size, filename, async read()."""

    def __init__(self, filename: Any, content_type: Any, size: Any, body: bytes) -> None:
        self.filename = filename
        self.content_type = content_type
        self.size = size
        self._body = body
        self.reads = 0

    async def read(self, size: int = -1) -> bytes:
        self.reads += 1
        return self._body


class _SslObject:
    def __init__(self, der: bytes | None) -> None:
        self._der = der

    def getpeercert(self, binary_form: bool = False) -> Any:
        assert binary_form is True
        return self._der


class _Transport:
    def __init__(self, ssl_object: Any) -> None:
        self._ssl = ssl_object

    def get_extra_info(self, name: str, default: Any = None) -> Any:
        if name == "ssl_object":
            return self._ssl
        return default


class _Client:
    host = "192.0.2.1"


class FakeRequest:
    """peer = "noTls" (no ssl object), "noCert" (TLS, no client certificate), or DER bytes."""

    def __init__(self, app: Any, peer: Any) -> None:
        self.app = app
        self.client = _Client()
        if isinstance(peer, str) and peer == "noTls":
            ssl_object = None
        elif isinstance(peer, str) and peer == "noCert":
            ssl_object = _SslObject(None)
        else:
            ssl_object = _SslObject(peer)
        self.scope = {"transport": _Transport(ssl_object)}


def make_cert(cn: str, key_seed: int = 0, ec: bool = False) -> bytes:
    """A real self-signed X.509 certificate (DER), generated with `cryptography`."""
    from cryptography import x509
    from cryptography.hazmat.primitives import hashes, serialization
    from cryptography.hazmat.primitives.asymmetric import ec as _ec
    from cryptography.hazmat.primitives.asymmetric import rsa
    from cryptography.x509.oid import NameOID

    key: Any = _ec.generate_private_key(_ec.SECP256R1()) if ec else rsa.generate_private_key(public_exponent=65537, key_size=2048)
    name = x509.Name([x509.NameAttribute(NameOID.COMMON_NAME, cn)])
    now = _dt.datetime(2026, 1, 1, tzinfo=_dt.timezone.utc)
    cert = (
        x509.CertificateBuilder()
        .subject_name(name)
        .issuer_name(name)
        .public_key(key.public_key())
        .serial_number(1000 + key_seed)
        .not_valid_before(now)
        .not_valid_after(now + _dt.timedelta(days=30))
        .sign(key, hashes.SHA256())
    )
    return cert.public_bytes(serialization.Encoding.DER)


class FixedClock:
    """Replace the module-level `datetime` name of kskm.wksr.server so that `datetime.now(UTC)` is pinned."""

    def __init__(self, server: Any, when: _dt.datetime) -> None:
        self.server = server
        self.when = when
        self.orig = server.datetime
        clock = self

        class _DT(_dt.datetime):
            @classmethod
            def now(cls, tz: Any = None) -> Any:  # type: ignore[override]
                return clock.when.astimezone(tz) if tz else clock.when.replace(tzinfo=None)

        self.cls = _DT

    def __enter__(self) -> "FixedClock":
        self.server.datetime = self.cls
        return self

    def __exit__(self, *a: Any) -> None:
        self.server.datetime = self.orig
