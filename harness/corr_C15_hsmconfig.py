"""C15 (work package B1) — the rest of kskm/misc/hsm.py: parse_hsmconfig / load_hsmconfig / find_key_by_id / the `name` filter.

Streams (all randomness from lib.rng):
  (h1) parse_hsmconfig on generated line lists (the REAL function, in-process) vs the Lean model
       (`hsmcfg_parse`, lean/Kskm/HsmConfig.lean) vs an independent reference interpreter written from the docstring
       with other primitives (partition / manual scan / split+join), three-way;
  (h2) load_hsmconfig on real files (LF / CRLF / CR / no final newline, UTF-8 names), defaults None / {} / non-empty,
       os.environ patched, with and without PKCS11_LIBRARY_PATH;
  (h3) the helpers one by one: `re.search(r"\\$(\\w+)")` / `str.replace` / text-mode line iteration vs the model's;
  (h4) find_key_by_id against harness/p11emu.py worlds (objects of every class sharing / not sharing CKA_ID, unknown key
       types, unreadable attributes, faults), log replay as in the other C15 streams;
  (h5) init_pkcs11_modules(config, name): only the named module is initialised; unknown name is an error; "" = no filter.

Decision (executable specification evaluated on the implementation's own output, independent of the model):
  * a returned dict never holds "$" followed by a word character (word character judged by str.isalnum() / "_");
  * a source of max_lines or more lines (max_lines > 0) is never accepted;
  * a reference to a variable that is undefined or empty at that point is never accepted (fail closed), nor a line without "=";
  * keys come out in order of first assignment, and a "$"-free file maps every key to its last right-hand side verbatim;
  * find_key_by_id returns only public / private key objects whose CKA_ID is the one asked for, the handle on the side of
    the object's class and nothing on the other side, in handle order;
  * init_pkcs11_modules with a name loads that module only.
"""

from __future__ import annotations

import os
import re
import tempfile
from pathlib import Path
from typing import Any
from unittest import mock

import lib
import p11emu
from lib import Result, hexs

DRIVER = "kskm_driver_hsmcfg"

ASSUMPTIONS = [
    "hsmconfig: `defaults` maps names to str (os.environ does); non-string default values are outside the model",
    "load_hsmconfig: the file decodes under the locale encoding (UTF-8 here); decoding itself is Python's, the model starts from the decoded text",
]
TRUSTED = [
    "CPython `re` (\\w) and `str.strip` character classes as tabulated into lean/KskmGen/Tables.lean on every run (wordRanges / stripRanges)",
    "CPython text-mode universal-newline line iteration (modelled by textLines, compared on every h2/h3 case)",
]

# ---------------------------------------------------------------------------------------------------------------------
# independent reference interpreter (from the docstring; different primitives than the code)
# ---------------------------------------------------------------------------------------------------------------------


def is_word(ch: str) -> bool:
    return ch == "_" or ch.isalnum()


def first_var(s: str) -> str | None:
    i = 0
    while True:
        i = s.find("$", i)
        if i < 0:
            return None
        j = i + 1
        while j < len(s) and is_word(s[j]):
            j += 1
        if j > i + 1:
            return s[i + 1 : j]
        i += 1


def ref_parse(lines: list[str], defaults: dict[str, str], max_lines: int) -> tuple[Any, str]:
    """(outcome, reason).  outcome: {"ok": [[k, v], …]} or {"error": …}."""
    out: dict[str, str] = {}
    seen = 0
    for raw in lines:
        seen += 1
        if seen == max_lines:
            return {"error": "runtime"}, "too-long"
        text = raw.strip()
        if text == "" or text[0] == "#":
            continue
        name, eq, value = text.partition("=")
        if eq == "":
            return {"error": "value"}, "no-equals"
        while (var := first_var(value)) is not None:
            sub = out[var] if var in out else defaults.get(var)
            if sub is None or sub == "":
                return {"error": "runtime"}, "undefined"
            if sub.count("$"):
                return {"error": "value"}, "dollar-in-value"
            value = sub.join(value.split("$" + var))
        out[name] = value
    return {"ok": [[k, v] for k, v in out.items()]}, "ok"


# ---------------------------------------------------------------------------------------------------------------------
# generators
# ---------------------------------------------------------------------------------------------------------------------

NAMES = ["HOME", "FOO", "FOO_BAR", "A", "B", "PKCS11_LIBRARY_PATH", "LD_LIBRARY_PATH", "KEYPER_LIBRARY_PATH", "x1", "_u", "ÄÖ", "变量", "x²", "ǅ", "٣", "ſ"]
ODD_NAMES = ["A ", " B", "", "A-B", "a.b", "$X", "#k", "K "]
WS = [" ", "\t", " ", " ", "\x1c", "\x0b", "\x85", "　", "​", "﻿"]
EOL = ["\n", "\n", "\n", "\r\n", "", "\r", "\n\n", " \n"]
LIT = ["/usr/lib", "/opt/hsm/AEP", "pkcs11.so", "x", "=", "a=b", "#", " ", "\t", "-", ".", ":", "é", " ", "{", "}", "\\", "'", '"']


def gen_value(r: Any, known: list[str]) -> str:
    parts = []
    for _ in range(r.choice([0, 1, 1, 2, 2, 3, 4])):
        k = r.random()
        if k < 0.35:
            parts.append(r.choice(LIT))
        elif k < 0.70:
            parts.append("$" + r.choice(known or NAMES))
        elif k < 0.78:
            parts.append("$" + r.choice(NAMES))
        elif k < 0.84:
            parts.append("$" + r.choice(known or NAMES) + r.choice(["_BAR", "2", "x", "_", "é", "²"]))  # prefix overlap
        elif k < 0.88:
            parts.append("${" + r.choice(NAMES) + "}")
        elif k < 0.94:
            parts.append(r.choice(["$", "$$", "$ ", "$-", "$/"]))
        else:
            parts.append("$" + r.choice(known or NAMES) + "$" + r.choice(NAMES))
    return "".join(parts)


def gen_lines(r: Any, defaults: dict[str, str]) -> list[str]:
    n = r.choice([0, 1, 2, 3, 3, 4, 5, 6, 8, 12])
    lines: list[str] = []
    known = list(defaults)
    for _ in range(n):
        k = r.random()
        lead = "".join(r.choice(WS) for _ in range(r.choice([0, 0, 0, 1, 2])))
        trail = "".join(r.choice(WS) for _ in range(r.choice([0, 0, 0, 1])))
        if k < 0.10:
            body = "#" + r.choice(["", " comment", "A=$UNDEFINED", "="])
        elif k < 0.18:
            body = ""
        elif k < 0.22:
            body = r.choice(["novalue", "$FOO", "A:b", " x"])
        else:
            name = r.choice(NAMES) if r.random() < 0.9 else r.choice(ODD_NAMES)
            if r.random() < 0.15 and known:
                name = r.choice(known)  # overwrite / self reference
            val = gen_value(r, known)
            if r.random() < 0.06:
                val = "$" + name + val  # self reference
            body = name + r.choice(["=", "=", "=", " = ", "=="]) + val
            known.append(name)
        lines.append(lead + body + trail + r.choice(EOL))
    return lines


def gen_defaults(r: Any) -> dict[str, str]:
    k = r.random()
    if k < 0.25:
        return {}
    d: dict[str, str] = {}
    for _ in range(r.choice([1, 2, 3, 5])):
        name = r.choice(NAMES)
        d[name] = r.choice(["/home/u", "v", "/x/y", "", "a$b", "$HOME", "1", " ", "é", "v w"])
    return d


def limit_cases(r: Any) -> list[tuple[list[str], dict[str, str], int]]:
    out = []
    for n in (97, 98, 99, 100, 101, 102):
        for kind in ("assign", "blank", "comment", "mixed"):
            ls = []
            for i in range(n):
                if kind == "assign" or (kind == "mixed" and i % 3 == 0):
                    ls.append(f"K{i % 7}=v{i}\n")
                elif kind == "blank" or (kind == "mixed" and i % 3 == 1):
                    ls.append("\n")
                else:
                    ls.append("# c\n")
            out.append((ls, {}, 100))
    for ml in (-3, -1, 0, 1, 2, 3, 4, 5):
        for n in (0, 1, 2, 3, 4, 5, 6):
            out.append(([f"A{i}=x\n" if i % 2 == 0 else "\n" for i in range(n)], {}, ml))
    # the line that would be refused is also malformed / undefined: which error is immaterial, success is not
    out.append((["A=1\n", "bad\n"], {}, 2))
    out.append((["A=1\n", "B=$NOPE\n"], {}, 2))
    return out


FIXED = [
    (["KEYPER_LIBRARY_PATH=$HOME/dnssec/ksr/AEP\n", "LD_LIBRARY_PATH=$KEYPER_LIBRARY_PATH\n", "PKCS11_LIBRARY_PATH=$KEYPER_LIBRARY_PATH/pkcs11.GCC4.0.2.so.4.07\n"], {"HOME": "/home/u"}, 100),
    (["FOO=a\n", "FOO_BAR=b\n", "X=$FOO/$FOO_BAR\n"], {}, 100),  # "$FOO" inside "$FOO_BAR" is replaced too
    (["FOO_BAR=b\n", "FOO=a\n", "X=$FOO_BAR/$FOO\n"], {}, 100),
    (["A=\n", "B=$A\n"], {"A": "dflt"}, 100),  # a key in res wins over defaults even when empty
    (["A=$A\n"], {}, 100),
    (["A=$A\n"], {"A": "x"}, 100),
    (["A=x\n", "A=$A$A\n", "A=$A$A\n"], {}, 100),
    (["A=$B\n"], {"B": "$C", "C": "x"}, 100),
    (["A=${B}\n"], {"B": "x"}, 100),
    (["A=$ B\n", "C=$$\n", "D=$\n"], {"B": "x"}, 100),
    (["A=x=y\n", "B==\n", "=v\n", "C=$\n"], {}, 100),
    (["  # c\r\n", "\t\r\n", "A=1\r\n", "B=$A\r\n"], {}, 100),
    ([" A=1 \n", "B=$A\n"], {}, 100),
    (["变量=1\n", "B=$变量x\n", "C=$变量/\n"], {"变量x": "q"}, 100),
    (["x²=1\n", "B=$x²\n", "C=$x\n"], {"x": "k"}, 100),
    (["A=a$\n", "B=$A\n"], {}, 100),  # a value of res containing "$" (left by the loop) is refused when used
    (["A=1\nB=2\n", "C=$A\n"], {}, 100),  # one element holding an inner newline (iterator of arbitrary strings)
    (["A = 1\n", "B=$A\n", "C=$A \n"], {"A": "d"}, 100),  # key "A " is not "A"
]


def dict_j(d: Any) -> list[list[str]]:
    return [[k, v] for k, v in d.items()]


def jsonable(s: str) -> bool:
    return all(ord(c) < 0x10000 and not 0xD800 <= ord(c) < 0xE000 for c in s)


# ---------------------------------------------------------------------------------------------------------------------
# find_key_by_id: a session wrapper that lets the emulator match CKA_ID (tuple of ints) and records it as hex
# ---------------------------------------------------------------------------------------------------------------------


class IdSession:
    def __init__(self, inner: Any) -> None:
        self.inner = inner
        self.lib = inner.lib
        self.slot = inner.slot
        self.world = inner.world

    def findObjects(self, template: Any = ()) -> list[Any]:
        tmpl = [(int(a), tuple(v) if isinstance(v, (tuple, list, bytes)) else v) for a, v in template]
        rec, fault = self.world.step(
            "findObjects",
            template=[[p11emu.ATTR_NAMES.get(a, str(a)), hexs(bytes(v)) if isinstance(v, tuple) else v] for a, v in tmpl],
            **self.inner._base(),
        )
        res = [h for h, o in sorted(self.slot.objects.items()) if all(o.attr(a) == v for a, v in tmpl)]
        if fault:
            if fault["kind"] == "missing":
                res = []
            elif fault["kind"] == "duplicate" and res:
                res = res + [res[0]]
        rec["ans"] = list(res)
        return [p11emu.mk_handle(h) for h in res]

    def getAttributeValue(self, obj_id: Any, attr: Any, allAsBinary: bool = False) -> list[Any]:
        return self.inner.getAttributeValue(obj_id, attr, allAsBinary)


def id_worlds(r: Any, tier: str) -> list[dict[str, Any]]:
    """Object lists for one slot: (cls, keyType, id, label, profile)."""
    ids = [b"", b"\x01", b"\x01\x02", b"\xff" * 4]
    shapes: list[dict[str, Any]] = []
    n = 40 if tier == "quick" else 300
    for i in range(n):
        objs = []
        for _ in range(r.choice([0, 1, 2, 3, 4, 6])):
            cls = r.choice([2, 2, 3, 3, 4, 1, 0])  # public, private, secret, certificate, data
            kt = r.choice(["rsa", "rsa", "ec", "ec", "ec_bare", "aes", "des3", "dsa", "none", "ec_nopoint", "ec_badoid", "rsa_noexp"])
            if cls == 4:
                kt = r.choice(["aes", "des3", "aes", "rsa"])
            objs.append({"cls": cls, "kt": kt, "id": hexs(r.choice(ids)), "label": r.choice(["L", "M", "", None, "é"])})
        shapes.append({"objects": objs, "ask": hexs(r.choice(ids)), "fault": r.choice([None, None, None, None, "error", "unreadable", "missing", "duplicate"]), "fault_at": r.randrange(0, 8)})
    return shapes


def build_id_world(shape: dict[str, Any], keyset: dict[str, Any]) -> tuple[Any, Any]:
    import PyKCS11.LowLevel as LL

    import keys as K

    es = p11emu.EmuSlot(0)
    for o in shape["objects"]:
        kt = o["kt"]
        kid = bytes.fromhex(o["id"])
        if kt.startswith("rsa"):
            tk = keyset["rsa"]
            attrs = {int(LL.CKA_MODULUS): tk.modulus_bytes(), int(LL.CKA_PUBLIC_EXPONENT): tk.exponent_bytes()}
            if kt == "rsa_noexp":
                del attrs[int(LL.CKA_PUBLIC_EXPONENT)]
            ckk: Any = LL.CKK_RSA
        elif kt.startswith("ec"):
            tk = keyset["ec"]
            pt = tk.ec_point(prefix=True)
            if kt != "ec_bare":
                pt = bytes([4, len(pt)]) + pt
            attrs = {int(LL.CKA_EC_POINT): pt, int(LL.CKA_EC_PARAMS): K.EC_OID[tk.curve]}
            if kt == "ec_nopoint":
                del attrs[int(LL.CKA_EC_POINT)]
            if kt == "ec_badoid":
                attrs[int(LL.CKA_EC_PARAMS)] = b"\x06\x01\x00"
            ckk = LL.CKK_EC
        else:
            tk = None
            attrs = {}
            ckk = {"aes": LL.CKK_AES, "des3": LL.CKK_DES3, "dsa": LL.CKK_DSA, "none": None}[kt]
        es.add(p11emu.EmuObject(o["cls"], o["label"], ckk, attrs, tk, kid))
    world = p11emu.World([p11emu.EmuModule("emu0", [es])])
    return world, es


def spec_find_by_id(shape: dict[str, Any], impl: Any) -> str | None:
    """The property on the implementation's own answer (fault-free runs): only public/private key objects carrying the
    identifier, every one of them, in handle order, handle on the side of the object's class."""
    if not (isinstance(impl, dict) and "ok" in impl):
        return None
    want = [(h, o) for h, o in enumerate(shape["objects"], start=1) if o["id"] == shape["ask"] and o["cls"] in (2, 3)]
    got = impl["ok"]
    if len(got) != len(want):
        return f"{len(got)} keys returned, {len(want)} public/private key objects carry the identifier"
    for k, (h, o) in zip(got, want):
        side, other = ("pubHandle", "privHandle") if o["cls"] == 2 else ("privHandle", "pubHandle")
        if k["keyClass"] != o["cls"] or k[side] != h or k[other] is not None or k["label"] != o["label"]:
            return f"object {h} (class {o['cls']}) came back as {k}"
    return None


# ---------------------------------------------------------------------------------------------------------------------
# the stream
# ---------------------------------------------------------------------------------------------------------------------


def run_stream(res: Result, tier: str, driver_ok: bool = True) -> None:
    from kskm.misc import hsm as H

    r = lib.rng("C15-hsmconfig")
    res.rule += (
        "; (f) the rest of misc/hsm.py: parse_hsmconfig on generated line lists (comments, blank lines, CRLF / CR / no newline, tabs and Unicode "
        "white space, Unicode word characters in names, '$' chains, self reference, prefix-overlapping names, '=' in values, empty values, "
        "97..102 lines x assignment / blank / comment, max_lines -3..5, defaults empty / non-empty / with '$' / empty values / non-string values) "
        "three-way: implementation / model driver kskm_driver_hsmcfg / independent reference reading; load_hsmconfig on real files with "
        "defaults None / {} / given, patched os.environ, with / without PKCS11_LIBRARY_PATH; re.search / str.replace / text-mode line iteration "
        "against the model's scanner, replace and textLines; find_key_by_id on emulator slots holding objects of every class with / without the "
        "CKA_ID asked for, unknown key types, unreadable attributes, faults (log replay); init_pkcs11_modules(config, name) for 1..3 modules x "
        "name None / '' / present / absent"
    )
    lines: list[dict[str, Any]] = []
    checks: list[dict[str, Any]] = []

    # ---- (h1) parse_hsmconfig ---------------------------------------------------------------------------------------
    cases: list[tuple[list[str], dict[str, str], int]] = list(FIXED) + limit_cases(r)
    n_rand = 1500 if tier == "quick" else 20000
    for _ in range(n_rand):
        d = gen_defaults(r)
        ls = gen_lines(r, d)
        ml = 100 if r.random() < 0.8 else r.choice([-1, 0, 1, 2, 3, 5, 8, len(ls), len(ls) + 1, len(ls) + 2])
        cases.append((ls, d, ml))
    for ls, d, ml in cases:
        case = {"hsmconfig": "parse", "lines": ls, "defaults": dict_j(d), "maxLines": ml}
        if ml == 100 and len(cases) % 2 == 0:
            impl = lib.run_impl(lambda: H.parse_hsmconfig(iter(ls), Path("gen.hsmconfig"), dict(d)), dict_j)  # the default limit
        else:
            impl = lib.run_impl(lambda: H.parse_hsmconfig(iter(ls), Path("gen.hsmconfig"), dict(d), ml), dict_j)
        ref, reason = ref_parse(ls, d, ml)
        res.count(case)
        res.bump("hsmconfig:parse:" + reason)
        res.bump("hsmconfig:lines:" + ("0" if not ls else "1-3" if len(ls) <= 3 else "4-12" if len(ls) <= 12 else "97+"))
        if reason == "ok" and ref["ok"]:
            res.sample({"hsmconfig": ls[:4], "defaults": d, "result": impl}, limit=7)
        judge_parse(res, case, ls, d, ml, impl, ref, reason)
        if all(jsonable(x) for x in ls):
            lines.append({"op": "hsmcfg_parse", "lines": ls, "defaults": dict_j(d), "maxLines": ml})
            checks.append({"what": "hsmcfg_parse", "case": case, "impl": impl})

    # ---- (h1m) malformed: default values that are not strings (outside the model: judged by the specification only) -----
    odd_vals: list[Any] = [None, 0, 5, 1.5, False, True, b"x", b"", [], ["a"], ("$",), {"a": 1}]
    for v in odd_vals:
        for ls in (["A=$X\n"], ["A=1\n", "B=$A$X\n"], ["X=ok\n", "B=$X\n"], ["B=x\n"], ["B=$\n", "C=$X_\n"]):
            dd: dict[str, Any] = {"X": v, "Y": "y"}
            case = {"hsmconfig": "parse-malformed-defaults", "lines": ls, "default_X": repr(v)}
            impl = lib.run_impl(lambda: H.parse_hsmconfig(iter(ls), Path("gen.hsmconfig"), dd, 100), lambda x: [[k, w if isinstance(w, str) else repr(w)] for k, w in x.items()])
            res.count(case)
            res.unsupported += 1
            res.bump("hsmconfig:parse:malformed-defaults:" + ("ok" if "ok" in impl else "error"))
            uses_default = not any(x.startswith("X=") for x in ls) and any("$X" in x and "$X_" not in x for x in ls)
            if "ok" in impl:
                if uses_default and not (isinstance(v, str) and v):
                    res.violation("hsmconfig: a reference to a default that is not a non-empty string was accepted", case, key="hsmconfig:fail-open:odd-default", impl=impl)
                for _k, w in impl["ok"]:
                    if any(ch == "$" and is_word(w[i + 1]) for i, ch in enumerate(w[:-1])):
                        res.violation("hsmconfig: a returned value still holds a variable reference", case, key="hsmconfig:uninterpolated", impl=impl)
    for ls_bad in ([b"A=1\n"], [None], ["A=1\n", 5], [["A=1"]]):
        case = {"hsmconfig": "parse-malformed-lines", "lines": repr(ls_bad)}
        impl = lib.run_impl(lambda: H.parse_hsmconfig(iter(ls_bad), Path("gen.hsmconfig"), {}, 100), dict_j)  # type: ignore[arg-type]
        res.count(case)
        res.unsupported += 1
        res.bump("hsmconfig:parse:malformed-lines:" + ("ok" if "ok" in impl else "error"))
        if "ok" in impl:
            res.violation("hsmconfig: lines that are not text were accepted", case, key="hsmconfig:non-text", impl=impl)

    # ---- (h2) load_hsmconfig on real files --------------------------------------------------------------------------
    n_load = 250 if tier == "quick" else 3000
    with tempfile.TemporaryDirectory(prefix="verif_hsmcfg_") as td:
        for i in range(n_load):
            envadd = {"HOME": "/home/verif", "VERIF_HSMCFG_X": r.choice(["x", "", "a$b"])}
            mode = r.choice(["none", "empty", "given", "given"])
            d = None if mode == "none" else {} if mode == "empty" else (gen_defaults(r) or {"HOME": "/h"})
            src = d if d else envadd
            ls = gen_lines(r, dict(src))
            if r.random() < 0.6:
                ls.insert(r.randrange(0, len(ls) + 1), "PKCS11_LIBRARY_PATH=" + r.choice(["/usr/lib/p11.so", "$HOME/p11.so", "$VERIF_HSMCFG_X", ""]) + r.choice(["\n", "\r\n", "\r", ""]))
            text = "".join(ls)
            if i % 25 == 0:
                text = "".join(f"K{j}=v\n" for j in range(r.choice([98, 99, 100]))) + "PKCS11_LIBRARY_PATH=/x\n" * (i % 50 == 0)
            if not jsonable(text):
                continue
            fn = Path(td) / f"c{i}.hsmconfig"
            fn.write_bytes(text.encode("utf-8"))
            ml = 100 if r.random() < 0.85 else r.choice([0, 2, 5, -1])
            with mock.patch.dict(os.environ, envadd):
                environ = dict(os.environ)
                if ml == 100 and i % 2 == 0:
                    impl = lib.run_impl(lambda: (H.load_hsmconfig(fn) if d is None else H.load_hsmconfig(fn, dict(d))), dict_j)  # default arguments
                else:
                    impl = lib.run_impl(lambda: H.load_hsmconfig(fn, None if d is None else dict(d), ml), dict_j)
                with open(fn) as fd:
                    real_lines = list(fd)
            eff = d if d else environ
            ref, reason = ref_parse(real_lines, eff, ml)
            if reason == "ok" and "PKCS11_LIBRARY_PATH" not in dict(ref["ok"]):
                ref, reason = {"error": "runtime"}, "no-library-path"
            case = {"hsmconfig": "load", "text": text, "defaults": None if d is None else dict_j(d), "maxLines": ml, "environ_added": envadd}
            res.count(case)
            res.bump("hsmconfig:load:" + reason)
            res.bump("hsmconfig:load:defaults-" + mode)
            judge_parse(res, case, real_lines, eff, ml, impl, ref, reason)
            if reason == "no-library-path" and "ok" in impl:
                res.violation("load_hsmconfig accepted a file that does not set PKCS11_LIBRARY_PATH", case, key="hsmconfig:no-library-path", impl=impl)
            if all(jsonable(k) and jsonable(v) for k, v in environ.items()):
                lines.append({"op": "hsmcfg_load", "text": text, "defaults": None if d is None else dict_j(d), "environ": dict_j(environ), "maxLines": ml})
                checks.append({"what": "hsmcfg_load", "case": case, "impl": impl})
                lines.append({"op": "hsmcfg_text_lines", "text": text})
                checks.append({"what": "hsmcfg_text_lines", "case": {"hsmconfig": "text_lines", "text": text}, "impl": real_lines})

    # ---- (h3) helpers -----------------------------------------------------------------------------------------------
    n_help = 600 if tier == "quick" else 6000
    for _ in range(n_help):
        known = [r.choice(NAMES) for _ in range(2)]
        s = gen_value(r, known) + r.choice(["", "$", "$" + known[0]])
        m = re.search(r"\$(\w+)", s)
        case = {"hsmconfig": "search_var", "text": s}
        res.count(case)
        res.bump("hsmconfig:search:" + ("match" if m else "none"))
        if m is not None and first_var(s) != m.group(1) or m is None and first_var(s) is not None:
            res.disagreement("reference scanner != re.search", case, m and m.group(1), first_var(s))
        lines.append({"op": "hsmcfg_search_var", "text": s})
        checks.append({"what": "hsmcfg_search_var", "case": case, "impl": m.group(1) if m else None})
        pat = "$" + r.choice(known)
        val = r.choice(["v", "", "/a/b", "FOO", pat[1:], "é"])
        case = {"hsmconfig": "replace", "text": s, "pat": pat, "val": val}
        res.count(case)
        lines.append({"op": "hsmcfg_replace", "text": s, "pat": pat, "val": val})
        checks.append({"what": "hsmcfg_replace", "case": case, "impl": s.replace(pat, val)})
    for s, pat, val in [("aaaa", "aa", "b"), ("aaa", "aa", "b"), ("$A$A$AB", "$A", "$A"), ("abab", "ab", "abab"), ("", "x", "y"), ("$FOO_BAR$FOO", "$FOO", "1")]:
        lines.append({"op": "hsmcfg_replace", "text": s, "pat": pat, "val": val})
        checks.append({"what": "hsmcfg_replace", "case": {"hsmconfig": "replace", "text": s, "pat": pat, "val": val}, "impl": s.replace(pat, val)})
        res.count({"hsmconfig": "replace", "text": s, "pat": pat, "val": val})

    # ---- (h4) find_key_by_id ----------------------------------------------------------------------------------------
    import ceremony as C
    import keys as K
    from corr_C15 import key_j, mk_cfg

    keyset = {"rsa": K.rsa_keys()[0], "ec": K.ec_keys()[0]}
    for shape in id_worlds(r, tier):
        world, _es = build_id_world(shape, keyset)
        cfg = mk_cfg([{"path": "emu0"}])
        ask = bytes.fromhex(shape["ask"])
        with world.installed():
            mods = H.init_pkcs11_modules(cfg)
            sess = IdSession(mods[0].sessions[0])
            n0 = len(world.log)
            if shape["fault"]:
                world.plan[n0 + shape["fault_at"]] = {"kind": shape["fault"]}
            impl = lib.run_impl(lambda: mods[0].find_key_by_id(tuple(ask), sess), lambda ks: [key_j(k) for k in ks])  # type: ignore[arg-type]
        log = C.canon_log(world.log[n0:])
        faulted = any("fault" in rec for rec in world.log[n0:])
        case = {"hsmconfig": "find_key_by_id", **shape}
        res.count(case)
        res.bump("hsmconfig:find_key_by_id:" + ("ok" if "ok" in impl else "error") + (":fault" if faulted else ""))
        if not faulted:
            bad = spec_find_by_id(shape, impl)
            if bad:
                res.violation("find_key_by_id: " + bad, case, key="hsmconfig:find_key_by_id", impl=impl)
        lines.append({"op": "find_key_by_id", "module": "emu0", "slot": 0, "keyId": shape["ask"], "log": log})
        checks.append({"what": "find_key_by_id", "case": case, "impl": impl, "log": log})

    # ---- (h5) init_pkcs11_modules(config, name) -----------------------------------------------------------------------
    for labels in (["a"], ["a", "b"], ["b", "a", "c"]):
        for name in [None, "", "a", "b", "c", "zz", "A"]:
            world = p11emu.World([p11emu.EmuModule(f"emu_{x}", [p11emu.EmuSlot(0)]) for x in labels])
            cfg = C.make_config({x: {"module": f"emu_{x}", "pin": "1234"} for x in labels}, {}, {})
            got_labels = list(cfg.hsm.keys())
            with world.installed():
                impl = lib.run_impl(lambda: H.init_pkcs11_modules(cfg, name=name), lambda ms: [m.label for m in ms])
            loaded = [rec["module"] for rec in world.log if rec["op"] == "load"]
            case = {"hsmconfig": "init_name", "labels": got_labels, "name": name}
            res.count(case)
            res.bump("hsmconfig:init_name:" + ("all" if not name else "hit" if name in got_labels else "miss"))
            if not name:
                want: Any = {"ok": got_labels}
            elif name in got_labels:
                want = {"ok": [name]}
            else:
                want = "error"
            if want == "error":
                if "ok" in impl or loaded:
                    res.violation("init_pkcs11_modules: unknown HSM name not refused / a module was loaded", case, key="hsmconfig:init-name", impl=impl, loaded=loaded)
            elif impl != want or len(loaded) != len(want["ok"]):
                res.violation("init_pkcs11_modules: name filter initialised the wrong modules", case, key="hsmconfig:init-name", impl=impl, loaded=loaded, want=want)
            lines.append({"op": "init_by_name", "hsm": C.hsm_j(cfg), "hsmName": name, "log": C.canon_log(world.log)})
            checks.append({"what": "init_by_name", "case": case, "impl": impl, "log": C.canon_log(world.log)})

    # ---- model --------------------------------------------------------------------------------------------------------
    if not driver_ok:
        return
    outs = lib.run_driver(lines, exe=DRIVER)
    for c, o in zip(checks, outs):
        what = c["what"]
        if what.startswith("hsmcfg_"):
            o = unpoints(o)
        if isinstance(o, dict) and "driver_error" in o:
            res.disagreement("driver error", c["case"], c.get("impl"), o)
            continue
        if what in ("hsmcfg_parse", "hsmcfg_load"):
            if o == "hang":
                res.disagreement(f"{what}: the model's interpolation loop ran out of fuel (theorem hsmconfig_interpolation_terminates says it cannot)", c["case"], c["impl"], o)
            elif not lib.same_outcome(c["impl"], o):
                res.disagreement(f"{what}: model result != implementation", c["case"], c["impl"], o)
        elif what in ("find_key_by_id", "init_by_name"):
            m = o["result"]
            d = C.first_log_difference(c["log"], o["log"])
            if lib.is_unsupported(m):
                res.disagreement(f"{what}: the model could not follow the implementation's run", c["case"], c["impl"], m, log_difference=d)
            elif not lib.same_outcome(c["impl"], m):
                res.disagreement(f"{what}: model result != implementation", c["case"], c["impl"], m, log_difference=d)
            elif d is not None:
                res.disagreement(f"{what}: model issues different token operations", c["case"], c["impl"], m, log_difference=d)
        elif o != c["impl"]:
            res.disagreement(f"{what}: model != Python", c["case"], c["impl"], o)


def unpoints(o: Any) -> Any:
    """The driver answers strings as {"s": [code points]} (see Kskm/Ops/HsmConfig.lean)."""
    if isinstance(o, dict) and list(o) == ["s"]:
        return "".join(map(chr, o["s"]))
    if isinstance(o, list):
        return [unpoints(x) for x in o]
    if isinstance(o, dict):
        return {k: unpoints(v) for k, v in o.items()}
    return o


def judge_parse(res: Result, case: Any, ls: list[str], d: Any, ml: int, impl: Any, ref: Any, reason: str) -> None:
    ok = isinstance(impl, dict) and "ok" in impl
    if ok:
        for k, v in impl["ok"]:
            for i, ch in enumerate(v[:-1]):
                if ch == "$" and is_word(v[i + 1]):
                    res.violation("hsmconfig: a returned value still holds a variable reference", case, key="hsmconfig:uninterpolated", impl=impl, value=v)
        if ml > 0 and len(ls) >= ml:
            res.violation("hsmconfig: a source of max_lines or more lines was accepted", case, key="hsmconfig:too-long", impl=impl)
        if reason in ("undefined", "no-equals", "dollar-in-value", "too-long"):
            res.violation(f"hsmconfig: accepted although the reference reading fails ({reason})", case, key="hsmconfig:fail-open:" + reason, impl=impl, ref=ref)
        elif reason == "ok" and impl != ref:
            if not any("$" in x for x in ls):
                res.violation("hsmconfig: '$'-free source not returned verbatim (key order / last assignment)", case, key="hsmconfig:verbatim", impl=impl, ref=ref)
            else:
                res.disagreement("hsmconfig: implementation != reference interpreter", case, impl, ref)
    elif reason == "ok":
        res.disagreement("hsmconfig: implementation refuses what the reference interpreter accepts", case, impl, ref)


def replay_case(c: dict[str, Any]) -> Any:
    """Re-run one recorded hsmconfig case on the implementation, the reference reading and the model."""
    from kskm.misc import hsm as H

    kind = c.get("hsmconfig")
    out: dict[str, Any] = {"kind": kind}
    if kind == "parse":
        ls, d, ml = c["lines"], dict(c["defaults"]), c["maxLines"]
        out["implementation"] = lib.run_impl(lambda: H.parse_hsmconfig(iter(ls), Path("gen.hsmconfig"), dict(d), ml), dict_j)
        out["reference_reading"], out["reference_reason"] = ref_parse(ls, d, ml)
        try:
            out["model"] = unpoints(lib.run_driver([{"op": "hsmcfg_parse", "lines": ls, "defaults": dict_j(d), "maxLines": ml}], exe=DRIVER)[0])
        except Exception as e:  # noqa: BLE001
            out["model"] = f"driver: {e}"
    elif kind == "load":
        with tempfile.TemporaryDirectory(prefix="verif_hsmcfg_") as td:
            fn = Path(td) / "replay.hsmconfig"
            fn.write_bytes(c["text"].encode("utf-8"))
            d = None if c["defaults"] is None else dict(c["defaults"])
            with mock.patch.dict(os.environ, c.get("environ_added") or {}):
                out["implementation"] = lib.run_impl(lambda: H.load_hsmconfig(fn, d, c["maxLines"]), dict_j)
                with open(fn) as fd:
                    real_lines = list(fd)
                out["reference_reading"], out["reference_reason"] = ref_parse(real_lines, d if d else dict(os.environ), c["maxLines"])
    else:
        out["note"] = "re-run ./check C15: the stream is deterministic under VERIF_SEED"
    return out
