"""C06 correspondence: KSR key, algorithm and header rules — implementation vs. Lean model vs. documented region.

Requests are built directly as data objects (no XML, no signatures).  A base request (RSA 1024/2048/3072/4096 with
exponents 3 / 65537 / 2^32+1, ECDSA P-256/P-384 with and without the SEC 1 prefix, EdDSA, mixed families; 1..9 bundles;
rolling or random key placement) is put through every single-field corruption the property lists (flags, tag +-1,
identifier re-used for another key in the same / a later bundle, one key under two identifiers, declared size / exponent
mismatch, exponent waived, domain, duplicate bundle ids, slot counts, distinct-key count, every declared algorithm number
1..16 under every policy subclass, approved lists, enable flags), each under several assignments of the enable flags
(quick: all-on / own-flag-only / all-but-own / random; thorough: every subset).  The timing rules (C05) and signature
validation (C07) are switched off.

Key-tag BOUNDARY keys (`TAG_CLASSES`, in every run): base requests whose ZSKs (flags 256; RSA 1024..4096 under algorithms 8
and 10, ECDSA P-256 / P-384, Ed25519) have an RFC 4034 App. B accumulator on a boundary of the folding step — the fold itself
carries (`(ac & 0xFFFF) + (ac >> 16) >= 0x10000`: the RFC adds the high half ONCE and discards that carry), tag exactly 0,
tag exactly 65535, low half exactly 0 — obtained by solving one 16-bit word of random public material (public material only:
signature validation is off).  They go through the same corruptions as every other base: the correctly stated tag must be
accepted, tag +-1 / +256 refused.  The steered tags are cross-checked against dnspython's `key_id`.

Three verdicts per (request, policy), for `validate_request` and for each of the five rule functions:
  * /repo (imported from the working tree),
  * the model driver (`c06_all`: same JSON, set iteration order preserved),
  * `region()` below: the documented region transliterated from the property text (own RFC 3110 / RFC 6605 readers,
    own RFC 4034 key tag, algorithm lists from RFC 8624 as documented — nothing imported from /repo).
impl != region -> failing input of the property (VIOLATION);  impl != model -> broken tie (disagreement).
"""

from __future__ import annotations

import base64
import itertools
from typing import Any

import lib
from lib import Result, request_j, request_policy_j, run_driver, run_impl, same_outcome, us_dt, us_td

DRIVER = "kskm_driver_pkga"

ASSUMPTIONS = [
    "timing rules and signature validation are switched off in this run (they are C05's and C07's subject); num_bundles is set to the request's length",
    "declared algorithm entries whose element kind contradicts their algorithm number (an <ECDSA> element carrying a non-ECDSA number, "
    "an <EdDSA> element carrying a non-EdDSA number) are outside the region's domain (DeclaredWellFormed in C06.lean): /repo's verdict "
    "on ECDSA/EdDSA keys then depends on set iteration order (accept or ValueError); as long as the run's own probe (the witness of "
    "C06.lean replayed on /repo) shows the dependence those cases are compared model-vs-implementation AND judged by the refined, "
    "hypothesis-free region of C06_iff_spec (matching entry visited before any ill-formed entry of its element kind; judge_refined, "
    "evaluated on the iteration order the implementation sees) instead of the literal region; the `_needed` witnesses of C06.lean are "
    "replayed at validate_request in both visiting orders (witness_stream); once /repo no longer shows the dependence "
    "(proposed_fixes/C06_ec_declared_entry_order.diff) every case is judged by the documented region like every other case",
    "DeclaredWellFormed holds of every request load_ksr can build: the KSR parser chooses the element by the algorithm NUMBER "
    "(parser_stream: exhaustive over element kinds x numbers 0..255 on the real _parse_signature_algorithms), so ill-formed declared "
    "entries exist only in hand-built Request objects",
    "declared RSA sizes are >= 1 bit (size 0 would match a truncated RFC 3110 blob whose modulus is empty)",
    "public key texts are canonical base64 (the model declines non-canonical spellings)",
]
TRUSTED = ["region() in corr_C06.py as the executable form of the property text"]

CHECK_FLAGS = ["keys_match_zsk_policy", "check_keys_match_ksk_operator_policy", "signature_algorithms_match_zsk_policy"]
MOD_FLAGS = ["rsa_exponent_match_zsk_policy", "enable_unsupported_ecdsa", "enable_unsupported_edwards_dsa"]
ALL_FLAGS = CHECK_FLAGS + MOD_FLAGS
CHECKS = ["check_domain", "check_unique_ids", "check_keys_match_zsk_policy", "check_keys_in_bundles", "check_zsk_policy_algorithm"]
RULE_OF_CHECK = {
    "check_domain": "ksrDomain",
    "check_unique_ids": "bundleUnique",
    "check_keys_match_zsk_policy": "bundleKeys",
    "check_keys_in_bundles": "policyKeys",
    "check_zsk_policy_algorithm": "policyAlg",
}

# ---- the documented vocabulary (RFC 8624 / the property text), NOT imported from /repo ------------------
ALG_NAMES = {1: "RSAMD5", 3: "DSA", 5: "RSASHA1", 6: "DSA_NSEC3_SHA1", 7: "RSASHA1_NSEC3_SHA1", 8: "RSASHA256", 10: "RSASHA512",
             12: "ECC_GOST", 13: "ECDSAP256SHA256", 14: "ECDSAP384SHA384", 15: "ED25519", 16: "ED448"}
DOC_DEPRECATED = {1, 3, 6, 12}
DOC_SUPPORTED = {8, 10, 13, 14, 15, 16}
DOC_RSA = {5, 8, 10}
DOC_ECDSA = {13: 256, 14: 384}
DOC_EDDSA = {15: 256, 16: 456}


def rfc4034_key_tag(rdata: bytes) -> int:
    ac = 0
    for i, b in enumerate(rdata):
        ac += b if (i & 1) else (b << 8)
    ac += (ac >> 16) & 0xFFFF
    return ac & 0xFFFF


def rfc3110_read(blob: bytes) -> tuple[int, int] | None:
    """(exponent, modulus bits) of a well-formed RFC 3110 key, else None."""
    if not blob:
        return None
    if blob[0] == 0:
        if len(blob) < 3:
            return None
        elen = int.from_bytes(blob[1:3], "big")
        rest = blob[3:]
    else:
        elen = blob[0]
        rest = blob[1:]
    if len(rest) < elen:
        return None  # truncated: not a key
    return int.from_bytes(rest[:elen], "big"), 8 * len(rest[elen:])


def ec_bits(blob: bytes, want: int) -> int | None:
    """size of an EC point after removal of at most one SEC 1 0x04 octet when the size is not the curve's"""
    if not blob:
        return None
    if len(blob) * 8 // 2 != want and blob[0] == 4:
        blob = blob[1:]
    return len(blob) * 8 // 2


def ed_bits(blob: bytes, want: int) -> int | None:
    if not blob:
        return None
    if len(blob) * 8 != want and blob[0] == 4:
        blob = blob[1:]
    return len(blob) * 8


def well_formed(case: dict[str, Any]) -> bool:
    """DeclaredWellFormed, as far as it matters: a malformed <ECDSA>/<EdDSA> entry is only ever consulted for a key of that family."""
    key_algs = {k["alg"] for b in case["bundles"] for k in b["keys"]}
    for d in case["declared"]:
        if d["kind"] == "ecdsa" and d["alg"] not in DOC_ECDSA and key_algs & set(DOC_ECDSA):
            return False
        if d["kind"] == "eddsa" and d["alg"] not in DOC_EDDSA and key_algs & set(DOC_EDDSA):
            return False
    return True


def key_clause(k: dict[str, Any], case: dict[str, Any], pol: dict[str, Any]) -> bool:
    """flags 256, correct tag, parameters (algorithm, size, exponent unless waived) matching one declared algorithm"""
    if k["flags"] != 256:
        return False
    blob = base64.b64decode(k["pk"])
    if not (0 <= k["protocol"] < 256):
        return False
    rdata = bytes([1, 0, k["protocol"], k["alg"]]) + blob
    if k["tag"] != rfc4034_key_tag(rdata):
        return False
    alg = k["alg"]
    if alg in DOC_RSA:
        rd = rfc3110_read(blob)
        if rd is None:
            return False
        e, bits = rd
        for d in case["declared"]:
            if d["kind"] == "rsa" and d["alg"] == alg and d["bits"] == bits and (d["exp"] == e or not pol["rsa_exponent_match_zsk_policy"]):
                return True
        return False
    if alg in DOC_ECDSA:
        for d in case["declared"]:
            if d["kind"] == "ecdsa" and d["alg"] == alg and ec_bits(blob, DOC_ECDSA[alg]) == d["bits"]:
                return True
        return False
    if alg in DOC_EDDSA:
        for d in case["declared"]:
            if d["kind"] == "eddsa" and d["alg"] == alg and ed_bits(blob, DOC_EDDSA[alg]) == d["bits"]:
                return True
        return False
    return False


def region(case: dict[str, Any], pol: dict[str, Any]) -> dict[str, bool]:
    """The documented region, one entry per rule function (True = clause satisfied under this policy)."""
    out: dict[str, bool] = {}
    out["check_domain"] = case["domain"] in pol["acceptable_domains"]
    ids = [b["id"] for b in case["bundles"]]
    out["check_unique_ids"] = len(set(ids)) == len(ids)
    allkeys = [k for b in case["bundles"] for k in b["keys"]]
    if pol["keys_match_zsk_policy"]:
        each = all(key_clause(k, case, pol) for k in allkeys)
        by_id: dict[str, Any] = {}
        consistent = True
        for k in allkeys:
            if k["id"] in by_id and by_id[k["id"]] != k:
                consistent = False
            by_id.setdefault(k["id"], k)
        out["check_keys_match_zsk_policy"] = each and consistent
    else:
        out["check_keys_match_zsk_policy"] = True
    if pol["check_keys_match_ksk_operator_policy"]:
        slots = pol["num_keys_per_bundle"]
        out["check_keys_in_bundles"] = (
            len(case["bundles"]) == len(slots)
            and all(len(b["keys"]) == n for b, n in zip(case["bundles"], slots))
            and len({k["id"] for k in allkeys}) == pol["num_different_keys_in_all_bundles"]
        )
    else:
        out["check_keys_in_bundles"] = True
    ok = True
    for d in case["declared"]:
        a = d["alg"]
        if a in DOC_DEPRECATED or a not in DOC_SUPPORTED:
            ok = False
        if a in DOC_ECDSA and not pol["enable_unsupported_ecdsa"]:
            ok = False
        if a in DOC_EDDSA and not pol["enable_unsupported_edwards_dsa"]:
            ok = False
    if pol["signature_algorithms_match_zsk_policy"]:
        approved = pol["approved_algorithms"]
        if any(x not in ALG_NAMES.values() for x in approved):
            ok = False  # the configured list itself is not a list of algorithms
        for d in case["declared"]:
            if ALG_NAMES[d["alg"]] not in approved:
                ok = False
            if d["alg"] in DOC_RSA:
                if d["kind"] != "rsa" or d["bits"] not in pol["rsa_approved_key_sizes"] or d["exp"] not in pol["rsa_approved_exponents"]:
                    ok = False
    out["check_zsk_policy_algorithm"] = ok
    return out


# ---- building repo objects ---------------------------------------------------------------------------------


def build(case: dict[str, Any], pol: dict[str, Any]) -> tuple[Any, Any]:
    from kskm.common.config_misc import RequestPolicy
    from kskm.common.data import (
        AlgorithmDNSSEC,
        AlgorithmPolicyDSA,
        AlgorithmPolicyECDSA,
        AlgorithmPolicyEdDSA,
        AlgorithmPolicyRSA,
        Key,
        SignaturePolicy,
    )
    from kskm.ksr.data import Request, RequestBundle

    def mk_key(k: dict[str, Any]) -> Any:
        return Key.model_construct(
            key_identifier=k["id"], key_tag=k["tag"], ttl=k["ttl"], flags=k["flags"], protocol=k["protocol"],
            algorithm=AlgorithmDNSSEC(k["alg"]), public_key=k["pk"].encode(),
        )

    algs = set()
    for d in case["declared"]:
        a = AlgorithmDNSSEC(d["alg"])
        if d["kind"] == "rsa":
            algs.add(AlgorithmPolicyRSA(bits=d["bits"], algorithm=a, exponent=d["exp"]))
        elif d["kind"] == "ecdsa":
            algs.add(AlgorithmPolicyECDSA(bits=d["bits"], algorithm=a))
        elif d["kind"] == "eddsa":
            algs.add(AlgorithmPolicyEdDSA(bits=d["bits"], algorithm=a))
        else:
            algs.add(AlgorithmPolicyDSA(bits=d["bits"], algorithm=a))
    bundles = []
    for n, b in enumerate(case["bundles"]):
        t = 1_500_000_000_000_000 + n * 10 * lib.DAY_US
        bundles.append(RequestBundle(id=b["id"], inception=us_dt(t), expiration=us_dt(t + 21 * lib.DAY_US), keys={mk_key(k) for k in b["keys"]}, signatures=set(), signers=None))
    req = Request(id="req", serial=1, domain=case["domain"], timestamp=None, zsk_policy=SignaturePolicy(algorithms=algs), bundles=bundles)
    policy = RequestPolicy(
        acceptable_domains=pol["acceptable_domains"],
        num_bundles=len(bundles),
        validate_signatures=False,
        check_cycle_length=False,
        check_bundle_overlap=False,
        signature_validity_match_zsk_policy=False,
        signature_check_expire_horizon=False,
        check_bundle_intervals=False,
        approved_algorithms=pol["approved_algorithms"],
        rsa_approved_exponents=pol["rsa_approved_exponents"],
        rsa_approved_key_sizes=pol["rsa_approved_key_sizes"],
        num_keys_per_bundle=pol["num_keys_per_bundle"],
        num_different_keys_in_all_bundles=pol["num_different_keys_in_all_bundles"],
        **{f: pol[f] for f in ALL_FLAGS},
    )
    return req, policy


# ---- key material ---------------------------------------------------------------------------------------------


def rsa_blob(r: Any, bits: int, e: int) -> bytes:
    eb = e.to_bytes(max(1, (e.bit_length() + 7) // 8), "big")
    n = bytearray(r.randbytes(bits // 8))
    n[0] |= 0x80
    n[-1] |= 1
    hdr = bytes([len(eb)]) if len(eb) <= 255 else b"\x00" + len(eb).to_bytes(2, "big")
    return hdr + eb + bytes(n)


def keyspec(ident: str, alg: int, blob: bytes, *, flags: int = 256, ttl: int = 172800, protocol: int = 3) -> dict[str, Any]:
    tag = rfc4034_key_tag(bytes([flags >> 8 & 0xFF, flags & 0xFF, protocol & 0xFF, alg]) + blob) if 0 <= flags < 65536 else 0
    return {"id": ident, "alg": alg, "flags": flags, "tag": tag, "ttl": ttl, "protocol": protocol, "pk": base64.b64encode(blob).decode()}


def declared_for(alg: int, blob: bytes) -> dict[str, Any]:
    if alg in DOC_RSA:
        e, bits = rfc3110_read(blob)  # type: ignore[misc]
        return {"kind": "rsa", "alg": alg, "bits": bits, "exp": e}
    if alg in DOC_ECDSA:
        return {"kind": "ecdsa", "alg": alg, "bits": DOC_ECDSA[alg], "exp": None}
    return {"kind": "eddsa", "alg": alg, "bits": DOC_EDDSA[alg], "exp": None}


# boundaries of the RFC 4034 Appendix B folding step, as predicates on the accumulator `ac` (before folding)
TAG_CLASSES = {
    "carry2": lambda ac: (ac & 0xFFFF) + (ac >> 16) >= 0x10000,  # the fold itself carries; the RFC discards that carry
    "tag0": lambda ac: (ac & 0xFFFF) + (ac >> 16) == 0x10000,  # ... and the tag is exactly 0 (tag - 1 wraps to 65535)
    "tagmax": lambda ac: (ac & 0xFFFF) + (ac >> 16) == 0xFFFF,  # tag exactly 65535, no carry (tag + 1 wraps to 0)
    "low0": lambda ac: ac & 0xFFFF == 0,  # the tag is the high half alone
}


def steer_blob(r: Any, alg: int, blob: bytes, tagclass: str, flags: int = 256, protocol: int = 3) -> bytes:
    """The same public-key field with ONE aligned 16-bit word (the last but one of the RDATA: neither the RFC 3110 header nor the
    modulus' top / bottom octet) solved so that the accumulator of the DNSKEY RDATA (flags, protocol, alg) meets the class."""
    pred = TAG_CLASSES[tagclass]
    rd = bytearray(bytes([flags >> 8, flags & 0xFF, protocol, alg]) + blob)
    o = (len(rd) - 4) & ~1
    assert o >= 8, "key too short to steer"
    rd[o] = rd[o + 1] = 0
    s0 = 0
    for i, b in enumerate(rd):
        s0 += b if (i & 1) else (b << 8)
    good = [w for w in range(65536) if pred(s0 + w)]
    if not good:
        raise RuntimeError(f"no 16-bit word meets tag class {tagclass}")
    w = r.choice(good)
    rd[o], rd[o + 1] = w >> 8, w & 0xFF
    return bytes(rd[4:])


def key_pool(r: Any, family: str, n: int, fixture_ratio: float = 0.3) -> list[tuple[int, bytes]]:
    """n distinct (algorithm, public key blob) of one family profile; `family@class`: every key steered onto a key-tag boundary"""
    import keys as fx

    family, _, tagclass = family.partition("@")
    if tagclass:
        return [(alg, steer_blob(r, alg, blob, tagclass)) for alg, blob in key_pool(r, family, n, fixture_ratio)]
    out: list[tuple[int, bytes]] = []
    if family.startswith("rsa"):
        _, bits_s, e_s, alg_s = family.split(":")
        bits, e, alg = int(bits_s), int(e_s), int(alg_s)
        real = [k for k in fx.rsa_keys(bits, e)]
        r.shuffle(real)
        for i in range(n):
            if real and r.random() < fixture_ratio:
                out.append((alg, real.pop().dnskey_public_key()))
            else:
                out.append((alg, rsa_blob(r, bits, e)))
    elif family.startswith("ecdsa"):
        _, alg_s, prefix = family.split(":")
        alg = int(alg_s)
        real = fx.ec_keys("P-256" if alg == 13 else "P-384")
        r.shuffle(real)
        # the first key of every ECDSA profile: a fixture whose X coordinate begins with 0x04 — in the bare form (x || y) it starts
        # like a SEC 1 prefixed point; only the LENGTH of the key tells the two forms apart
        x04 = fx.ec_keys_x04("P-256" if alg == 13 else "P-384")
        for i in range(n):
            if i == 0 and x04:
                pt = x04[r.randrange(len(x04))].ec_point(prefix=False)
            elif real and r.random() < min(0.5, 2 * fixture_ratio):
                pt = real.pop().ec_point(prefix=False)
            else:
                pt = r.randbytes(64 if alg == 13 else 96)
            out.append((alg, (b"\x04" + pt) if prefix == "p" else pt))
    elif family.startswith("eddsa"):
        alg = int(family.split(":")[1])
        for i in range(n):
            out.append((alg, r.randbytes(32 if alg == 15 else 57)))
    elif family == "mixed":
        out.append((8, rsa_blob(r, 2048, 65537)))
        out.append((13, fx.ec_keys_x04("P-256")[0].ec_point(prefix=False)))  # both curves declared side by side, bare keys starting with 0x04
        out.append((10, rsa_blob(r, 1024, 3)))
        out.append((14, fx.ec_keys_x04("P-384")[0].ec_point(prefix=False)))
        while len(out) < n:
            out.append((8, rsa_blob(r, 2048, 65537)))
        out = out[:n]
    return out


SLOT_SHAPES = {
    1: [[1], [2], [3]],
    2: [[1, 1], [2, 1], [1, 2]],
    3: [[2, 1, 2], [1, 1, 1]],
    4: [[2, 1, 1, 2]],
    9: [[2, 1, 1, 1, 1, 1, 1, 1, 2]],
}


def base_case(r: Any, family: str, nb: int) -> tuple[dict[str, Any], dict[str, Any]]:
    """An honest request of one key family and the policy that accepts it (where the family can be accepted at all)."""
    slots = r.choice(SLOT_SHAPES[nb])
    nkeys = r.choice([2, 3]) if nb > 1 else max(slots)
    nkeys = max(nkeys, max(slots))
    pool = key_pool(r, family, nkeys)
    specs = [keyspec(f"zsk{i}", alg, blob) for i, (alg, blob) in enumerate(pool)]
    bundles = []
    for i, cnt in enumerate(slots):
        # rolling: the window of keys moves from the first to the last key over the cycle
        start = 0 if nb == 1 else round(i * (nkeys - cnt) / max(1, nb - 1))
        bundles.append({"id": f"bundle-{i}", "keys": [dict(specs[(start + j) % nkeys]) for j in range(cnt)]})
    used = {k["id"] for b in bundles for k in b["keys"]}
    declared = []
    for alg, blob in pool:
        d = declared_for(alg, blob)
        if d not in declared:
            declared.append(d)
    case = {"domain": ".", "bundles": bundles, "declared": declared}
    algs = sorted({d["alg"] for d in declared})
    pol = {
        "acceptable_domains": ["."],
        "approved_algorithms": [ALG_NAMES[a] for a in algs],
        "rsa_approved_exponents": sorted({d["exp"] for d in declared if d["kind"] == "rsa"}) or [65537],
        "rsa_approved_key_sizes": sorted({d["bits"] for d in declared if d["kind"] == "rsa"}) or [2048],
        "num_keys_per_bundle": list(slots),
        "num_different_keys_in_all_bundles": len(used),
        "keys_match_zsk_policy": True,
        "check_keys_match_ksk_operator_policy": True,
        "signature_algorithms_match_zsk_policy": True,
        "rsa_exponent_match_zsk_policy": True,
        "enable_unsupported_ecdsa": any(a in DOC_ECDSA for a in algs),
        "enable_unsupported_edwards_dsa": any(a in DOC_EDDSA for a in algs),
    }
    return case, pol


def clone(case: dict[str, Any]) -> dict[str, Any]:
    return {"domain": case["domain"], "bundles": [{"id": b["id"], "keys": [dict(k) for k in b["keys"]]} for b in case["bundles"]], "declared": [dict(d) for d in case["declared"]]}


def as_sets(case: dict[str, Any]) -> dict[str, Any]:
    """a bundle's keys and the declared algorithms are SETS in /repo: drop exact duplicates so that the description and the
    objects built from it have the same members"""
    out = clone(case)
    for b in out["bundles"]:
        uniq: list[dict[str, Any]] = []
        for k in b["keys"]:
            if k not in uniq:
                uniq.append(k)
        b["keys"] = uniq
    decl: list[dict[str, Any]] = []
    for d in out["declared"]:
        if d not in decl:
            decl.append(d)
    out["declared"] = decl
    return out


def retag(k: dict[str, Any]) -> None:
    blob = base64.b64decode(k["pk"])
    k["tag"] = rfc4034_key_tag(bytes([(k["flags"] >> 8) & 0xFF, k["flags"] & 0xFF, k["protocol"] & 0xFF, k["alg"]]) + blob)


def corruptions(r: Any, case: dict[str, Any], pol: dict[str, Any], family: str, tier: str) -> list[tuple[str, str | None, dict[str, Any], dict[str, Any]]]:
    """(tag, own flag, case, policy): every single-field corruption of the base.  `own flag` is the check flag that guards
    the rule the corruption is aimed at (None: the rule has no switch)."""
    out: list[tuple[str, str | None, dict[str, Any], dict[str, Any]]] = [("honest", None, case, pol)]
    nb = len(case["bundles"])
    K = "keys_match_zsk_policy"
    O = "check_keys_match_ksk_operator_policy"
    A = "signature_algorithms_match_zsk_policy"
    positions = [(bi, ki) for bi, b in enumerate(case["bundles"]) for ki in range(len(b["keys"]))]
    if tier == "quick" and len(positions) > 4:
        positions = [positions[0], positions[1], positions[len(positions) // 2], positions[-1]]

    def all_occurrences(c: dict[str, Any], ident: str) -> list[dict[str, Any]]:
        return [k for b in c["bundles"] for k in b["keys"] if k["id"] == ident]

    for bi, ki in positions:
        ident = case["bundles"][bi]["keys"][ki]["id"]
        # flags
        for fl in (257, 385, 0, 128, 255, 258):
            c = clone(case)
            for k in all_occurrences(c, ident):
                k["flags"] = fl
                retag(k)  # the tag is right for the new flags: only the flags rule can object
            out.append((f"flags:{fl}:all", K, c, pol))
        c = clone(case)
        c["bundles"][bi]["keys"][ki]["flags"] = 257
        retag(c["bundles"][bi]["keys"][ki])
        out.append(("flags:257:one-occurrence", K, c, pol))
        # tag +- 1
        for d in (1, -1, 256):
            c = clone(case)
            for k in all_occurrences(c, ident):
                k["tag"] = (k["tag"] + d) % 65536
            out.append((f"tag:{d:+d}:all", K, c, pol))
        c = clone(case)
        c["bundles"][bi]["keys"][ki]["tag"] = (c["bundles"][bi]["keys"][ki]["tag"] + 1) % 65536
        out.append(("tag:+1:one-occurrence", K, c, pol))
        # ttl / protocol
        c = clone(case)
        c["bundles"][bi]["keys"][ki]["ttl"] += 1
        out.append(("ttl:one-occurrence", K, c, pol))
        for proto in (2, 255, 0):
            c = clone(case)
            for k in all_occurrences(c, ident):
                k["protocol"] = proto
                retag(k)
            out.append((f"protocol:{proto}:retagged", K, c, pol))
        for proto in (256, -1):
            c = clone(case)
            for k in all_occurrences(c, ident):
                k["protocol"] = proto
            out.append((f"protocol:{proto}", K, c, pol))
        # identifier re-used for a different key
        other_alg, other_blob = key_pool(r, family, 1, fixture_ratio=0.0)[0]
        intruder = keyspec(ident, other_alg, other_blob)
        c = clone(case)
        c["bundles"][bi]["keys"].append(dict(intruder))
        out.append(("id-reuse:same-bundle", K, c, pol))
        if bi + 1 < nb:
            c = clone(case)
            c["bundles"][-1]["keys"].append(dict(intruder))
            out.append(("id-reuse:later-bundle:added", K, c, pol))
            c = clone(case)
            c["bundles"][-1]["keys"][0] = dict(intruder)
            out.append(("id-reuse:later-bundle:replaced", K, c, pol))
        if bi > 0:
            c = clone(case)
            c["bundles"][0]["keys"][0] = dict(intruder)
            out.append(("id-reuse:earlier-bundle:replaced", K, c, pol))
        # the same key under two identifiers
        c = clone(case)
        twin = dict(c["bundles"][bi]["keys"][ki], id="twin")
        c["bundles"][-1]["keys"].append(twin)
        out.append(("same-key-two-ids:added", K, c, pol))
        c = clone(case)
        c["bundles"][bi]["keys"][ki]["id"] = "twin"
        out.append(("same-key-two-ids:renamed-one-occurrence", O, c, pol))
        # ... and the second identifier's copy carries ONE wrong field: every identifier's key is checked on its own
        for where, target in (("later", -1), ("earlier", 0)):
            for what in ("tag", "flags", "protocol"):
                c = clone(case)
                twin = dict(c["bundles"][bi]["keys"][ki], id="twin")
                if what == "tag":
                    twin["tag"] = (twin["tag"] + 1) % 65536
                elif what == "flags":
                    twin["flags"] = 257
                    retag(twin)
                else:
                    twin["protocol"] = 256
                c["bundles"][target]["keys"].append(twin)
                out.append((f"same-key-two-ids:twin-bad-{what}:{where}", K, c, pol))
        # public key octets
        c = clone(case)
        for k in all_occurrences(c, ident):
            blob = bytearray(base64.b64decode(k["pk"]))
            blob[-1] ^= 1
            k["pk"] = base64.b64encode(bytes(blob)).decode()
        out.append(("pk:last-bit:tag-stale", K, c, pol))
        for newblob, what in ((b"", "empty"), (b"\x00", "zero"), (b"\x00\x01", "short-long-form"), (b"\x05\x01", "truncated")):
            c = clone(case)
            for k in all_occurrences(c, ident):
                k["pk"] = base64.b64encode(newblob).decode()
                retag(k)
            out.append((f"pk:{what}", K, c, pol))
        # key algorithm number
        for newalg in (1, 3, 5, 6, 7, 8, 10, 12, 13, 14, 15, 16):
            if newalg == case["bundles"][bi]["keys"][ki]["alg"]:
                continue
            if tier == "quick" and (bi, ki) != positions[0] and newalg not in (5, 7, 10, 13):
                continue
            c = clone(case)
            for k in all_occurrences(c, ident):
                k["alg"] = newalg
                retag(k)
            out.append((f"key-alg:{newalg}", K, c, pol))

    # declared parameters
    for di, d in enumerate(case["declared"]):
        if d["kind"] == "rsa":
            for nbits in (d["bits"] + 8, d["bits"] - 8, d["bits"] * 2, 1):
                c = clone(case)
                c["declared"][di]["bits"] = nbits
                out.append(("declared:size-mismatch", K, c, pol))
                p2 = dict(pol, rsa_approved_key_sizes=pol["rsa_approved_key_sizes"] + [nbits])
                out.append(("declared:size-mismatch:size-approved", K, c, p2))
            for nexp in (3, 65537, 2**32 + 1, 17):
                if nexp == d["exp"]:
                    continue
                c = clone(case)
                c["declared"][di]["exp"] = nexp
                for waived in (False, True):
                    p2 = dict(pol, rsa_exponent_match_zsk_policy=not waived, rsa_approved_exponents=pol["rsa_approved_exponents"] + [nexp])
                    out.append((f"declared:exponent-mismatch:{'waived' if waived else 'enforced'}", K, c, p2))
            # both wrong: waiving the exponent must not waive the size
            c = clone(case)
            c["declared"][di]["bits"] = d["bits"] + 8
            c["declared"][di]["exp"] = 17
            out.append(("declared:size-and-exponent-mismatch:waived", K, c, dict(pol, rsa_exponent_match_zsk_policy=False)))
            # approved lists (bounds: membership, not ordering)
            for sizes in ([], [d["bits"] - 1], [d["bits"] + 1], [d["bits"] * 2], [d["bits"] - 1, d["bits"] + 1], [4096, d["bits"]]):
                out.append(("approved:sizes", A, case, dict(pol, rsa_approved_key_sizes=[s for s in sizes if 1 <= s <= 65535])))
            for exps in ([], [d["exp"] + 2], [d["exp"] - 2] if d["exp"] > 3 else [5], [3, 65537, 2**32 + 1], [1]):
                out.append(("approved:exponents", A, case, dict(pol, rsa_approved_exponents=exps)))
                # waiving the key-vs-declared exponent match does not waive the operator's approved list
                out.append(("approved:exponents:key-exponent-waived", A, case, dict(pol, rsa_approved_exponents=exps, rsa_exponent_match_zsk_policy=False)))
        else:
            for nbits in (d["bits"] + 8, d["bits"] - 8, 384 if d["bits"] == 256 else 256):
                c = clone(case)
                c["declared"][di]["bits"] = nbits
                out.append(("declared:ec-size-mismatch", K, c, pol))
        # the declared algorithm number changed under the keys
        c = clone(case)
        c["declared"][di]["alg"] = 10 if d["alg"] == 8 else 8 if d["kind"] == "rsa" else (14 if d["alg"] == 13 else 13 if d["kind"] == "ecdsa" else 16 if d["alg"] == 15 else 15)
        out.append(("declared:alg-mismatch", K, c, dict(pol, approved_algorithms=list(ALG_NAMES.values()))))
    c = clone(case)
    c["declared"] = []
    out.append(("declared:none", K, c, pol))

    # every algorithm number under every policy subclass as an additional declared entry
    for alg in ALG_NAMES:
        for kind in ("rsa", "ecdsa", "eddsa", "dsa"):
            c = clone(case)
            extra = {"kind": kind, "alg": alg, "bits": 2048 if kind in ("rsa", "dsa") else 256, "exp": 65537 if kind == "rsa" else None}
            if extra in c["declared"]:
                continue
            c["declared"].append(extra)
            for variant in ("as-configured", "all-approved", "all-approved+enabled"):
                p2 = dict(pol)
                if variant != "as-configured":
                    p2["approved_algorithms"] = list(ALG_NAMES.values())
                    p2["rsa_approved_key_sizes"] = sorted(set(pol["rsa_approved_key_sizes"]) | {2048})
                    p2["rsa_approved_exponents"] = sorted(set(pol["rsa_approved_exponents"]) | {65537})
                if variant == "all-approved+enabled":
                    p2["enable_unsupported_ecdsa"] = True
                    p2["enable_unsupported_edwards_dsa"] = True
                out.append((f"declared-extra:{kind}:{alg}:{variant}", A, c, p2))

    # approved algorithm list
    out.append(("approved:algorithms:empty", A, case, dict(pol, approved_algorithms=[])))
    out.append(("approved:algorithms:other", A, case, dict(pol, approved_algorithms=["RSASHA1", "DSA"])))
    out.append(("approved:algorithms:unknown-name", A, case, dict(pol, approved_algorithms=pol["approved_algorithms"] + ["NOSUCHALG"])))
    out.append(("approved:algorithms:lower-case-name", A, case, dict(pol, approved_algorithms=[x.lower() for x in pol["approved_algorithms"]])))
    out.append(("approved:algorithms:superset", A, case, dict(pol, approved_algorithms=list(ALG_NAMES.values()))))
    # enable switches
    out.append(("enable:ecdsa-off", None, case, dict(pol, enable_unsupported_ecdsa=False)))
    out.append(("enable:eddsa-off", None, case, dict(pol, enable_unsupported_edwards_dsa=False)))
    out.append(("enable:both-on", None, case, dict(pol, enable_unsupported_ecdsa=True, enable_unsupported_edwards_dsa=True)))

    # header
    for dom in ("example", "", "..", ". ", "ORG"):
        c = clone(case)
        c["domain"] = dom
        out.append((f"domain:{dom!r}", None, c, pol))
    out.append(("domain:acceptable-list-extended", None, dict(clone(case), domain="example"), dict(pol, acceptable_domains=[".", "example"])))
    out.append(("domain:acceptable-list-other", None, case, dict(pol, acceptable_domains=["example"])))
    # duplicate bundle ids
    if nb >= 2:
        for i, j in {(0, nb - 1), (0, 1), (nb - 2, nb - 1)}:
            if i == j:
                continue
            c = clone(case)
            c["bundles"][j]["id"] = c["bundles"][i]["id"]
            out.append((f"bundle-id:dup:{i}={j}", None, c, pol))
    c = clone(case)
    c["bundles"][0]["id"] = c["bundles"][0]["id"].upper()
    out.append(("bundle-id:case-differs", None, c, pol))

    # slots and distinct count
    for i in range(nb):
        for d in (1, -1):
            n = pol["num_keys_per_bundle"][i] + d
            if n >= 1:
                slots = list(pol["num_keys_per_bundle"])
                slots[i] = n
                out.append((f"slots:{i}:{d:+d}", O, case, dict(pol, num_keys_per_bundle=slots)))
    out.append(("slots:longer", O, case, dict(pol, num_keys_per_bundle=pol["num_keys_per_bundle"] + [1])))
    if nb > 1:
        out.append(("slots:shorter", O, case, dict(pol, num_keys_per_bundle=pol["num_keys_per_bundle"][:-1])))
    for d in (1, -1, 2):
        out.append((f"distinct:{d:+d}", O, case, dict(pol, num_different_keys_in_all_bundles=pol["num_different_keys_in_all_bundles"] + d)))
    # a key dropped from / added to one slot
    c = clone(case)
    extra_alg, extra_blob = key_pool(r, family, 1, fixture_ratio=0.0)[0]
    c["bundles"][0]["keys"].append(keyspec("extra", extra_alg, extra_blob))
    out.append(("slot-content:key-added", O, c, pol))
    if len(case["bundles"][-1]["keys"]) > 1:
        c = clone(case)
        c["bundles"][-1]["keys"].pop()
        out.append(("slot-content:key-dropped", O, c, pol))
    return out


def flag_sets(own: str | None, pol: dict[str, Any], r: Any, tier: str) -> list[dict[str, bool]]:
    base = {f: pol[f] for f in ALL_FLAGS}
    if tier == "thorough":
        return [dict(zip(ALL_FLAGS, bits)) for bits in itertools.product([False, True], repeat=len(ALL_FLAGS))] + [base]
    sets = [base]
    if own is not None:
        sets.append(dict(base, **{f: (f == own) for f in CHECK_FLAGS}))  # only the rule's own switch on
        sets.append(dict(base, **{f: (f != own) for f in CHECK_FLAGS}))  # everything but it
    else:
        sets.append(dict(base, **{f: False for f in CHECK_FLAGS}))  # the rule has no switch: still fires with all off
    sets.append({f: r.random() < 0.5 for f in ALL_FLAGS})
    return sets


FAMILIES_QUICK = [
    ("rsa:1024:3:8", [1, 2, 9]), ("rsa:1024:65537:8", [3]), ("rsa:1024:4294967297:8", [2]),
    ("rsa:2048:65537:8", [1, 2, 3, 4, 9]), ("rsa:2048:3:10", [2]), ("rsa:2048:4294967297:8", [3]),
    ("rsa:3072:65537:8", [2]), ("rsa:3072:3:8", [1]), ("rsa:3072:4294967297:10", [2]),
    ("rsa:4096:65537:8", [2]), ("rsa:4096:3:10", [1]), ("rsa:4096:4294967297:8", [1]),
    ("rsa:2048:65537:5", [2]),
    ("ecdsa:13:n", [1, 3]), ("ecdsa:14:n", [2]), ("ecdsa:13:p", [2]), ("ecdsa:14:p", [1]),
    ("eddsa:15", [2]), ("eddsa:16", [1]),
    ("mixed", [2, 4]),
]
# key-tag boundary keys (every run): (family@class, bundle counts)
FAMILIES_TAG_BOUNDARY = [
    ("rsa:1024:65537:8@carry2", [2]), ("rsa:2048:65537:8@carry2", [1, 9]), ("rsa:2048:3:10@carry2", [2]), ("rsa:1024:65537:10@carry2", [1]),
    ("rsa:4096:65537:10@carry2", [1]), ("rsa:3072:4294967297:8@carry2", [1]),
    ("ecdsa:13:n@carry2", [2]), ("ecdsa:14:n@carry2", [1]), ("ecdsa:13:p@carry2", [1]), ("eddsa:15@carry2", [1]), ("mixed@carry2", [2]),
    ("rsa:2048:65537:8@tag0", [1]), ("ecdsa:13:n@tag0", [1]), ("rsa:1024:65537:10@tagmax", [2]), ("ecdsa:14:n@tagmax", [1]), ("rsa:2048:65537:8@low0", [1]),
]


def families(tier: str) -> list[tuple[str, list[int]]]:
    if tier == "quick":
        return FAMILIES_QUICK + FAMILIES_TAG_BOUNDARY
    out = list(FAMILIES_TAG_BOUNDARY)
    extra = [f"rsa:{bits}:65537:{alg}@carry2" for bits in (1024, 2048, 3072, 4096) for alg in (8, 10)]
    extra += [f"rsa:{bits}:65537:{alg}@{cls}" for bits, alg in ((1024, 8), (4096, 10)) for cls in ("tag0", "tagmax", "low0")]
    extra += [f"{fam}@carry2" for fam in ("ecdsa:13:n", "ecdsa:14:n", "eddsa:15", "eddsa:16")] + [f"ecdsa:13:n@{cls}" for cls in ("tag0", "tagmax", "low0")]
    for name in extra:
        if not any(name == have for have, _ in out):
            out.append((name, [2] if name.endswith("@carry2") else [1]))
    for bits in (1024, 2048, 3072, 4096):
        for e in (3, 65537, 2**32 + 1):
            for alg in (8, 10):
                out.append((f"rsa:{bits}:{e}:{alg}", [1, 2, 3, 9] if (bits <= 2048 and alg == 8) else [2] if alg == 8 else [1]))
    out += [("rsa:2048:65537:5", [2]), ("ecdsa:13:n", [1, 2, 3, 9]), ("ecdsa:14:n", [1, 2, 3]), ("ecdsa:13:p", [2]), ("ecdsa:14:p", [2]),
            ("eddsa:15", [1, 2]), ("eddsa:16", [1, 2]), ("mixed", [2, 3, 4])]
    return out


def impl_all(req: Any, policy: Any) -> dict[str, Any]:
    import logging

    from kskm.ksr.validate import validate_request
    from kskm.ksr.verify_bundles import check_keys_match_zsk_policy, check_unique_ids
    from kskm.ksr.verify_header import check_domain
    from kskm.ksr.verify_policy import check_keys_in_bundles, check_zsk_policy_algorithm

    log = logging.getLogger("corr_C06")
    fns = {
        "check_domain": check_domain,
        "check_unique_ids": check_unique_ids,
        "check_keys_match_zsk_policy": check_keys_match_zsk_policy,
        "check_keys_in_bundles": check_keys_in_bundles,
        "check_zsk_policy_algorithm": check_zsk_policy_algorithm,
    }
    out = {"validate_request": run_impl(lambda: validate_request(req, policy))}
    for name, fn in fns.items():
        out[name] = run_impl(lambda fn=fn: fn(req, policy, log))
    return out


def judge(res: Result, tag: str, case: dict[str, Any], pol: dict[str, Any], impl: dict[str, Any], reg: dict[str, bool], model: Any, wf: bool) -> None:
    """impl vs region (the property) and impl vs model (the tie), for the composite and for every rule function."""
    rule = tag.split(":")[0]
    rcase = {"tag": tag, "case": case, "policy": pol}
    if wf:
        for chk in CHECKS:
            got = impl[chk]
            if ("ok" in got) != reg[chk]:
                res.violation(
                    f"{chk}: implementation verdict differs from the documented region",
                    rcase, key=f"{chk}:{rule}", impl=got, documented_region_accepts=reg[chk], clauses=reg,
                )
            elif "violation" in got and got["violation"] != RULE_OF_CHECK[chk]:
                res.violation(f"{chk}: raises another rule's violation class", rcase, key=f"class:{chk}", impl=got)
        want = all(reg.values())
        got = impl["validate_request"]
        if ("ok" in got) != want:
            res.violation(
                "validate_request: implementation verdict differs from the documented region (key/algorithm/header rules)",
                rcase, key=f"validate_request:{rule}", impl=got, documented_region_accepts=want, clauses=reg,
            )
        elif "violation" in got:
            # the class raised must belong to a clause the region calls violated (never a rule that is satisfied / off)
            violated = {RULE_OF_CHECK[c] for c in CHECKS if not reg[c]}
            if got["violation"] not in violated:
                res.violation("validate_request: raises the violation of a rule whose clause is satisfied", rcase, key=f"class:{rule}", impl=got, clauses=reg)
    if model is None:
        return
    if isinstance(model, dict) and "driver_error" in model:
        res.disagreement("driver error", rcase, impl, model)
        return
    for name in ["validate_request"] + CHECKS:
        m = model[name]
        if lib.is_unsupported(m):
            res.unsupported += 1
        elif not same_outcome(impl[name], m):
            res.disagreement(f"{name}: model != implementation", rcase, impl[name], m, which=name)
        elif impl[name] != m:
            res.soft_error_kind_mismatch += 1


# ---- the `_needed` witnesses of C06.lean, replayed at validate_request ------------------------------------------


def key_params_ordered(k: dict[str, Any], visiting: list[dict[str, Any]]) -> bool:
    """EcdsaParamsClauseOrdered / EddsaParamsClauseOrdered of C06.lean (C06_iff_spec), written from their statements: some
    declared entry matches the key AND every entry of the same element kind that is visited before it carries a number of that kind"""
    alg = k["alg"]
    fam, kind, bits_of = (DOC_ECDSA, "ecdsa", ec_bits) if alg in DOC_ECDSA else (DOC_EDDSA, "eddsa", ed_bits)
    blob = base64.b64decode(k["pk"])
    for i, d in enumerate(visiting):
        matches = d["kind"] == kind and d["alg"] == alg and bits_of(blob, fam[alg]) == d["bits"]
        if matches and all(x["alg"] in fam for x in visiting[:i] if x["kind"] == kind):
            return True
    return False


def judge_refined(res: Result, tag: str, case: dict[str, Any], pol: dict[str, Any], impl: dict[str, Any], literal: dict[str, bool], req: Any) -> None:
    """Cases OUTSIDE DeclaredWellFormed (an <ECDSA>/<EdDSA> entry with a number of another family, a key of that family present):
    judged by the refined region of C06_iff_spec (hypothesis-free), evaluated on the visiting order the implementation itself sees."""
    visiting = [{"kind": j["kind"], "alg": j["algorithm"], "bits": j["bits"], "exp": j["exponent"]} for j in map(lib.alg_policy_j, req.zsk_policy.algorithms)]
    refined = dict(literal)
    if pol["keys_match_zsk_policy"]:
        refined["check_keys_match_zsk_policy"] = literal["check_keys_match_zsk_policy"] and all(
            key_params_ordered(k, visiting) for b in case["bundles"] for k in b["keys"] if k["alg"] in DOC_ECDSA or k["alg"] in DOC_EDDSA)
    rcase = {"tag": tag, "case": case, "policy": pol, "declared_visiting_order": visiting}
    for chk in CHECKS:
        if ("ok" in impl[chk]) != refined[chk]:
            res.violation(f"{chk}: implementation verdict differs from the refined documented region (C06_iff_spec; declared policy not well-formed)",
                          rcase, key=f"refined:{chk}", impl=impl[chk], refined_region_accepts=refined[chk], clauses=refined)
    got = impl["validate_request"]
    if ("ok" in got) != all(refined.values()):
        res.violation("validate_request: implementation verdict differs from the refined documented region (C06_iff_spec; declared policy not well-formed)",
                      rcase, key="refined:validate_request", impl=got, refined_region_accepts=all(refined.values()), clauses=refined)
    if not pol["keys_match_zsk_policy"] and ("ok" in got) != all(literal.values()):  # C06_iff_spec_allowed: rule off => literal region exact
        res.violation("validate_request: implementation verdict differs from the documented region (KSR-BUNDLE-KEYS off, C06_iff_spec_allowed)",
                      rcase, key="refined:literal", impl=got, clauses=literal)
    res.bump("outside-domain:judged-by-refined-region:" + ("same-as-literal" if refined == literal else "literal-accepts-refined-rejects"))
    res.evaluations += len(CHECKS)


def parser_stream(res: Result) -> None:
    """Is DeclaredWellFormed ever false of a request that load_ksr can build?  Exhaustive over (element kind, also-present element,
    algorithm number 0..255): the real `_parse_signature_algorithms` on `<SignatureAlgorithm algorithm=n><KIND size=256/>`.  The
    parser dispatches on the NUMBER, so an entry it returns must have the element kind of its number's family (then the literal region
    of the property text is exact for every loadable KSR, C06_iff_spec_partial); an ill-formed entry coming out of the parser would make
    the `_needed` witnesses reachable from a KSR file and is reported as a violation with the parser input."""
    from kskm.common.parse_utils import _parse_signature_algorithms

    elem = {"rsa": "RSA", "ecdsa": "ECDSA", "eddsa": "EdDSA"}
    fam = lambda n: "rsa" if n in DOC_RSA else "ecdsa" if n in DOC_ECDSA else "eddsa" if n in DOC_EDDSA else None  # noqa: E731
    for kind in elem:
        for extra in (None, *[k for k in elem if k != kind]):
            for n in range(256):
                value = {elem[k]: {"attrs": {"size": "256", "exponent": "65537"} if k == "rsa" else {"size": "256"}, "value": ""} for k in (kind, extra) if k}
                data = {"attrs": {"algorithm": str(n)}, "value": value}
                got = run_impl(lambda data=data: _parse_signature_algorithms(data), lambda r: [lib.alg_policy_j(a) for a in r])
                res.count({"parser": [kind, extra, n]})
                res.evaluations += 1
                want_kind = fam(n) if fam(n) in (kind, extra) else None  # the element of the number's own family must be there
                if "ok" in got:
                    ents = got["ok"]
                    good = len(ents) == 1 and ents[0]["algorithm"] == n and ents[0]["kind"] == want_kind and ents[0]["bits"] == 256
                    res.bump("parser:declared-entry:" + (f"parsed-{ents[0]['kind']}" if ents else "empty"))
                    if not good:
                        res.violation("_parse_signature_algorithms returns a declared entry whose element kind contradicts its algorithm number "
                                      "(DeclaredWellFormed no longer holds of loadable KSRs: the C06 `_needed` witnesses become reachable)",
                                      {"parser_input": data}, key="parser:ill-formed-declared-entry", impl=got, expected_kind=want_kind)
                else:
                    res.bump("parser:declared-entry:refused-" + str(got.get("error", got)))
                    if want_kind is not None:
                        res.violation("_parse_signature_algorithms refuses a well-formed declared entry", {"parser_input": data},
                                      key="parser:refuses-well-formed", impl=got, expected_kind=want_kind)


def witness_cases() -> list[tuple[str, dict[str, Any], dict[str, Any], bool]]:
    """(tag, case with the declared entries in VISITING order, policy, unrefined-region-is-exact?) — wEcReq / wEdReq / wPol of
    C06.lean in both visiting orders, and the variants covered by C06_iff_spec_allowed (rule off / ill-formed number not allowed)"""
    out = []
    for fam, alg, other, blob in (("ecdsa", 13, 15, bytes(64)), ("eddsa", 15, 13, bytes(32))):
        key = keyspec(fam[:2], alg, blob, ttl=0)
        good = {"kind": fam, "alg": alg, "bits": 256, "exp": None}
        bad = {"kind": fam, "alg": other, "bits": 256, "exp": None}
        pol = {
            "acceptable_domains": ["."], "approved_algorithms": [ALG_NAMES[13], ALG_NAMES[15]],
            "rsa_approved_exponents": [65537], "rsa_approved_key_sizes": [2048],
            "num_keys_per_bundle": [1], "num_different_keys_in_all_bundles": 1,
            "keys_match_zsk_policy": True, "check_keys_match_ksk_operator_policy": True, "signature_algorithms_match_zsk_policy": True,
            "rsa_exponent_match_zsk_policy": True, "enable_unsupported_ecdsa": True, "enable_unsupported_edwards_dsa": True,
        }
        other_flag = "enable_unsupported_edwards_dsa" if fam == "ecdsa" else "enable_unsupported_ecdsa"
        for oname, decl in (("bad-first", [bad, good]), ("good-first", [good, bad])):
            case = {"domain": ".", "bundles": [{"id": "b0", "keys": [dict(key)]}], "declared": [dict(d) for d in decl]}
            out.append((f"witness:{fam}:{oname}:all-on", case, dict(pol), oname == "good-first"))
            out.append((f"witness:{fam}:{oname}:keys-rule-off", case, dict(pol, keys_match_zsk_policy=False), True))
            out.append((f"witness:{fam}:{oname}:ill-formed-number-not-allowed", case, dict(pol, **{other_flag: False}), True))
    return out


def witness_stream(res: Result, driver_ok: bool) -> None:
    """Fixed cases: the witnesses of keyParams_ecdsa/eddsa_iff_needed, checkNewKey_iff_needed, keysMatch_iff_clause_needed and
    C06_iff_spec_needed, as whole requests through validate_request and the five rule functions, the declared set visited in a fixed
    order.  Judged (1) by the refined region of C06_iff_spec for every rule function, (2) by the property text as literally stated
    (region()) for the composite wherever C06_iff_spec_allowed / the good visiting order make it exact, (3) against the model."""
    todo = []
    lines = []
    for tag, case, pol in [(t, c, p) for t, c, p, _ in witness_cases()]:
        req, policy = build(case, pol)
        zp = req.zsk_policy.model_copy(update={"algorithms": [a for d in case["declared"] for a in req.zsk_policy.algorithms
                                                              if (a.algorithm.value, type(a).__name__.lower().endswith(d["kind"])) == (d["alg"], True)]})
        assert [a.algorithm.value for a in zp.algorithms] == [d["alg"] for d in case["declared"]]
        req = req.model_copy(update={"zsk_policy": zp})  # a list: visited in the listed order
        todo.append((tag, case, pol, impl_all(req, policy)))
        lines.append({"op": "c06_all", "request": request_j(req), "policy": request_policy_j(policy), "now": 0})
    model = run_driver(lines, exe=DRIVER) if driver_ok else [None] * len(lines)
    exact = {t: e for t, _, _, e in witness_cases()}
    for (tag, case, pol, impl), m in zip(todo, model):
        res.count({"witness": tag})
        res.evaluations += len(CHECKS)
        res.bump("witness:" + tag.split(":", 2)[2])
        rcase = {"tag": tag, "case": case, "policy": pol, "declared_visiting_order": case["declared"]}
        literal = region(case, pol)
        refined = dict(literal)
        if pol["keys_match_zsk_policy"]:
            refined["check_keys_match_zsk_policy"] = literal["check_keys_match_zsk_policy"] and all(
                key_params_ordered(k, case["declared"]) for b in case["bundles"] for k in b["keys"])
        for chk in CHECKS:  # (1) keysMatch_iff_clause / C06_iff_spec: the refined region is exact, rule by rule
            if ("ok" in impl[chk]) != refined[chk]:
                res.violation(f"{chk}: implementation verdict differs from the refined documented region (C06_iff_spec) on a fixed witness",
                              rcase, key=f"witness:{chk}", impl=impl[chk], refined_region_accepts=refined[chk], clauses=refined)
        got = impl["validate_request"]
        if ("ok" in got) != all(refined.values()):
            res.violation("validate_request: implementation verdict differs from the refined documented region (C06_iff_spec) on a fixed witness",
                          rcase, key="witness:validate_request", impl=got, refined_region_accepts=all(refined.values()), clauses=refined)
        if exact[tag]:  # (2) C06_iff_spec_allowed / good order: the property text as literally stated decides the composite
            if ("ok" in got) != all(literal.values()):
                res.violation("validate_request: implementation verdict differs from the documented region on a fixed witness where "
                              "C06_iff_spec_allowed makes the literal region exact", rcase, key="witness:literal", impl=got, clauses=literal)
        else:
            # the property text read literally puts this request INSIDE the region (wEc_region / wEd_region of C06.lean)
            if not all(literal.values()):
                res.violation("harness inconsistency: the `_needed` witness is not inside the literal documented region (oracle or witness wrong)",
                              rcase, key="oracle:witness", clauses=literal)
            if "ok" in got:
                res.notes.append(f"{tag}: /repo now accepts the witness of C06_iff_spec_needed (declared-entry search repaired?)")
                res.bump("witness-outcome:literal-region-accepts:impl-accepts")
            else:
                res.bump("witness-outcome:literal-region-accepts:impl-" + ("violation-" + got["violation"] if "violation" in got else "error-" + str(got.get("error"))))
                if "violation" in got:
                    res.violation("validate_request: a policy violation is raised on a request whose every documented clause is satisfied",
                                  rcase, key="witness:class", impl=got, clauses=literal)
        judge(res, tag + "|witness|1", case, pol, impl, literal, m, False)  # (3) model = implementation, all six observables



def run(tier: str, driver_ok: bool) -> Result:
    res = Result("C06")
    res.rule = (
        "base requests over RSA 1024/2048/3072/4096 x exponents 3/65537/2^32+1 x algorithms 8/10(/5), ECDSA P-256/P-384 with and "
        "without the SEC 1 octet, EdDSA, mixed families; the same families with every ZSK steered onto a boundary of the RFC 4034 "
        "key-tag fold (fold carries a second time / tag 0 / tag 65535 / low half 0; RSA 1024..4096 alg 8 and 10, P-256, P-384, Ed25519; "
        "stated tag cross-checked with dnspython); 1/2/3/4/9 bundles; every single-field corruption of the property text at "
        "first/second/middle/last key positions (thorough: all); every algorithm number 1..16 under every policy subclass; flag sets "
        "= as-configured / own-flag-only / all-but-own / random (thorough: additionally all 64 subsets of the six switches for every request of <= 2 bundles); each (request, policy) "
        "is judged by validate_request and by each of the five rule functions; non-trivial = distinct (request, policy) input"
    )
    r = lib.rng("C06")
    order_defect = True  # tabulated from the code below: does the declared-entry search raise on a malformed entry met first?
    # the order-dependence witness of C06.lean (ecdsa_declared_order_witness), replayed on /repo in both visiting orders
    witness_key = keyspec("ec", 13, bytes(64))
    for order in ([("ecdsa", 13), ("ecdsa", 15)], [("ecdsa", 15), ("ecdsa", 13)]):
        from kskm.common.data import AlgorithmDNSSEC, AlgorithmPolicyECDSA, Key, SignaturePolicy
        from kskm.ksr.data import Request, RequestBundle
        from kskm.ksr.verify_bundles import _find_matching_zsk_policy_ecdsa_alg

        algs = [AlgorithmPolicyECDSA(bits=256, algorithm=AlgorithmDNSSEC(a)) for _, a in order]
        key = Key(key_identifier="ec", key_tag=witness_key["tag"], ttl=0, flags=256, protocol=3, algorithm=AlgorithmDNSSEC(13), public_key=witness_key["pk"].encode())
        zp = SignaturePolicy.model_construct(algorithms=algs)  # a list: the visiting order is the listed order
        rq = Request.model_construct(id="w", serial=1, domain=".", timestamp=None, zsk_policy=zp, bundles=[])
        got = run_impl(lambda: _find_matching_zsk_policy_ecdsa_alg(rq, key) is not None, bool)
        want = {"ok": True} if order[0][1] == 13 else {"error": "value"}
        res.count({"witness": order})
        res.bump("witness:ecdsa-declared-order")
        if got != want:
            order_defect = False
            res.disagreement("ecdsa_declared_order_witness does not reproduce on /repo (declared-entry search repaired? then the model and the "
                             "_partial theorems of C06.lean must follow: compare the algorithm before stripping the prefix)", {"order": order}, got, want)

    if order_defect:
        witness_stream(res, driver_ok)
    parser_stream(res)
    if not order_defect:
        res.notes.append("declared-entry order dependence not present in this tree: malformed declared entries are judged by the documented region too")
    for family, nbs in families(tier):
        for nb in nbs:
            todo: list[tuple[str, dict[str, Any], dict[str, Any], dict[str, Any], dict[str, bool], bool]] = []
            lines: list[dict[str, Any]] = []
            case0, pol0 = base_case(r, family, nb)
            if "@" in family:
                check_boundary_keys(res, family, case0)
            for tag, own, case, pol in corruptions(r, case0, pol0, family, tier):
                case = as_sets(case)
                full = tier == "thorough" and len(case["bundles"]) <= 2 and (not tag.startswith("declared-extra") or tag.endswith("as-configured"))
                if "@" in family and tag.split(":")[0] not in ("honest", "tag", "flags", "protocol", "pk", "id-reuse", "same-key-two-ids", "key-alg"):
                    full = False  # key-tag boundary bases: all 64 flag subsets for the corruptions that touch a key / its tag only
                for flags in flag_sets(own, pol, r, "thorough" if full else "quick"):
                    p = dict(pol, **flags)
                    try:
                        req, policy = build(case, p)
                    except Exception as exc:  # noqa: BLE001  (a policy the configuration loader itself refuses)
                        res.bump("skipped:unbuildable:" + type(exc).__name__)
                        continue
                    impl = impl_all(req, policy)
                    reg = region(case, p)
                    wf = well_formed(case) or not order_defect
                    if not wf:
                        judge_refined(res, f"{tag}|{family}|{nb}", case, p, impl, reg, req)
                    todo.append((f"{tag}|{family}|{nb}", case, p, impl, reg, wf))
                    lines.append({"op": "c06_all", "request": request_j(req), "policy": request_policy_j(policy), "now": 0})
            # one driver call per (family, bundle count): bounded memory in the thorough tier
            model = run_driver(lines, exe=DRIVER) if driver_ok else [None] * len(lines)
            evaluate(res, todo, model)
    return res


def check_boundary_keys(res: Result, family: str, case0: dict[str, Any]) -> None:
    """self-check of the generator: every key of a `family@class` base is on the boundary it was steered to, and the tag the
    base states for it (region's RFC transcription) is also what dnspython computes"""
    import dns.dnssec
    import dns.rdataclass
    import dns.rdatatype
    from dns.rdtypes.ANY.DNSKEY import DNSKEY

    cls = family.split("@")[1]
    for k in {k["pk"]: k for b in case0["bundles"] for k in b["keys"]}.values():
        blob = base64.b64decode(k["pk"])
        rd = bytes([k["flags"] >> 8, k["flags"] & 0xFF, k["protocol"], k["alg"]]) + blob
        ac = sum(b if (i & 1) else (b << 8) for i, b in enumerate(rd))
        theirs = dns.dnssec.key_id(DNSKEY(dns.rdataclass.IN, dns.rdatatype.DNSKEY, k["flags"], k["protocol"], k["alg"], blob))
        res.bump(f"tag-boundary:{cls}:{'alg' + str(k['alg'])}")
        if not TAG_CLASSES[cls](ac) or theirs != k["tag"]:
            res.violation("harness inconsistency: steered key is not on its key-tag boundary, or dnspython computes another tag (generator or oracle wrong)",
                          {"family": family, "key": k}, key="oracle:tag-boundary", on_boundary=TAG_CLASSES[cls](ac), dnspython=theirs, stated=k["tag"])


def evaluate(res: Result, todo: list[Any], model: list[Any]) -> None:
    for (tag, case, p, impl, reg, wf), m in zip(todo, model):
        res.count({"case": case, "policy": p})
        res.evaluations += len(CHECKS)  # the composite and each rule function are judged separately
        rule = tag.split("|")[0].split(":")[0]
        res.bump("corruption:" + rule)
        res.bump("family:" + tag.split("|")[1].split(":")[0].split("@")[0])
        if "@" in tag.split("|")[1]:
            res.bump("key-tag-boundary:" + tag.split("|")[1].split("@")[1])
        res.bump("bundles:" + tag.split("|")[2])
        res.bump("impl:" + ("accept" if "ok" in impl["validate_request"] else next(iter(impl["validate_request"].values()))))
        res.bump("flags-on:" + str(sum(1 for f in CHECK_FLAGS if p[f])))
        if not wf:
            res.bump("outside-domain:declared-not-well-formed")
        if len(res.samples) < 5 and rule in ("honest", "id-reuse", "declared", "flags", "declared-extra") and not any(s["tag"].split(":")[0] == rule for s in res.samples):
            small = {"domain": case["domain"], "declared": case["declared"], "bundles": [{"id": b["id"], "keys": [{**k, "pk": k["pk"][:24] + "..."} for k in b["keys"]]} for b in case["bundles"]]}
            res.sample({"tag": tag, "case": small, "policy": p, "impl": impl, "model": m, "documented_region": reg})
        judge(res, tag, case, p, impl, reg, m, wf)


def replay(obj: dict[str, Any]) -> Any:
    v = obj.get("violation") or obj.get("disagreement") or {}
    rc = v["case"]
    if "case" not in rc:
        return {"case": rc, "recorded": {k: v.get(k) for k in ("impl", "model")}}
    case, pol = rc["case"], rc["policy"]
    req, policy = build(case, pol)
    impl = impl_all(req, policy)
    m = run_driver([{"op": "c06_all", "request": request_j(req), "policy": request_policy_j(policy), "now": 0}], exe=DRIVER)[0]
    return {"tag": rc.get("tag"), "case": case, "policy": pol, "implementation": impl, "model": m, "documented_region": region(case, pol), "declared_well_formed": well_formed(case)}
