"""C04 correspondence: a KSK signs only inside its validity window and only if it is the configured key.

One configured KSK, one request bundle whose schema slot publishes and signs with it.  The product of
  * validity windows: valid_from in {inception-1s, inception, inception+1s} x valid_until in {unset, expiration-1s, expiration, expiration+1s},
  * identity claims: key tag unset / right / wrong / 0 (legal, falsy); DS SHA-256 unset / right (upper or lower case) / wrong; size / exponent / algorithm claims right or wrong,
  * token contents: the right key; a different key under the same label; other size; other exponent; EC instead of RSA (and vice versa);
    public or private object missing; duplicated public / private object; key in the second slot / second module; EC private object without point,
is run through the real sign_bundles() against the emulator.  The property text is the oracle: a signature by
the label may appear ONLY if every stated condition holds; a label on no token, an unreadable public part or two
objects under the label in one slot must stop the run.  When every condition holds signing must complete.
The Lean model replays each run's token log and must predict result and operations.
"""

from __future__ import annotations

import itertools
from datetime import timedelta
from typing import Any

import ceremony as C
import keys as K
import lib
import signer_scenarios as S
from lib import Result

DRIVER = C.DRIVER
ASSUMPTIONS = ["the token emulator stands in for a PKCS#11 device; handles are numbered per slot"]
TRUSTED = ["harness/p11emu.py token emulator"]

SEC = timedelta(seconds=1)


def base_scenario(alg: int, tk: K.TestKey) -> S.Scenario:
    sc = S.Scenario()
    sc.modules = [{"path": "emu0", "pin": "1234", "slots": [{"id": 0}, {"id": 1}]}, {"path": "emu1", "pin": "1234", "slots": [{"id": 0}]}]
    zalg = alg
    ztk = K.rsa_keys(1024, 65537)[0] if alg in (8, 10) else K.ec_keys("P-256" if alg == 13 else "P-384")[0]
    if ztk is tk:
        ztk = (K.rsa_keys(1024, 65537) if alg in (8, 10) else K.ec_keys("P-256" if alg == 13 else "P-384"))[1]
    sc.zsks = [("Z0", ztk, zalg)]
    sc.layout = [[0]]
    sc.schema = {1: {"publish": ["ka"], "sign": ["ka"], "revoke": []}}
    sc.ksks["ka"] = {"label": "Kka", "tk": tk, "alg": alg, "module": "emu0", "slot": 0, "wrapped": True, "priv_has_point": False, "priv_has_pub_attrs": True}
    sc.ksks["ka"]["entry"] = C.ksk_config_entry("Kka", tk, alg)
    return sc


TOKEN_VARIANTS = [
    "right",
    "other_key_same_label",
    "other_size",
    "other_exponent",
    "other_family",
    "no_public",
    "no_private",
    "dup_public",
    "dup_private",
    "second_slot",
    "second_module",
    "absent",
    "ec_priv_has_point",
    "slot0_refuses_login_key_in_slot1",
    # two objects under the label in the FIRST place that has any, exactly one (the right key) in a later slot / module:
    # the property demands a stop, not a guess and not a fall-through to the later place
    "dup_public_then_single_in_second_slot",
    "dup_private_then_single_in_second_slot",
    "dup_public_then_single_in_second_module",
    "dup_private_then_single_in_second_module",
]


def apply_token_variant(sc: S.Scenario, variant: str, alg: int) -> dict[str, Any]:
    """Returns facts about the token content the oracle needs."""
    k = sc.ksks["ka"]
    tk = k["tk"]
    facts = {"present": True, "same_key": True, "same_family": True, "same_size": True, "same_exponent": True, "public_readable": True, "private_present": True, "duplicate": False}
    rsa = tk.kind == "rsa"
    if variant == "right":
        pass
    elif variant == "other_key_same_label":
        pool = [x for x in (K.rsa_keys(tk.bits, tk.e) if rsa else K.ec_keys(tk.curve)) if x is not tk]
        k["tk"] = pool[0]
        facts["same_key"] = False
    elif variant == "other_size":
        if rsa:
            k["tk"] = [x for x in K.rsa_keys(None, tk.e) if x.bits != tk.bits][0]
        else:
            k["tk"] = K.ec_keys("P-384" if tk.curve == "P-256" else "P-256")[0]
        facts["same_key"] = False
        facts["same_size"] = False
    elif variant == "other_exponent":
        if rsa:
            k["tk"] = [x for x in K.rsa_keys(tk.bits) if x.e != tk.e][0]
            facts["same_key"] = False
            facts["same_exponent"] = False
        else:
            return apply_token_variant(sc, "other_key_same_label", alg)
    elif variant == "other_family":
        k["tk"] = K.ec_keys("P-256")[0] if rsa else K.rsa_keys(2048, 65537)[0]
        facts["same_key"] = False
        facts["same_family"] = False
    elif variant == "no_public":
        k["public"] = False
        facts["public_readable"] = False  # the slot publishes the key: the public object itself is looked up
    elif variant == "no_private":
        k["private"] = False
        facts["private_present"] = False
    elif variant == "dup_public":
        sc.token_edits.append(lambda w, k=k: dup(w, k, True))
        facts["duplicate"] = True
    elif variant == "dup_private":
        sc.token_edits.append(lambda w, k=k: dup(w, k, False))
        facts["duplicate"] = True
    elif variant == "second_slot":
        k["slot"] = 1
    elif variant == "second_module":
        k["module"] = "emu1"
        k["slot"] = 0
    elif variant == "absent":
        k["absent"] = True
        facts["present"] = False
    elif variant == "ec_priv_has_point":
        k["priv_has_point"] = True
        k["wrapped"] = False
    elif variant == "slot0_refuses_login_key_in_slot1":
        sc.modules[0]["slots"][0]["login_ok"] = False
        k["slot"] = 1
    elif variant.startswith("dup_") and "_then_single_in_" in variant:
        public = variant.startswith("dup_public")
        sc.token_edits.append(lambda w, k=k: dup(w, k, public))
        where = ("emu0", 1) if variant.endswith("second_slot") else ("emu1", 0)
        sc.token_edits.append(lambda w, k=k, where=where: add_pair(w, k, *where))
        facts["duplicate"] = True
    return facts


def add_pair(world: Any, k: dict[str, Any], module: str, slot_id: int) -> None:
    slot = world.modules[module].slot(slot_id)
    tk = k["tk"]
    if tk.kind == "rsa":
        slot.add_rsa(k["label"], tk, public=True, private=True)
    else:
        slot.add_ec(k["label"], tk, public=True, private=True)


def dup(world: Any, k: dict[str, Any], public: bool) -> None:
    slot = world.modules[k["module"]].slot(k["slot"])
    tk = k["tk"]
    if tk.kind == "rsa":
        slot.add_rsa(k["label"], tk, public=public, private=not public)
    else:
        slot.add_ec(k["label"], tk, public=public, private=not public)


def run(tier: str, driver_ok: bool) -> Result:
    import hashlib

    from kskm.common.data import AlgorithmDNSSEC
    from kskm.common.dnssec import key_to_rdata, public_key_to_dnssec_key

    res = Result("C04")
    res.rule = (
        "product of validity windows (valid_from in {inc-1s, inc, inc+1s} x valid_until in {unset, exp-1s, exp, exp+1s}) x identity claims "
        "(tag unset/right/wrong, DS unset/right-upper/right-lower/wrong, size/exponent/algorithm claims) x 14 token-content variants, for RSA "
        "and ECDSA keys; quick samples the identity claims, thorough takes the full product; multi-bundle stream: 2..4 bundles x target bundle x 7 role "
        "patterns of the windowed key (all slots / only j / up to j / from j / revoked at j / every slot but j ...) x windows +-1 s around bundle j, a second "
        "always-valid signer; unreadable stream: every attribute read of a fault-free run x {error return, nothing answered} on tokens with the key in one place / "
        "a copy or another key under the label in a later slot or module; non-trivial = distinct case description"
    )
    r = lib.rng("C04")
    runs = []
    algs = [(8, K.rsa_keys(2048, 65537)[0]), (10, K.rsa_keys(1024, 65539)[1]), (13, K.ec_keys("P-256")[2]), (14, K.ec_keys("P-384")[2])]
    windows = list(itertools.product([-1, 0, 1], [None, -1, 0, 1]))
    # tag "zero": key_tag 0 is a legal configured value (0..65535) that is falsy in Python; it is a WRONG claim for every fixture key (none has tag 0)
    identity = list(itertools.product(["unset", "right", "wrong", "zero"], ["unset", "upper", "lower", "wrong"], ["right", "size", "exponent", "algorithm"]))
    for alg, tk in algs:
        for variant in TOKEN_VARIANTS:
            if variant == "ec_priv_has_point" and tk.kind == "rsa":
                continue
            if tier == "thorough":
                combos = list(itertools.product(windows, identity))
            else:
                # all windows with honest identity; all identity claims inside the window; a random sample of the rest
                combos = [(w, ("unset", "unset", "right")) for w in windows] + [((0, 0), i) for i in identity]
                combos += [(r.choice(windows), r.choice(identity)) for _ in range(6)]
                if variant not in ("right", "other_key_same_label"):
                    combos = r.sample(combos, 14)
            # the same instants written with non-UTC offsets in the configuration (the window is about instants, not wall-clock text)
            tz_combos = [(c, None) for c in combos]
            if variant in ("right", "second_slot"):
                for off in (2, -5, 5.5):
                    tz_combos += [((w, ("unset", "unset", "right")), off) for w in windows]
            for ((df, du), (tagc, dsc, claim)), tz_off in tz_combos:
                sc = base_scenario(alg, tk)
                facts = apply_token_variant(sc, variant, alg)
                req = sc.request()
                b = req.bundles[0]
                e = C.ksk_config_entry("Kka", tk, alg)  # claims describe the CONFIGURED key tk (token may hold another)
                from datetime import timezone as _tz

                zone = _tz.utc if tz_off is None else _tz(timedelta(hours=tz_off))
                e["valid_from"] = (b.inception + df * SEC).astimezone(zone).isoformat()
                if du is not None:
                    e["valid_until"] = (b.expiration + du * SEC).astimezone(zone).isoformat()
                import base64

                pk = tk.dnskey_b64() if tk.kind == "rsa" else base64.b64encode(tk.ec_point(prefix=True))
                dk = public_key_to_dnssec_key(public_key=pk, key_identifier="Kka", algorithm=AlgorithmDNSSEC(alg), ttl=0, flags=257)
                if tagc == "right":
                    e["key_tag"] = dk.key_tag
                elif tagc == "wrong":
                    e["key_tag"] = (dk.key_tag % 65535) + 1
                elif tagc == "zero":
                    e["key_tag"] = 0
                ds = hashlib.sha256(b"\x00" + key_to_rdata(dk)).hexdigest()
                if dsc == "upper":
                    e["ds_sha256"] = ds.upper()
                elif dsc == "lower":
                    e["ds_sha256"] = ds.lower()
                elif dsc == "wrong":
                    e["ds_sha256"] = ("0" if ds[0] != "0" else "1") + ds[1:]
                claims_ok = True
                if claim == "size" and tk.kind == "rsa":
                    e["rsa_size"] = tk.bits + 1024
                    claims_ok = False
                elif claim == "exponent" and tk.kind == "rsa":
                    e["rsa_exponent"] = tk.e + 2
                    claims_ok = False
                elif claim == "algorithm":
                    # claim another family: RSA key claimed ECDSA and vice versa
                    e["algorithm"] = "ECDSAP256SHA256" if tk.kind == "rsa" else "RSASHA256"
                    if tk.kind != "rsa":
                        e["rsa_size"] = 2048
                        e["rsa_exponent"] = 65537
                    claims_ok = False
                sc.ksks["ka"]["entry"] = e
                x = S.run_sign(sc, "sign_bundles")
                case = {"alg": alg, "token": variant, "valid_from_offset_s": df, "valid_until_offset_s": du, "tag": tagc, "ds": dsc, "claim": claim, "config_utc_offset_h": tz_off}
                x["case"] = case
                runs.append(x)
                res.count(case)
                res.bump("token:" + variant)
                impl = x["impl"]
                res.bump("impl:" + ("ok" if "ok" in impl else str(next(iter(impl.values())))))
                signed = "ok" in impl and any(s.key_identifier == "Kka" for bb in x["objs"] for s in bb.signatures)
                published = "ok" in impl and any(k.key_identifier == "Kka" for bb in x["objs"] for k in bb.keys)
                window_ok = df <= 0 and (du is None or du >= 0)
                # identity: judged against the key that is ACTUALLY on the token under the label
                tok = sc.ksks["ka"]["tk"]
                cfg_alg = e["algorithm"]
                cfg_family = "rsa" if cfg_alg.startswith("RSA") else "ec"
                family_ok = (tok.kind == "rsa") == (cfg_family == "rsa")
                if tok.kind == "rsa":
                    params_ok = e.get("rsa_size") == tok.k * 8 and e.get("rsa_exponent") == tok.e
                    tpk = tok.dnskey_b64()
                else:
                    want_curve = {"ECDSAP256SHA256": "P-256", "ECDSAP384SHA384": "P-384"}.get(cfg_alg)
                    params_ok = want_curve == tok.curve
                    tpk = base64.b64encode(tok.ec_point(prefix=True))
                tag_ok = ds_ok = True
                if family_ok and params_ok:
                    tdk = public_key_to_dnssec_key(public_key=tpk, key_identifier="Kka", algorithm=AlgorithmDNSSEC[cfg_alg], ttl=0, flags=257)
                    tag_ok = "key_tag" not in e or e["key_tag"] == tdk.key_tag
                    ds_ok = "ds_sha256" not in e or e["ds_sha256"].upper() == hashlib.sha256(b"\x00" + key_to_rdata(tdk)).hexdigest().upper()
                identity_ok = family_ok and params_ok and tag_ok and ds_ok
                token_ok = facts["present"] and facts["public_readable"] and facts["private_present"] and not facts["duplicate"]
                key_identified_ok = True
                allowed = window_ok and identity_ok and token_ok and key_identified_ok
                if (signed or published) and not allowed:
                    res.violation(
                        "a KSK was published/used although a stated condition does not hold",
                        case,
                        key=f"{variant}:{'window' if not window_ok else 'identity'}",
                        impl=impl,
                        facts=facts,
                        window_ok=window_ok,
                        identity_ok=identity_ok,
                    )
                if allowed and not signed and AlgorithmDNSSEC[cfg_alg].value == alg:  # (else: C02's algorithm-set rule refuses)
                    res.violation("every stated condition holds but signing did not complete", case, key=f"incomplete:{variant}", impl=impl, facts=facts)
                if window_ok and facts["duplicate"] and claims_ok and tagc not in ("wrong", "zero") and dsc != "wrong" and impl != {"error": "runtime"}:
                    res.violation("two objects under the label in one slot: expected the run to stop with the duplicate-label error", case, key=f"duplicate-class:{variant}", impl=impl if "ok" not in impl else "ok")
                if not window_ok and impl != {"violation": "keyUsage"}:
                    res.violation("key outside its validity window: expected a key-usage policy violation", case, key="window-class", impl=impl)
                if not window_ok and any(rec["op"] == "sign" for rec in x["log"]):
                    res.violation("private-key operation although the key is outside its window", case, key="window-sign", impl=impl)
                if len(res.samples) < 3 and (variant, df) in (("right", 0), ("other_key_same_label", 0), ("dup_private", 0)):
                    res.sample({"case": case, "impl": impl, "token_ops": len(x["log"])})
    multi_bundle_stream(res, runs, r, tier)
    unreadable_stream(res, runs, r, tier)
    if driver_ok:
        S.compare_with_model(res, runs, "sign_bundles")
    return res


ROLE_PATTERNS = ["all", "only_j", "upto_j", "from_j", "publish_all_sign_j", "revoke_j", "not_j"]


def multi_bundle_stream(res: Result, runs: list[dict[str, Any]], r: Any, tier: str) -> None:
    """The window is a condition PER BUNDLE: n = 2..4 bundles, the windowed KSK 'ka' used (published / signing / revoked) in
    a pattern of slots around a target bundle j, a second always-valid KSK 'kb' signing every slot; valid_from / valid_until
    are placed +-1 s around bundle j's inception / expiration.  Oracle (property text): the run may complete only if for EVERY
    bundle i in which ka is published, revoked or signs, inception_i >= valid_from and (no valid_until or expiration_i <=
    valid_until); then it must complete and ka appears exactly in the slots the schema names; otherwise key-usage violation."""
    rsa = K.rsa_keys(2048, 65537)
    ec = K.ec_keys("P-256")
    combos = []
    for alg, ka, kb in ((8, rsa[0], rsa[1]), (13, ec[2], ec[3])):
        for n in (2, 3, 4):
            for j in range(n):
                for pat in ROLE_PATTERNS:
                    for df, du in itertools.product([-1, 0, 1], [None, -1, 0, 1]):
                        combos.append((alg, ka, kb, n, j, pat, df, du))
    if tier == "quick":
        keep = [c for c in combos if c[0] == 8 and c[3] == 3 and (c[6], c[7]) in ((0, 0), (1, None), (0, -1), (-1, 1))]
        combos = keep + r.sample([c for c in combos if c not in keep], 60)
    for alg, ka, kb, n, j, pat, df, du in combos:
        sc = base_scenario(alg, ka)
        sc.ksks["kb"] = {"label": "Kkb", "tk": kb, "alg": alg, "module": "emu0", "slot": 1, "wrapped": True, "priv_has_point": False, "priv_has_pub_attrs": True}
        sc.ksks["kb"]["entry"] = C.ksk_config_entry("Kkb", kb, alg)
        sc.layout = [[0]] * n
        uses: dict[int, set[str]] = {}
        for i in range(n):
            roles = {
                "all": {"publish", "sign"},
                "only_j": {"publish", "sign"} if i == j else set(),
                "upto_j": {"publish", "sign"} if i <= j else set(),
                "from_j": {"sign"} if i >= j else set(),
                "publish_all_sign_j": {"publish", "sign"} if i == j else {"publish"},
                "revoke_j": {"revoke"} if i == j else ({"publish"} if i < j else set()),
                "not_j": set() if i == j else {"publish", "sign"},
            }[pat]
            uses[i] = roles
            sc.schema[i + 1] = {"publish": ["kb"] + (["ka"] if "publish" in roles else []), "sign": ["kb"] + (["ka"] if "sign" in roles else []), "revoke": ["ka"] if "revoke" in roles else []}
        req = sc.request()
        bj = req.bundles[j]
        e = C.ksk_config_entry("Kka", ka, alg)
        vf = bj.inception + df * SEC
        vu = None if du is None else bj.expiration + du * SEC
        e["valid_from"] = vf.isoformat()
        if vu is not None:
            e["valid_until"] = vu.isoformat()
        sc.ksks["ka"]["entry"] = e
        x = S.run_sign(sc, "sign_bundles")
        case = {"stream": "multi-bundle", "alg": alg, "bundles": n, "target_bundle": j + 1, "roles": pat, "valid_from_offset_s": df, "valid_until_offset_s": du}
        x["case"] = case
        runs.append(x)
        res.count(case)
        res.bump("multi:" + pat)
        impl = x["impl"]
        bad_slots = [i + 1 for i, b in enumerate(req.bundles) if uses[i] and not (b.inception >= vf and (vu is None or b.expiration <= vu))]
        res.bump("multi:" + ("inside" if not bad_slots else "outside"))
        if "ok" in impl:
            for i, bb in enumerate(x["objs"]):
                pub = any(k.key_identifier == "Kka" for k in bb.keys)
                sgn = any(sg.key_identifier == "Kka" for sg in bb.signatures)
                if (pub or sgn) and (i + 1) in bad_slots:
                    res.violation("a KSK was published/used although a stated condition does not hold", case, key=f"multi-bundle:window:{pat}", bundle=i + 1, published=pub, signed=sgn, impl_outcome="ok")
                if pub != bool(uses[i]) or sgn != ("sign" in uses[i]):
                    res.violation("windowed KSK does not appear exactly where the schema names it", case, key=f"multi-bundle:roles:{pat}", bundle=i + 1, published=pub, signed=sgn, roles=sorted(uses[i]))
        if bad_slots and impl != {"violation": "keyUsage"}:
            res.violation("key outside its validity window: expected a key-usage policy violation", case, key="multi-bundle:window-class", impl=impl if "ok" not in impl else "ok", bad_slots=bad_slots)
        if not bad_slots and "ok" not in impl:
            res.violation("every stated condition holds but signing did not complete", case, key=f"multi-bundle:incomplete:{pat}", impl=impl)


def stable_part(impl: dict[str, Any]) -> Any:
    """the response without the signature octets (ECDSA signatures are randomised)"""
    return [{**b, "signatures": [{k: v for k, v in sg.items() if k not in ("signatureData", "signature_data", "signature")} for sg in b.get("signatures", [])]} for b in impl["ok"]]


PUBLIC_PART = {"MODULUS", "PUBLIC_EXPONENT", "EC_POINT", "EC_PARAMS"}


def unreadable_stream(res: Result, runs: list[dict[str, Any]], r: Any, tier: str) -> None:
    """"A label ... whose public part cannot be read ... stops the run instead of signing with a guess": every attribute read
    of a fault-free run is made to fail (error return) or to answer nothing (unreadable), on tokens where the key exists in
    ONE place and on tokens where a second copy / another key under the label exists in a later slot or module.  A failed
    read of the public part (modulus, exponent, EC point/params) must stop the run wherever else the label may be found;
    for the other reads (class, label, id, key type) only the fault-free result may come out."""
    algs = [(8, K.rsa_keys(2048, 65537)[0]), (13, K.ec_keys("P-256")[2])]
    if tier == "thorough":
        algs += [(10, K.rsa_keys(1024, 65539)[1]), (14, K.ec_keys("P-384")[2])]
    layouts = ["single", "copy-in-second-module", "copy-in-second-slot", "other-key-in-second-module"]
    for alg, tk in algs:
        for layout in layouts:
            sc = base_scenario(alg, tk)
            k = sc.ksks["ka"]
            if layout != "single":
                where = ("emu0", 1) if layout.endswith("second-slot") else ("emu1", 0)
                if layout.startswith("other-key"):
                    pool = [x for x in (K.rsa_keys(tk.bits, tk.e) if tk.kind == "rsa" else K.ec_keys(tk.curve)) if x is not tk]
                    sc.token_edits.append(lambda w, k=k, where=where, o=pool[0]: add_pair(w, dict(k, tk=o), *where))
                else:
                    sc.token_edits.append(lambda w, k=k, where=where: add_pair(w, k, *where))
            base = S.run_sign(sc, "sign_bundles")
            if "ok" not in base["impl"]:
                res.violation("every stated condition holds but signing did not complete", {"stream": "unreadable", "alg": alg, "layout": layout, "fault": None}, key=f"unreadable:incomplete:{layout}", impl=base["impl"])
                continue
            reads = []
            last_class: dict[tuple[Any, Any], Any] = {}
            for i, rec in enumerate(base["log"]):
                if rec["op"] == "findObjects":
                    last_class[(rec.get("module"), rec.get("slot"))] = dict((a, v) for a, v in rec.get("template", [])).get("CLASS")
                elif rec["op"] == "getAttributeValue":
                    reads.append((i, dict(rec, of_class=last_class.get((rec.get("module"), rec.get("slot"))))))
            for pos, rec in reads:
                for kind in ("error", "unreadable"):
                    sc.plan = {pos: {"kind": kind}}
                    x = S.run_sign(sc, "sign_bundles")
                    sc.plan = {}
                    # the public part of the PUBLIC object (class 2), or any read that ends in an error return; a private
                    # object that answers nothing for its public attributes is ordinary token behaviour (the public object is
                    # consulted instead) and may complete
                    is_public_obj = rec.get("of_class") == 2
                    public_part = bool(PUBLIC_PART & set(rec.get("attrs", []))) and (is_public_obj or kind == "error")
                    case = {"stream": "unreadable", "alg": alg, "layout": layout, "position": pos, "attrs": rec.get("attrs"), "object_class": rec.get("of_class"), "module": rec.get("module"), "slot": rec.get("slot"), "kind": kind}
                    x["case"] = case
                    runs.append(x)
                    res.count(case)
                    res.bump(f"unreadable:{kind}:{'public-part' if public_part else 'other-attrs'}:{'stopped' if 'ok' not in x['impl'] else 'completed'}")
                    if "ok" in x["impl"]:
                        if public_part:
                            res.violation("the public part of the key could not be read but the run did not stop", case, key=f"unreadable:{layout}:{kind}", impl="ok")
                        elif stable_part(x["impl"]) != stable_part(base["impl"]):
                            res.violation("a failed attribute read changed the response", case, key=f"unreadable-other:{layout}:{kind}")


def replay(obj: dict[str, Any]) -> Any:
    return {"recorded": obj, "note": "cases are fully described by (alg, token variant, window offsets, tag/ds/claim); re-run ./check C04 to regenerate"}
