"""Environment independence (the time zone of the process): the instants and the zone loop shared by
corr_C11 / corr_C17 / corr_C18.

The tools print and parse instants.  What they print must be a function of the input only — not of TZ /
/etc/localtime of the machine they run on.  The unit tests, CI and this sandbox run in UTC, where `astimezone()`
without an argument, `time.mktime`, `datetime.fromtimestamp` without tz, `time.localtime`, a naive `datetime.now()` …
are all harmless.  Every check that prints or parses instants therefore re-runs a deterministic sub-sample of its
streams with the process zone switched (lib.ProcessTZ: TZ + tzset, verified to have an effect) to each of
lib.non_utc_zones(): America/New_York (negative offset, DST), Australia/Lord_Howe (+10:30, 30-minute DST, southern),
Asia/Kolkata (+05:30, no DST), Europe/Berlin (positive offset, DST) and compares with the UTC run, the independent
oracle and the Lean model (which only sees integers).

Instants (`lattice()`): January and July (inside / outside every zone's DST period, both hemispheres), the turn of a
year, a month and a leap day seen from both sides of UTC, and — for every zone with DST — the UTC instants of its two
switches of 2025 (read from the tz database through zoneinfo, with a fixed table as cross-check) with -1 h, -30 min,
-1 s, 0, +1 s, +30 min, +1 h around them (the local times that do not exist / exist twice).

Everything here is integer seconds since the epoch or aware UTC datetimes; nothing depends on the process zone.
"""

from __future__ import annotations

import contextlib
from datetime import datetime, timedelta, timezone
from functools import lru_cache
from typing import Any, Iterator

import lib

UTC = timezone.utc
EPOCH = datetime(1970, 1, 1, tzinfo=UTC)


def ts(y: int, mo: int, d: int, h: int = 0, mi: int = 0, s: int = 0) -> int:
    """Seconds since the epoch of a UTC civil time (aware arithmetic only)."""
    return (datetime(y, mo, d, h, mi, s, tzinfo=UTC) - EPOCH) // timedelta(seconds=1)


# the DST switches of 2025 as UTC instants (published rules; cross-checked against the tz database below)
SWITCHES_2025 = {
    "America/New_York": [ts(2025, 3, 9, 7), ts(2025, 11, 2, 6)],  # 02:00 EST -> 03:00 EDT ; 02:00 EDT -> 01:00 EST
    "Australia/Lord_Howe": [ts(2025, 4, 5, 15), ts(2025, 10, 4, 15, 30)],  # 02:00 +11 -> 01:30 +10:30 ; 02:00 +10:30 -> 02:30 +11
    "Asia/Kolkata": [],
    "Europe/Berlin": [ts(2025, 3, 30, 1), ts(2025, 10, 26, 1)],  # 02:00 CET -> 03:00 CEST ; 03:00 CEST -> 02:00 CET
}
AROUND = [-3600, -1800, -1, 0, 1, 1800, 3600]


@lru_cache(maxsize=None)
def switches(name: str, year: int = 2025) -> list[int]:
    """UTC instants in `year` at which the UTC offset of zone `name` changes, read from the tz database."""
    try:
        import zoneinfo

        z = zoneinfo.ZoneInfo(name)
    except Exception:  # noqa: BLE001  (no tz database: the published table)
        return list(SWITCHES_2025.get(name, []))
    out = []
    t, end = ts(year, 1, 1), ts(year + 1, 1, 1)
    prev = (EPOCH + timedelta(seconds=t)).astimezone(z).utcoffset()
    while t < end:
        t += 1800
        off = (EPOCH + timedelta(seconds=t)).astimezone(z).utcoffset()
        if off != prev:
            out.append(t)
            prev = off
    return out


@lru_cache(maxsize=1)
def lattice() -> list[tuple[str, int]]:
    """(label, seconds since the epoch), ascending, pairwise distinct."""
    out: list[tuple[str, int]] = [
        ("january-noon", ts(2025, 1, 16, 12)),
        ("january-midnight", ts(2025, 1, 16)),
        ("july-noon", ts(2025, 7, 16, 12)),
        ("july-midnight", ts(2025, 7, 15)),
        ("leap-day-start", ts(2024, 2, 29)),
        ("leap-day-end", ts(2024, 2, 29, 23, 59, 59)),
        ("month-start", ts(2025, 5, 1)),
        ("year-end-last-second", ts(2025, 12, 31, 23, 59, 59)),
        ("year-start", ts(2026, 1, 1)),
        ("year-start-plus-6h", ts(2026, 1, 1, 6)),
        ("root-ksk-2010", ts(2010, 7, 15)),
        ("archived-ksr-2018-q1", ts(2018, 1, 1)),
    ]
    for name, _posix, _off in lib.non_utc_zones():
        sw = switches(name)
        want = SWITCHES_2025.get(name)
        if want is not None and sw != want:
            raise RuntimeError(f"tz database and the published DST rules of {name} disagree for 2025: {sw} != {want}")
        for k, s in enumerate(sw):
            for d in AROUND:
                out.append((f"{name}:switch{k}{d:+d}s", s + d))
    seen: set[int] = set()
    uniq = []
    for label, s in sorted(out, key=lambda x: x[1]):
        if s not in seen:
            seen.add(s)
            uniq.append((label, s))
    return uniq


def lattice_us() -> list[tuple[str, int]]:
    return [(label, s * 10**6) for label, s in lattice()]


def aware(s: int) -> datetime:
    """seconds since the epoch -> aware UTC datetime"""
    return EPOCH + timedelta(seconds=s)


def civil(s: int) -> tuple[int, int, int, int, int, int]:
    """seconds since the epoch -> UTC civil time by integer arithmetic (days-from-civil inverse; no datetime, no zone)."""
    days, rem = divmod(s, 86400)
    z = days + 719468
    era = z // 146097
    doe = z - era * 146097
    yoe = (doe - doe // 1460 + doe // 36524 - doe // 146096) // 365
    y = yoe + era * 400
    doy = doe - (365 * yoe + yoe // 4 - yoe // 100)
    mp = (5 * doy + 2) // 153
    d = doy - (153 * mp + 2) // 5 + 1
    m = mp + 3 if mp < 10 else mp - 9
    if m <= 2:
        y += 1
    return y, m, d, rem // 3600, rem % 3600 // 60, rem % 60


def iso_utc(s: int, suffix: str = "") -> str:
    return "%04d-%02d-%02dT%02d:%02d:%02d" % civil(s) + suffix


def iso_offset(s: int, offset_minutes: int) -> str:
    """The same instant written with a UTC offset other than zero: 2010-07-15T02:00:00+02:00 for 2010-07-15T00:00:00Z."""
    sign = "+" if offset_minutes >= 0 else "-"
    a = abs(offset_minutes)
    return iso_utc(s + offset_minutes * 60) + "%s%02d:%02d" % (sign, a // 60, a % 60)


@contextlib.contextmanager
def zone(z: tuple[str, str, int]) -> Iterator[str]:
    """`with tzenv.zone(z) as name:` — the process runs in zone z (a row of lib.TZ_ZONES) inside the block."""
    with lib.ProcessTZ(*z) as p:
        yield p.name


def all_zones() -> list[tuple[str, str, int]]:
    """UTC first (the baseline every other run is compared with), then lib.non_utc_zones()."""
    return [lib.TZ_ZONES[0], *lib.non_utc_zones()]


def local_shift_visible(z: tuple[str, str, int]) -> bool:
    """Guard against a vacuous run: inside `zone(z)` a naive local rendering of a fixed instant differs from UTC."""
    import time

    return time.localtime(lib.TZ_PROBE).tm_gmtoff == z[2]


def first_difference(a: Any, b: Any) -> Any:
    """Where two observations (nested lists / dicts / strings) differ first, for the failing-input report."""
    if type(a) is not type(b):
        return {"utc": a, "zone": b}
    if isinstance(a, dict):
        for k in sorted(set(a) | set(b), key=str):
            if a.get(k) != b.get(k):
                return {"at": k, "diff": first_difference(a.get(k), b.get(k))}
        return None
    if isinstance(a, (list, tuple)):
        for i in range(max(len(a), len(b))):
            x = a[i] if i < len(a) else None
            y = b[i] if i < len(b) else None
            if x != y:
                return {"at": i, "diff": first_difference(x, y)}
        return None
    if a != b:
        return {"utc": a, "zone": b}
    return None
