"""A FRESH evaluation of one receiver step, for corr_C20's history stream.

Run as a script, this is a new interpreter that has never handled an upload: it imports
kskm.wksr.server from the repository working tree (KSKM_REPO, with the stubs of harness/wksr_stubs.py),
reads ONE job (a JSON line on stdin), builds the application from the receiver's configuration file as
it is on disk now (`WKSR.from_file`), passes the client through the whitelist middleware and — when the
job names a stored upload — calls `validate_ksr` on it against the files as they are at this moment.
It answers with one JSON line and exits; it is never reused.

`FreshPool` (imported by corr_C20) keeps a few such interpreters started ahead of time, so that the
start-up cost is paid in the background; each serves exactly one job.
"""

from __future__ import annotations

import collections
import json
import os
import subprocess
import sys
from pathlib import Path
from typing import Any

HERE = Path(__file__).resolve().parent


def evaluate_step(server: Any, job: dict[str, Any]) -> dict[str, Any]:
    """dispatch + validate_ksr on the files as they are now; used by the fresh interpreter (and, with the
    long-lived module, by nobody else: corr_C20 drives the in-process history itself)."""
    import asyncio

    import lib
    import wksr_stubs

    HTTPException = wksr_stubs.http_exception_class()
    out: dict[str, Any] = {}
    try:
        app = server.WKSR.from_file(job["wksr_yaml"])
    except Exception as e:  # noqa: BLE001
        return {"app": {"error": lib.error_kind(e)}}
    peer = job["peer"]
    if isinstance(peer, dict):
        peer = bytes.fromhex(peer["der"])
    reached: list[Any] = []

    async def call_next(rq: Any) -> str:
        reached.append(rq)
        return "handler-response"

    try:
        ret = asyncio.run(server.ClientCertificateWhitelist(None).dispatch(wksr_stubs.FakeRequest(app, peer), call_next))
        out["dispatch"] = "callNext" if (reached and ret == "handler-response") else {"error": "returned-without-handler"}
    except HTTPException as e:  # type: ignore[misc]
        out["dispatch"] = {"http": e.status_code}
    except Exception as e:  # noqa: BLE001
        out["dispatch"] = {"error": lib.error_kind(e)}
    if job.get("stored") is not None and out["dispatch"] == "callNext":
        with lib.PinnedClock() as clock:
            clock.now_us = job["now_us"]
            try:
                result = server.validate_ksr(app, Path(job["stored"]))
                out["verdict"] = {"ok": result.get("status")}
            except Exception as e:  # noqa: BLE001
                out["verdict"] = {"error": lib.error_kind(e)}
    return out


def main() -> int:
    sys.path.insert(0, str(HERE))
    import lib  # noqa: F401  (points sys.path at the repository working tree)
    import wksr_stubs

    server = wksr_stubs.load_server()
    line = sys.stdin.readline()
    if not line.strip():
        return 0
    job = json.loads(line)
    out = evaluate_step(server, job)
    out["pid"] = os.getpid()
    sys.stdout.write("\nFRESH-RESULT " + json.dumps(out) + "\n")
    sys.stdout.flush()
    return 0


class FreshPool:
    """Single-use interpreters, started ahead of time.  `ask(job)` hands the job to the oldest one, starts a
    replacement, and returns the answer."""

    def __init__(self, size: int = 8) -> None:
        self.size = size
        self.ready: collections.deque[subprocess.Popen[bytes]] = collections.deque()
        self.used = 0
        self.pids: set[int] = set()

    def _spawn(self) -> "subprocess.Popen[bytes]":
        env = dict(os.environ)
        env.setdefault("PYTHONHASHSEED", "0")
        return subprocess.Popen([sys.executable, str(HERE / "wksr_fresh.py")], stdin=subprocess.PIPE, stdout=subprocess.PIPE, stderr=subprocess.PIPE, env=env, cwd=str(HERE))

    def __enter__(self) -> "FreshPool":
        for _ in range(self.size):
            self.ready.append(self._spawn())
        return self

    def __exit__(self, *a: Any) -> None:
        while self.ready:
            p = self.ready.popleft()
            try:
                p.communicate(b"\n", timeout=30)
            except Exception:  # noqa: BLE001
                p.kill()

    def ask(self, job: dict[str, Any], timeout: float = 120.0) -> dict[str, Any]:
        p = self.ready.popleft() if self.ready else self._spawn()
        self.ready.append(self._spawn())
        self.used += 1
        try:
            so, se = p.communicate((json.dumps(job) + "\n").encode(), timeout=timeout)
        except subprocess.TimeoutExpired:
            p.kill()
            return {"fresh_failed": "timeout"}
        for ln in reversed(so.decode(errors="replace").splitlines()):
            if ln.startswith("FRESH-RESULT "):
                out = json.loads(ln[len("FRESH-RESULT ") :])
                self.pids.add(out.pop("pid", -1))
                return out
        return {"fresh_failed": (se.decode(errors="replace") or so.decode(errors="replace"))[-600:]}


if __name__ == "__main__":
    sys.exit(main())
